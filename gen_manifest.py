#!/usr/bin/env python3
"""Regenerates MANIFEST.json from checks_config.py (run after editing the config)."""
import json, os, sys
sys.path.insert(0, os.path.dirname(os.path.abspath(__file__)))
from checks_config import PROPS, MANIFEST_TEXT, NOT_APPLICABLE

BASELINE_OFF = ("cd /repo && go build ./... && go test -json -vet=off -count=1 -timeout 25m ./...")

checks = []
for pid in sorted(PROPS):
    cfg = PROPS[pid]
    mt = MANIFEST_TEXT[pid]
    checks.append({
        "property_id": pid,
        "quick_cmd": "./check %s quick" % pid,
        "thorough_cmd": "./check %s thorough" % pid,
        "evidence_file": "/verif/evidence/%s.json" % pid,
        "replay_cmd_template": "./check %s --replay {path}" % pid,
        "engine": "harness",
        "level_claimed": {"category": cfg["level"], "text": mt["level_text"], "design_ref": mt["design_ref"]},
        "level_note": mt["level_note"],
        "technique": mt["technique"],
    })

manifest = {
    "version": 1,
    "setup_cmd": "./check --setup",
    "hooks": {
        "guard": "verif",
        "enable": "go build/test -tags verif (the driver always passes the tag). One hook: cache/lock_hook_on.go (tag verif) wraps the "
                  "sub-cache and cached-entity mutexes so that cache.VerifLockHook is called before every acquisition (C18 injects "
                  "sleeps/yields there); cache/lock_hook_off.go (!verif) makes the same type an alias of sync.RWMutex.",
        "baseline_off_cmd": BASELINE_OFF,
        "source_commits": ["523002f"],
        "add_only": False,
    },
    "engines": [{
        "name": "harness",
        "path": "/verif/harness",
        "serves_properties": sorted(PROPS),
        "kind_free_text": "Go test binary built against /repo's working tree (replace directive): pgregory.net/rapid v1.3.0 "
                          "generators and shrinking, exhaustive enumeration of small finite spaces, injected faults, "
                          "native go fuzzing in the thorough tier; driver ./check (python3) shards, aggregates and writes evidence",
    }],
    "checks": checks,
    "not_applicable": [{"property_id": k, "reason": v} for k, v in sorted(NOT_APPLICABLE.items()) if k not in PROPS],
    "notes": "All checks are property-based tests / fuzzing against explicit oracles (DESIGN.md). Known findings: known_findings.json.",
}
json.dump(manifest, open(os.path.join(os.path.dirname(os.path.abspath(__file__)), "MANIFEST.json"), "w"), indent=1)
print("MANIFEST.json written: %d checks, %d not_applicable" % (len(checks), len(manifest["not_applicable"])))
