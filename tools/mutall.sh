#!/bin/bash
# usage: tools/mutall.sh [logfile]  - runs every mutant under mutants/<PROP>/ against the quick tier of <PROP>
log=${1:-/verif/mutants/LAST_RUN.txt}
: > "$log"
for d in /verif/mutants/C*/; do
  p=$(basename "$d")
  for m in "$d"*.diff; do
    [ -f "$m" ] || continue
    /verif/tools/mutcheck.sh "$p" "$m" 2>&1 | head -1 >> "$log"
  done
done
echo "done $(date -u +%H:%M)" >> "$log"
