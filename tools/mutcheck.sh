#!/bin/bash
# usage: tools/mutcheck.sh <PROP> <patch.diff> [tier]
# Applies a mutant patch to /repo, runs the property's check, reverts. Prints DETECTED / MISSED / INCONCLUSIVE.
set -u
prop=$1; patch=$(readlink -f "$2"); tier=${3:-quick}
cd /repo || exit 2
if ! git diff --quiet; then echo "repo dirty, refusing"; exit 2; fi
if ! git apply --check "$patch" 2>/dev/null; then echo "PATCH-DOES-NOT-APPLY $patch"; exit 2; fi
git apply "$patch"
trap 'git -C /repo checkout -- . ; git -C /repo clean -fdq' EXIT
cd /verif
# a run against a mutant must not replace the committed evidence of the real tree
[ -f evidence/$prop.json ] && cp evidence/$prop.json /tmp/.evidence-$prop.bak
out=$(VERIF_SEED=${VERIF_SEED:-1} ./check "$prop" "$tier" 2>&1); rc=$?
[ -f /tmp/.evidence-$prop.bak ] && mv /tmp/.evidence-$prop.bak evidence/$prop.json
sig=$(echo "$out" | grep -A1 '^VIOLATION' | grep -m1 'signature=' | sed 's/.*signature=//')
case $rc in
 1) echo "DETECTED $prop $(basename "$patch") :: $sig";;
 0) echo "MISSED   $prop $(basename "$patch")";;
 *) echo "INCONCLUSIVE $prop $(basename "$patch") rc=$rc"; echo "$out" | tail -15;;
esac
exit 0
