#!/usr/bin/env python3
"""Regenerates seeded/README.md from the seeded/<id>/meta.json files."""
import json, glob
rows = [json.load(open(d)) for d in sorted(glob.glob('/verif/seeded/*/meta.json'))]
out = ["# Seeded changes written by independent sub-agents", "",
       "Each directory holds `patch.diff` (apply with `git -C /repo apply`, never committed there), `demo_test.go.txt` (the agent's",
       "demonstration; first line names the package directory it is copied into) and `meta.json` (what I ran and saw:",
       "applies/builds/existing suite/demo with and without, what the change needs to manifest, and the verdict of my quick checks).",
       "Re-run any of them with `python3 tools/seedcheck.py <ID> [--props Cxx,Cyy]` (needs the agent's files under /tmp/seed) or",
       "`tools/mutcheck.sh <PROP> seeded/<ID>/patch.diff`.", "",
       "`python3 tools/seedrecheck.py <ID>` re-runs the quick check of a stored change and keeps the first measurement.", "",
       "| Seed | needs to manifest | verdicts (quick tier, after strengthening) | first measurement (where kept) |", "|---|---|---|---|"]
for m in rows:
    v = "; ".join("%s: %s %s" % (k, x['verdict'], x['signature'].replace('test=', '').replace('signature=', '')) for k, x in m.get('checks', {}).items())
    f = "; ".join("%s: %s" % (k, x['verdict']) for k, x in m.get('checks_first_run', {}).items())
    out.append("| %s | %s | %s | %s |" % (m['name'], m.get('needs_to_manifest', '').replace('\n', ' ').replace('|', '/'), v, f))
out += ["", "History of misses (what was strengthened after a miss) is in DESIGN.md §9.", ""]
open('/verif/seeded/README.md', 'w').write("\n".join(out))
print(len(rows), "seeds")
