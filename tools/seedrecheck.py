#!/usr/bin/env python3
"""usage: tools/seedrecheck.py <tag> [<tag> ...] [--props C02,C11]

Runs the quick check of a stored seeded change (/verif/seeded/<tag>/patch.diff, verified earlier by seedcheck.py)
again: applies it to /repo, runs ./check <PROP> quick, reverts, restores the evidence file. meta.json keeps the
verdicts of the first measurement under "checks_first_run" and gets the new ones under "checks".
"""
import json, os, subprocess, sys, time


def main():
    tags, extra = [], []
    args = sys.argv[1:]
    while args:
        a = args.pop(0)
        if a == "--props":
            extra = args.pop(0).split(",")
        else:
            tags.append(a)
    for tag in tags:
        dst = "/verif/seeded/%s" % tag
        patch = os.path.join(dst, "patch.diff")
        meta = json.load(open(os.path.join(dst, "meta.json")))
        if subprocess.run(["git", "-C", "/repo", "diff", "--quiet"]).returncode:
            print("/repo dirty"); return 2
        if subprocess.run(["git", "-C", "/repo", "apply", "--check", patch]).returncode:
            print(tag, "PATCH DOES NOT APPLY"); continue
        results = {}
        for p in [meta["property"]] + extra:
            ev = "/verif/evidence/%s.json" % p
            bak = open(ev).read() if os.path.exists(ev) else None
            subprocess.run(["git", "-C", "/repo", "apply", patch], check=True)
            try:
                pr = subprocess.run(["./check", p, "quick"], cwd="/verif", stdout=subprocess.PIPE, stderr=subprocess.STDOUT, text=True)
            finally:
                subprocess.run(["git", "-C", "/repo", "checkout", "--", "."], check=True)
                subprocess.run(["git", "-C", "/repo", "clean", "-fdq"], check=True)
                if bak is not None:
                    open(ev, "w").write(bak)
            sig = ""
            lines = pr.stdout.splitlines()
            for i, l in enumerate(lines):
                if l.startswith("VIOLATION") and i + 1 < len(lines):
                    sig = lines[i + 1].strip()
                    break
            verdict = {1: "DETECTED", 0: "MISSED"}.get(pr.returncode, "INCONCLUSIVE rc=%d" % pr.returncode)
            results[p] = {"verdict": verdict, "signature": sig}
            print("%s: check %s quick: %s %s" % (tag, p, verdict, sig), flush=True)
            if pr.returncode not in (0, 1):
                print(pr.stdout[-1500:])
        if "checks_first_run" not in meta:
            meta["checks_first_run"] = meta.get("checks") or results
        meta["checks"] = results
        meta["rechecked_at"] = time.strftime("%Y-%m-%dT%H:%M:%SZ", time.gmtime())
        json.dump(meta, open(os.path.join(dst, "meta.json"), "w"), indent=1)
    return 0


if __name__ == "__main__":
    sys.exit(main())
