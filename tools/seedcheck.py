#!/usr/bin/env python3
"""usage: tools/seedcheck.py <PROP> [<name>] [--props C02,C11] [--src /tmp/seed2]

Verifies a seeded change written by a sub-agent (files /tmp/seed/<PROP>.patch.diff and
/tmp/seed/<PROP>.demo_test.go, first line of the demo = "// <package dir>") in a scratch worktree:
  1. the patch applies to /repo HEAD, `go build ./...` works, the existing suite (offline part) passes;
  2. the demo fails with the patch and passes without it;
then applies the patch to /repo, runs ./check <PROP> quick (and the extra properties), reverts, and stores
everything under /verif/seeded/<PROP>[-name]/ with a meta.json.
"""
import json, os, re, shutil, subprocess, sys, time

ENV = dict(os.environ, GOFLAGS="-mod=mod", GOPROXY="off", GOSUMDB="off", GOTOOLCHAIN="local", DBUS_SESSION_BUS_ADDRESS="unix:path=/nonexistent/verif-no-session-bus")
PKGS = ["./entity/...", "./entities/...", "./cache/...", "./repository/...", "./commands/...", "./api/...", "./query/...", "./util/...", "./bridge/gitlab/...", "./bridge/core/...", "./tests/..."]


def sh(cmd, cwd, timeout=1500):
    p = subprocess.run(cmd, cwd=cwd, env=ENV, stdout=subprocess.PIPE, stderr=subprocess.STDOUT, text=True, timeout=timeout)
    return p.returncode, p.stdout


def main():
    prop = sys.argv[1]
    name = sys.argv[2] if len(sys.argv) > 2 and not sys.argv[2].startswith("--") else ""
    extra = []
    for a in sys.argv:
        if a.startswith("--props"):
            extra = sys.argv[sys.argv.index(a) + 1].split(",")
    tag = prop + ("-" + name if name else "")
    src = "/tmp/seed/%s" % tag
    for a in sys.argv:
        if a == "--src":  # files are <dir>/<PROP>.patch.diff etc., whatever the name
            src = os.path.join(sys.argv[sys.argv.index(a) + 1], prop)
    patch = src + ".patch.diff"
    demo = src + ".demo_test.go"
    meta = {"property": prop, "name": tag, "verified_at": time.strftime("%Y-%m-%dT%H:%M:%SZ", time.gmtime())}
    wt = "/tmp/seedverify/%s" % tag
    subprocess.run(["git", "-C", "/repo", "worktree", "remove", "--force", wt], stdout=subprocess.DEVNULL, stderr=subprocess.DEVNULL)
    os.makedirs("/tmp/seedverify", exist_ok=True)
    rc, out = sh(["git", "-C", "/repo", "worktree", "add", "-q", "--detach", wt, "HEAD"], "/repo")
    if rc:
        print("worktree:", out); return 2
    try:
        rc, out = sh(["git", "apply", "--check", patch], wt)
        if rc:
            print("PATCH DOES NOT APPLY to current /repo HEAD:\n", out); meta["applies"] = False; return 2
        sh(["git", "apply", patch], wt)
        rc, out = sh(["go", "build", "./..."], wt)
        meta["builds"] = rc == 0
        if rc:
            print("BUILD FAILS:\n", out[-2000:]); return 2
        rc, out = sh(["go", "test", "-vet=off", "-count=1"] + PKGS, wt)
        meta["existing_suite_passes"] = rc == 0
        print("existing suite with patch:", "PASS" if rc == 0 else "FAIL")
        if rc:
            print(out[-3000:])
        first = open(demo).readline().strip()
        pkgdir = None
        for tok in re.findall(r"[A-Za-z0-9_./-]+", first):
            tok = tok.strip("./")
            if tok and os.path.isdir(os.path.join(wt, tok)) and tok not in ("", "."):
                pkgdir = tok
        if not pkgdir:
            print("cannot find the package directory in:", first); return 2
        demo_name = "seed_demo_%s_test.go" % tag.replace("-", "_").lower()
        shutil.copy(demo, os.path.join(wt, pkgdir, demo_name))
        m = re.findall(r"^func (Test\w+)\(", open(demo).read(), re.M)
        run = "^(" + "|".join(m) + ")$"
        rc1, out1 = sh(["go", "test", "-vet=off", "-count=1", "-run", run, "./" + pkgdir], wt)
        print("demo WITH patch:", "fails (good)" if rc1 else "PASSES (bad)")
        sh(["git", "apply", "-R", patch], wt)
        rc2, out2 = sh(["go", "test", "-vet=off", "-count=1", "-run", run, "./" + pkgdir], wt)
        print("demo WITHOUT patch:", "passes (good)" if rc2 == 0 else "FAILS (bad)")
        if rc2:
            print(out2[-2000:])
        meta["demo_fails_with_patch"] = rc1 != 0
        meta["demo_passes_without_patch"] = rc2 == 0
        meta["demo_tests"] = m
        meta["demo_package"] = pkgdir
    finally:
        subprocess.run(["git", "-C", "/repo", "worktree", "remove", "--force", wt], stdout=subprocess.DEVNULL, stderr=subprocess.DEVNULL)
    # ---- my checks against it (skipped with --verify-only: tools/seedrecheck.py measures later)
    verify_only = "--verify-only" in sys.argv
    if not verify_only and subprocess.run(["git", "-C", "/repo", "diff", "--quiet"]).returncode:
        print("/repo dirty"); return 2
    results = {}
    for p in ([] if verify_only else [prop] + extra):
        ev = "/verif/evidence/%s.json" % p
        bak = None
        if os.path.exists(ev):
            bak = open(ev).read()
        subprocess.run(["git", "-C", "/repo", "apply", patch], check=True)
        try:
            pr = subprocess.run(["./check", p, "quick"], cwd="/verif", stdout=subprocess.PIPE, stderr=subprocess.STDOUT, text=True)
        finally:
            subprocess.run(["git", "-C", "/repo", "checkout", "--", "."], check=True)
            subprocess.run(["git", "-C", "/repo", "clean", "-fdq"], check=True)
            if bak is not None:
                open(ev, "w").write(bak)
        sig = ""
        lines = pr.stdout.splitlines()
        for i, l in enumerate(lines):
            if l.startswith("VIOLATION") and i + 1 < len(lines):
                sig = lines[i + 1].strip()
                break
        verdict = {1: "DETECTED", 0: "MISSED"}.get(pr.returncode, "INCONCLUSIVE rc=%d" % pr.returncode)
        results[p] = {"verdict": verdict, "signature": sig}
        print("check %s quick: %s %s" % (p, verdict, sig))
        if pr.returncode not in (0, 1):
            print(pr.stdout[-1500:])
    if not verify_only:
        meta["checks"] = results
    dst = "/verif/seeded/%s" % tag
    os.makedirs(dst, exist_ok=True)
    shutil.copy(patch, os.path.join(dst, "patch.diff"))
    shutil.copy(demo, os.path.join(dst, "demo_test.go.txt"))
    note = src + ".notes.txt"
    if os.path.exists(note):
        meta["needs_to_manifest"] = open(note).read().strip()
    old = os.path.join(dst, "meta.json")
    if os.path.exists(old):
        try:
            o = json.load(open(old))
            for k in ("needs_to_manifest", "what"):
                if k in o and k not in meta:
                    meta[k] = o[k]
        except Exception:
            pass
    json.dump(meta, open(old, "w"), indent=1)
    return 0


if __name__ == "__main__":
    sys.exit(main())
