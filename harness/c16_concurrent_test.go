package harness

import (
	"fmt"
	"os"
	"strings"
	"testing"

	"pgregory.net/rapid"

	"github.com/MichaelMure/git-bug/repository"

	"verif/harness/internal/report"
)

// TestC16ImportWhilePulling: "a re-import creates nothing that exists already" with two actors in one long-lived
// process: the import of a project has just started (its K-th request is being served) when the same user pulls from
// the team's remote, where a colleague has pushed his import of the same project. The bugs that arrive by the pull
// are the issues the import is about to read: afterwards there is one bug per issue, in the tracker's state.

type c16ConcCase struct {
	Seed    uint64 `json:"seed"`
	NIssues int    `json:"n_issues"`
	// K: the pull happens while request #K of the import is served. Only 0 (the listing of the issues, before the
	// import has created anything) is generated: once the import has created a person or a bug of its own, a pull
	// of somebody else's import of the same project makes two of each, which git-bug reports as an error and no
	// listed property forbids (two people importing one project independently is not supported)
	K int `json:"k"`
}

func genC16Conc(t *rapid.T) c16ConcCase {
	return c16ConcCase{Seed: rapid.Uint64().Draw(t, "seed"), NIssues: rapid.IntRange(1, 4).Draw(t, "nIssues"), K: 0}
}

func runC16Conc(tb report.TB, rep *report.Reporter, c c16ConcCase) {
	tr := newC16Tracker()
	defer tr.srv.Reset()
	round := c16Round{}
	for i := 0; i < c.NIssues; i++ {
		round.NewIssues = append(round.NewIssues, c16Issue{Author: i % 3, Title: fmt.Sprintf("issue number %d", i), Desc: "description"})
		round.Events = append(round.Events, c16Event{Issue: i, Kind: "comment", User: (i + 1) % 3, Text: fmt.Sprintf("comment on %d", i)})
	}
	tr.apply(round, true, 0)
	bare := mkdirTemp("c16-remote-")
	defer os.RemoveAll(bare)
	if _, err := repository.InitBareGoGitRepo(bare, "git-bug"); err != nil {
		tb.Fatalf("harness: %v", err)
	}
	mate, err := newC16Repo(tr.srv.URL())
	if err != nil {
		tb.Fatalf("harness: %v", err)
	}
	defer mate.close()
	main, err := newC16Repo(tr.srv.URL())
	if err != nil {
		tb.Fatalf("harness: %v", err)
	}
	defer main.close()
	for _, r := range []*c16Repo{mate, main} {
		if err := r.repo.AddRemote("origin", bare); err != nil {
			tb.Fatalf("harness: %v", err)
		}
	}
	if _, hadErr, err := mate.importRound(); err != nil || hadErr {
		tb.Fatalf("harness: the colleague's import fails: %v %v", err, mate.lastErrors)
	}
	if _, err := mate.rc.Push("origin"); err != nil {
		tb.Fatalf("harness: push: %v", err)
	}
	n, fired := 0, false
	var pullErr error
	tr.srv.OnRequest = func(key string) {
		if fired {
			return
		}
		if n == c.K {
			fired = true
			pullErr = main.rc.Pull("origin")
		}
		n++
	}
	defer func() { tr.srv.OnRequest = nil }()
	rep.Case(fmt.Sprintf("import-while-pulling|n%d|k%d", c.NIssues, c.K), true, []string{"pull-during-an-import"}, c)
	_, hadErr, err := main.importRound()
	tr.srv.OnRequest = nil
	if pullErr != nil {
		tb.Fatalf("harness: pull: %v", pullErr)
	}
	if !fired {
		return // the import needed fewer requests
	}
	if err != nil || hadErr {
		rep.Fail(tb, "C16/concurrent/import-reports-error", fmt.Sprintf("%v %v", err, main.lastErrors), c)
		return
	}
	ids := main.rc.Bugs().AllIds()
	if len(ids) != c.NIssues {
		var titles []string
		for _, id := range ids {
			if ex, err := main.rc.Bugs().ResolveExcerpt(id); err == nil {
				titles = append(titles, ex.Title)
			}
		}
		rep.Fail(tb, "C16/concurrent/issue-imported-twice", fmt.Sprintf("the tracker has %d issues; after the import (with a pull of a colleague's import of the same project during request #%d) the repository holds %d bugs: %s", c.NIssues, c.K, len(ids), strings.Join(titles, " | ")), c)
		return
	}
	got, err := main.compiled()
	if err != nil {
		rep.Fail(tb, "C16/imported-bug-invalid/"+Normalize(err.Error()), err.Error(), c)
		return
	}
	if d := diffExpected(tr.expected(), got); d != "" {
		rep.Fail(tb, "C16/concurrent/state-differs-from-the-tracker/"+d[:strings.Index(d, ":")], d, c)
	}
}

func TestC16ImportWhilePulling(t *testing.T) {
	Drive(t, "C16", genC16Conc, runC16Conc)
}
