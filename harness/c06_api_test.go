package harness

import (
	"fmt"
	"net/http"
	"path/filepath"
	"sort"
	"strings"
	"testing"

	"github.com/gorilla/mux"
	"pgregory.net/rapid"

	"github.com/MichaelMure/git-bug/api/auth"
	"github.com/MichaelMure/git-bug/api/graphql"
	"github.com/MichaelMure/git-bug/cache"
	"github.com/MichaelMure/git-bug/entities/bug"
	"github.com/MichaelMure/git-bug/entities/identity"
	"github.com/MichaelMure/git-bug/entity"
	"github.com/MichaelMure/git-bug/repository"

	"verif/harness/internal/entropy"
	"verif/harness/internal/faultrepo"
	"verif/harness/internal/refmodel"
	"verif/harness/internal/report"
)

// TestC06ApiMutations: one user action sent through the GraphQL API (what the web UI does) with the process dying
// before the k-th storage mutation, for every k. Operation ids written by the API embed the wall clock, so the
// states are compared by shape: per bug the sequence of operation kinds, status, title, comment texts, labels.
// After the crash every bug is as before the action or as after the complete action.

type c06ApiCase struct {
	Seed     uint64 `json:"seed"`
	Mutation string `json:"mutation"`
	Closed   bool   `json:"closed"` // the bug is closed before the action
	OnlyK    int    `json:"only_k"`
}

var c06ApiMutations = []string{"addCommentAndClose", "addCommentAndReopen", "addComment", "setTitle", "changeLabels", "closeBug", "openBug", "newBug"}

func genC06Api(t *rapid.T) c06ApiCase {
	return c06ApiCase{Seed: rapid.Uint64().Draw(t, "seed"), Mutation: rapid.SampledFrom(c06ApiMutations).Draw(t, "mutation"),
		Closed: rapid.Bool().Draw(t, "closed"), OnlyK: -1}
}

func bugShapes(repo repository.ClockedRepo) (map[string]string, error) {
	out := map[string]string{}
	for _, id := range localBugIds(repo) {
		b, err := bug.Read(repo, entity.Id(id))
		if err != nil {
			return nil, fmt.Errorf("bug %s: %w", id, err)
		}
		snap := b.Compile()
		var kinds, comments, labels []string
		for _, op := range b.Operations() {
			kinds = append(kinds, fmt.Sprint(int(op.Type())))
		}
		for _, cm := range snap.Comments {
			comments = append(comments, cm.Message)
		}
		for _, l := range snap.Labels {
			labels = append(labels, string(l))
		}
		sort.Strings(labels)
		// a bug created by the action has an id that embeds the wall clock: it is known by its title
		key := id
		if snap.Title == "created through the API" {
			key = "new"
		}
		out[key] = fmt.Sprintf("ops=%s status=%s title=%q comments=%q labels=%q", strings.Join(kinds, ","), snap.Status, snap.Title, comments, labels)
	}
	return out, nil
}

func runC06Api(tb report.TB, rep *report.Reporter, c c06ApiCase) {
	w, err := NewWorld(1, c.Seed)
	if err != nil {
		tb.Fatalf("harness: world: %v", err)
	}
	defer w.Close()
	r0 := w.Replicas[0]
	must := func(err error) {
		if err != nil {
			tb.Fatalf("harness: setup: %v", err)
		}
	}
	specs := []OpSpec{{Kind: refmodel.KCreate, Author: 0, Time: 10, Title: "shared"}, {Kind: refmodel.KComment, Author: 1, Time: 11, Message: "x"}}
	if c.Closed {
		specs = append(specs, OpSpec{Kind: refmodel.KStatus, Author: 0, Time: 12, Status: 2})
	}
	must(w.execEdit(r0, nil, specs))
	must(w.execEdit(r0, nil, []OpSpec{{Kind: refmodel.KCreate, Author: 1, Time: 13, Title: "bystander"}}))
	shared := w.BugIds[0]
	me, err := identity.ReadLocal(r0.Repo, entity.Id(w.AuthorIds[0]))
	must(err)
	must(identity.SetUserIdentity(r0.Repo, me))
	_ = r0.Repo.Close()
	snap, work := filepath.Join(w.Dir, "snapshot"), r0.Path
	must(copyDir(work, snap))

	var query string
	switch c.Mutation {
	case "addCommentAndClose", "addCommentAndReopen", "addComment":
		query = fmt.Sprintf(`mutation { %s(input: {prefix: %q, message: "sent through the API"}) { bug { id } } }`, c.Mutation, shared)
	case "setTitle":
		query = fmt.Sprintf(`mutation { setTitle(input: {prefix: %q, title: "retitled through the API"}) { bug { id } } }`, shared)
	case "changeLabels":
		query = fmt.Sprintf(`mutation { changeLabels(input: {prefix: %q, added: ["api", "crash"]}) { bug { id } } }`, shared)
	case "closeBug", "openBug":
		query = fmt.Sprintf(`mutation { %s(input: {prefix: %q}) { bug { id } } }`, c.Mutation, shared)
	case "newBug":
		query = `mutation { newBug(input: {title: "created through the API", message: "m"}) { bug { id } } }`
	}
	open := func() *repository.GoGitRepo {
		repo, err := repository.OpenGoGitRepo(work, "git-bug", []repository.ClockLoader{bug.ClockLoader})
		if err != nil {
			tb.Fatalf("harness: open: %v", err)
		}
		return repo
	}
	// the action: open the cache like the web UI does, send the mutation. Crash points inside the opening of the
	// cache are not enumerated: they precede the action, and git-bug's MultiRepoCache leaves the builders of a
	// failed build behind, holding the index files of the directory for as long as the (here: surviving) process lives.
	buildEnd := 0
	action := func(repo repository.ClockedRepo) error {
		mrc := cache.NewMultiRepoCache()
		_, events := mrc.RegisterDefaultRepository(repo)
		var buildErr error
		for ev := range events { // drained to the end: the builders must not be left behind holding the index files
			if ev.Err != nil && buildErr == nil {
				buildErr = ev.Err
			}
		}
		if buildErr != nil {
			return buildErr
		}
		if fr, ok := repo.(*faultrepo.Repo); ok && fr.AbortAt < 0 {
			buildEnd = len(fr.Log)
		}
		r := mux.NewRouter()
		r.Use(auth.Middleware(entity.Id(w.AuthorIds[0])))
		r.Path("/graphql").Handler(graphql.NewHandler(mrc, nil))
		var h http.Handler = r
		entropy.Seed(c.Seed ^ 0xA91)
		_, body, raw := gqlDo(h, query, nil)
		if body == nil || body["errors"] != nil {
			return fmt.Errorf("%s", raw)
		}
		return nil
	}
	repo := open()
	pre, err := bugShapes(repo)
	must(err)
	counter := faultrepo.New(repo, -1)
	aerr := action(counter)
	_ = repo.Close()
	DeadenLock(work)
	N := len(counter.Log)
	if aerr != nil {
		// the API refuses the action as a whole (closing a closed bug, ...): nothing is enumerated
		rep.Case(fmt.Sprintf("api|%s|closed=%v|refused", c.Mutation, c.Closed), false, []string{"api-action-refused:" + c.Mutation}, c)
		return
	}
	repo = open()
	post, err := bugShapes(repo)
	_ = repo.Close()
	must(err)
	changed := 0
	for id, v := range post {
		if pre[id] != v {
			changed++
		}
	}
	if changed != 1 {
		tb.Fatalf("harness: the action %s changed %d bugs\npre  %v\npost %v", c.Mutation, changed, pre, post)
	}
	for k := buildEnd; k < N; k++ {
		if c.OnlyK >= 0 && c.OnlyK != k {
			continue
		}
		must(copyDir(snap, work))
		repo := open()
		_ = action(faultrepo.New(repo, k))
		_ = repo.Close()
		DeadenLock(work)
		kc := c
		kc.OnlyK = k
		rep.Case(fmt.Sprintf("api|%s|closed=%v|N=%d|k=%d", c.Mutation, c.Closed, N, k), mutationKind(counter.Log[k]) != "Witness", []string{"api-action:" + c.Mutation, "abort-at:" + mutationKind(counter.Log[k])}, kc)
		where := fmt.Sprintf("action %s through the API, crash before mutation #%d of %d (%s)\nmutations: %v", c.Mutation, k, N, counter.Log[k], counter.Log)
		re, err := repository.OpenGoGitRepo(work, "git-bug", []repository.ClockLoader{bug.ClockLoader})
		if err != nil {
			if rep.Fail(tb, "C06/api/reopen-fails/"+Normalize(err.Error()), where+"\n"+err.Error(), kc) {
				continue
			}
		}
		st, err := bugShapes(re)
		// the server starts again: the lock of the dead process is in the way, and has to be recognised as stale
		if rc2, oerr := cache.NewRepoCacheNoEvents(re); oerr != nil {
			if rep.Fail(tb, "C06/api/cache-does-not-open-after-crash/"+Normalize(oerr.Error()), where+"\n"+oerr.Error(), kc) {
				_ = re.Close()
				continue
			}
		} else {
			_ = rc2.Close()
		}
		_ = re.Close()
		if err != nil {
			if rep.Fail(tb, "C06/api/entity-unreadable-after-crash/"+c.Mutation+"/"+Normalize(err.Error()), where+"\n"+err.Error(), kc) {
				continue
			}
		}
		for id, v := range st {
			if v != pre[id] && v != post[id] {
				if rep.Fail(tb, "C06/api/entity-is-a-mixture/"+c.Mutation, fmt.Sprintf("%s\nbug %s\nnow  %s\npre  %s\npost %s", where, id, v, pre[id], post[id]), kc) {
					break
				}
			}
		}
		for id := range pre {
			if _, ok := st[id]; !ok {
				if rep.Fail(tb, "C06/api/entity-lost/"+c.Mutation, where+"\nbug "+id, kc) {
					break
				}
			}
		}
	}
	rep.Class("api-actions-enumerated", 1)
}

func TestC06ApiMutations(t *testing.T) {
	Drive(t, "C06", genC06Api, runC06Api)
}
