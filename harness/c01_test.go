package harness

import (
	"fmt"
	"os"
	"sort"
	"strings"
	"testing"

	"pgregory.net/rapid"

	"github.com/MichaelMure/git-bug/entities/bug"
	"github.com/MichaelMure/git-bug/entity"
	"github.com/MichaelMure/git-bug/repository"

	"verif/harness/internal/ondisk"
	"verif/harness/internal/refmodel"
	"verif/harness/internal/report"
)

// Shared history case for C01 (convergence), C02 (pull monitor) and C03-A (order at every step).

type worldCase struct {
	Seed     uint64   `json:"seed"`
	Replicas int      `json:"replicas"`
	Remotes  int      `json:"remotes,omitempty"` // 0 or 1: one remote "origin"; 2: "origin" and "alt"
	Actions  []Action `json:"actions"`
}

func genWorldCase(t *rapid.T) worldCase {
	c := worldCase{}
	c.Seed = rapid.Uint64().Draw(t, "seed")
	c.Replicas = rapid.IntRange(2, 3).Draw(t, "replicas")
	c.Remotes = rapid.SampledFrom([]int{1, 1, 2}).Draw(t, "remotes")
	c.Actions = GenActionsR(c.Replicas, c.Remotes, 8, Scale(40, 110), 2).Draw(t, "actions")
	return c
}

// genC01Case: the shared histories, and in a third of the cases the hosting of one remote moves somewhere in the
// middle: convergence is promised "over any remotes".
func genC01Case(t *rapid.T) worldCase {
	c := genWorldCase(t)
	diverging := false
	for _, a := range c.Actions {
		// an identity edited on two machines diverges for good: after a move the two sides would publish unrelated
		// heads at the new place and git-bug's fast-forward-only fetch refuses them (an error, not a loss)
		diverging = diverging || a.Kind == "idforeign"
	}
	if rapid.IntRange(0, 2).Draw(t, "remoteMoves") == 0 && !diverging {
		at := rapid.IntRange(3, len(c.Actions)).Draw(t, "moveAt")
		mv := Action{Kind: "moveremote"}
		if c.Remotes > 1 {
			mv.Rem = rapid.IntRange(0, c.Remotes-1).Draw(t, "movedRemote")
		}
		out := append([]Action(nil), c.Actions[:at]...)
		out = append(out, mv)
		c.Actions = append(out, c.Actions[at:]...)
	}
	return c
}

// sameSetDifferentOrder compares, for every bug that two replicas both hold with the same SET of
// operations, the order and the compiled snapshot. That is the antecedent of C01 ("each has received every
// operation the other knows"): it does not need equal refs, and it is met in the middle of a history when
// two replicas merged the same heads on their own (cross-merge through two remotes).
func sameSetDifferentOrder(w *World, a, b *Replica) (sig, detail string, compared int) {
	for _, id := range localBugIds(a.Repo) {
		ha, errA := a.Repo.ResolveRef("refs/bugs/" + id)
		hb, errB := b.Repo.ResolveRef("refs/bugs/" + id)
		if errA != nil || errB != nil || ha == hb {
			continue // absent on one side, or the very same history: nothing to compare
		}
		ba, err := bug.Read(a.Repo, entity.Id(id))
		if err != nil {
			continue // reported by the exec monitor
		}
		bb, err := bug.Read(b.Repo, entity.Id(id))
		if err != nil {
			continue
		}
		ia, ib := opIdsOf(ba), opIdsOf(bb)
		if !sameSet(ia, ib) {
			continue
		}
		compared++
		if strings.Join(ia, ",") != strings.Join(ib, ",") {
			return "order-differs-with-equal-operation-sets", fmt.Sprintf("bug %s: replicas %d and %d hold the same %d operations under different heads (%s, %s)\nreplica %d %v\nreplica %d %v", id, a.Idx, b.Idx, len(ia), ha, hb, a.Idx, ia, b.Idx, ib), compared
		}
		sa, sb := ProjectSnapshot(ba.Compile()), ProjectSnapshot(bb.Compile())
		sa.MustActors, sa.MayActors = sa.Actors, sa.Actors
		sb.MustActors, sb.MayActors = sb.Actors, sb.Actors
		if aspect, d := refmodel.Diff(sa, sb); aspect != "" {
			return "snapshot-differs-with-equal-operation-sets/" + aspect, fmt.Sprintf("bug %s replicas %d vs %d: %s", id, a.Idx, b.Idx, d), compared
		}
	}
	return "", "", compared
}

// mergeShapes describes every merge commit of a DAG as "a/b": the number of
// commits exclusive to each parent side.
func mergeShapes(d *ondisk.DAG) []string {
	anc := map[string]map[string]bool{}
	var ancestors func(h string) map[string]bool
	ancestors = func(h string) map[string]bool {
		if a, ok := anc[h]; ok {
			return a
		}
		a := map[string]bool{h: true}
		anc[h] = a
		for _, p := range d.Packs[h].Parents {
			for k := range ancestors(p) {
				a[k] = true
			}
		}
		return a
	}
	var out []string
	for h, p := range d.Packs {
		if len(p.Parents) == 2 {
			a, b := ancestors(p.Parents[0]), ancestors(p.Parents[1])
			ea, eb := 0, 0
			for k := range a {
				if !b[k] {
					ea++
				}
			}
			for k := range b {
				if !a[k] {
					eb++
				}
			}
			if ea > 9 {
				ea = 9
			}
			if eb > 9 {
				eb = 9
			}
			out = append(out, fmt.Sprintf("%d/%d", ea, eb))
			_ = h
		}
	}
	sort.Strings(out)
	return out
}

func actionKinds(acts []Action) string {
	var ks []string
	for _, a := range acts {
		s := a.Kind + fmt.Sprint(a.R)
		if a.Kind == "edit" || a.Kind == "new" {
			s += fmt.Sprintf("x%d", len(a.Ops))
		}
		ks = append(ks, s)
	}
	return strings.Join(ks, ",")
}

func runC01(tb report.TB, rep *report.Reporter, c worldCase) {
	w, err := NewWorldN(c.Replicas, c.Remotes, c.Seed)
	if err != nil {
		tb.Fatalf("harness: world: %v", err)
	}
	defer w.Close()
	fail := func(sig, detail string) bool {
		return rep.Fail(tb, "C01/"+sig, detail, c)
	}
	midCompared := 0
	for i, a := range c.Actions {
		err := w.Exec(a)
		if err == nil && a.Kind == "pull" {
			// only a pull can make the operation set of a replica equal to that of another one
			me := w.Replicas[a.R%len(w.Replicas)]
			for _, other := range w.Replicas {
				if other == me {
					continue
				}
				sig, detail, n := sameSetDifferentOrder(w, me, other)
				midCompared += n
				if sig != "" {
					if fail(sig, fmt.Sprintf("after action #%d %s: %s", i, a, detail)) {
						rep.Case(actionKinds(c.Actions), false, []string{"abandoned"}, nil)
						return
					}
				}
			}
		}
		if err != nil {
			if ee, ok := err.(*ExecError); ok {
				fail("exec/"+ee.Sig, fmt.Sprintf("action #%d %s: %s", i, a, ee.Detail))
				rep.Case(actionKinds(c.Actions), false, []string{"abandoned"}, nil)
				return
			}
			tb.Fatalf("harness: %v", err)
		}
	}
	rounds, err := w.SyncToQuiescence()
	if err != nil {
		if ee, ok := err.(*ExecError); ok {
			fail("sync/"+ee.Sig, ee.Detail)
			rep.Case(actionKinds(c.Actions), false, []string{"abandoned"}, nil)
			return
		}
		tb.Fatalf("harness: %v", err)
	}

	// ---- oracle
	var shapes []string
	remote, err := w.OpenRemote()
	if err != nil {
		tb.Fatalf("harness: %v", err)
	}
	defer remote.Close()
	remoteRefs := refsUnder(remote, "refs/bugs/")
	for _, name := range w.Remotes[1:] {
		other, err := w.OpenRemoteNamed(name)
		if err != nil {
			tb.Fatalf("harness: %v", err)
		}
		refs := refsUnder(other, "refs/bugs/")
		_ = other.Close()
		if fmt.Sprint(refs) != fmt.Sprint(remoteRefs) {
			if fail("remotes-differ-after-sync", fmt.Sprintf("%s: %v\norigin: %v", name, refs, remoteRefs)) {
				return
			}
		}
	}
	for _, r := range w.Replicas {
		refs := refsUnder(r.Repo, "refs/bugs/")
		if fmt.Sprint(refs) != fmt.Sprint(remoteRefs) {
			if fail("refs-differ-from-remote", fmt.Sprintf("replica %d: %v\nremote: %v", r.Idx, refs, remoteRefs)) {
				return
			}
		}
	}
	for _, id := range w.BugIds {
		var first []string
		var firstState refmodel.State
		for _, r := range w.Replicas {
			b, err := bug.Read(r.Repo, entity.Id(id))
			if err != nil {
				if fail("unreadable-after-sync/"+Normalize(err.Error()), fmt.Sprintf("replica %d bug %s: %v", r.Idx, id, err)) {
					return
				}
			}
			ids := opIdsOf(b)
			st := ProjectSnapshot(b.Compile())
			st.MustActors, st.MayActors = st.Actors, st.Actors
			if r.Idx == 0 {
				first, firstState = ids, st
				// nothing lost, nothing invented
				want := append([]string(nil), w.Committed[id]...)
				got := append([]string(nil), ids...)
				sort.Strings(want)
				sort.Strings(got)
				if strings.Join(want, ",") != strings.Join(got, ",") {
					kind := "operations-lost"
					if len(got) > len(want) {
						kind = "operations-invented"
					}
					if fail(kind, fmt.Sprintf("bug %s: committed %d operations, replica 0 shows %d\ncommitted %v\nshown %v", id, len(want), len(got), want, got)) {
						return
					}
				}
				if d, err := ondisk.ReadDAG(r.Repo, "refs/bugs/"+id); err == nil {
					shapes = append(shapes, mergeShapes(d)...)
				}
				continue
			}
			if strings.Join(ids, ",") != strings.Join(first, ",") {
				if fail("order-differs", fmt.Sprintf("bug %s: replica 0 %v\nreplica %d %v", id, first, r.Idx, ids)) {
					return
				}
			}
			if aspect, detail := refmodel.Diff(firstState, st); aspect != "" {
				if fail("snapshot-differs/"+aspect, fmt.Sprintf("bug %s replica 0 vs %d: %s", id, r.Idx, detail)) {
					return
				}
			}
		}
	}
	sort.Strings(shapes)
	classes := []string{fmt.Sprintf("replicas:%d", c.Replicas), fmt.Sprintf("remotes:%d", len(w.Remotes)), fmt.Sprintf("sync-rounds:%d", rounds)}
	if midCompared > 0 {
		classes = append(classes, "equal-sets-under-different-heads-compared")
		rep.Class("mid-history-equal-set-comparisons", midCompared)
	}
	if w.IdEdits > 0 {
		classes = append(classes, "identity-edited")
	}
	if w.GCs > 0 {
		classes = append(classes, "git-gc-between-actions")
	}
	if w.Moves > 0 {
		classes = append(classes, "a-remote-moved-to-a-new-empty-repository")
	}
	unequal := false
	for _, s := range dedup(shapes) {
		classes = append(classes, "merge:"+s)
		var a, b int
		fmt.Sscanf(s, "%d/%d", &a, &b)
		if a-b >= 2 || b-a >= 2 {
			unequal = true
		}
	}
	if unequal {
		classes = append(classes, "merge-unequal-by>=2")
	}
	if len(shapes) == 0 {
		classes = append(classes, "no-merge")
	}
	rep.Case(fmt.Sprintf("%d|%s|%s", c.Replicas, strings.Join(shapes, " "), kindMultiset(w)), len(shapes) > 0, classes, c)
}

func kindMultiset(w *World) string {
	m := map[string]int{}
	for _, r := range w.ROps {
		m[r.Kind]++
	}
	var ks []string
	for k, n := range m {
		if n > 3 {
			n = 3
		}
		ks = append(ks, fmt.Sprintf("%s%d", k, n))
	}
	sort.Strings(ks)
	return strings.Join(ks, "")
}

func TestC01Convergence(t *testing.T) {
	Drive(t, "C01", genC01Case, runC01)
}

// ---------------------------------------------------------------- convergence as the users see it: through the cache

// runC01Cache: two users work only through cache.RepoCache (edits, pushes, pulls, re-opened and rebuilt caches,
// small cache sizes), then pull and push until nothing moves. Afterwards both caches hand out, for every bug,
// the same operations in the same order, and those are the operations git holds.
func runC01Cache(tb report.TB, rep *report.Reporter, c c11Case) {
	w, err := NewCWorld(2, c.Seed)
	if err != nil {
		tb.Fatalf("harness: cworld: %v", err)
	}
	defer w.Close()
	fail := func(sig, detail string) bool { return rep.Fail(tb, "C01/cache/"+sig, detail, c) }
	rebuilt, updated := false, false
	for i, a := range c.Actions {
		if a.Kind == "remove" {
			continue // a removal is local by design: the bug comes back with the next pull, which is not the subject here
		}
		res, err := w.Exec(a)
		if err != nil {
			if ee, ok := err.(*ExecError); ok {
				if fail("exec/"+ee.Sig, fmt.Sprintf("action #%d %s r%d: %s", i, a.Kind, a.R, ee.Detail)) {
					rep.Case(cActionKinds(c.Actions), false, []string{"abandoned"}, nil)
					return
				}
			}
			tb.Fatalf("harness: %v", err)
		}
		rebuilt = rebuilt || res.Rebuilt
		updated = updated || res.PullUpdatedExisting
	}
	refsOf := func() string {
		var sb strings.Builder
		for _, r := range w.R {
			fmt.Fprintf(&sb, "%v\n", refsUnder(r.Repo, "refs/bugs/"))
		}
		if remote, err := repository.OpenGoGitRepo(w.RemotePath, "git-bug", nil); err == nil {
			fmt.Fprintf(&sb, "remote %v\n", refsUnder(remote, "refs/bugs/"))
			_ = remote.Close()
		}
		return sb.String()
	}
	for round := 0; ; round++ {
		before := refsOf()
		for ri := range w.R {
			for _, kind := range []string{"pull", "push"} {
				res, err := w.Exec(CAction{Kind: kind, R: ri})
				if err != nil {
					if ee, ok := err.(*ExecError); ok {
						if fail("sync/"+ee.Sig, ee.Detail) {
							rep.Case(cActionKinds(c.Actions), false, []string{"abandoned"}, nil)
							return
						}
					}
					tb.Fatalf("harness: %v", err)
				}
				updated = updated || res.PullUpdatedExisting
			}
		}
		if os.Getenv("VERIF_DEBUG_SYNC") != "" {
			fmt.Fprintf(os.Stderr, "---- cache sync round %d\n%s", round, refsOf())
		}
		if refsOf() == before {
			break
		}
		if round > 6 {
			fail("sync/no-quiescence", "refs still changing after 7 rounds")
			return
		}
	}
	classes := []string{"through-cache"}
	if rebuilt {
		classes = append(classes, "cache-rebuilt-in-session")
	}
	rep.Case(cActionKinds(c.Actions), updated, classes, c)
	for _, id := range sortedIds(w.R[0].Cache.Bugs().AllIds()) {
		var first []string
		for ri, r := range w.R {
			bc, err := r.Cache.Bugs().Resolve(entity.Id(id))
			if err != nil {
				if fail("bug-not-resolvable-after-sync/"+Normalize(err.Error()), fmt.Sprintf("replica %d bug %s: %v", ri, id, err)) {
					return
				}
				continue
			}
			var ids []string
			for _, op := range bc.Snapshot().Operations {
				ids = append(ids, string(op.Id()))
			}
			stored, err := bug.Read(r.Repo, entity.Id(id))
			if err != nil {
				if fail("stored-bug-unreadable/"+Normalize(err.Error()), id) {
					return
				}
				continue
			}
			if inGit := opIdsOf(stored); strings.Join(inGit, ",") != strings.Join(ids, ",") {
				if fail("cache-shows-other-operations-than-git", fmt.Sprintf("replica %d bug %s after the synchronisation\ncache %v\ngit   %v", ri, id, ids, inGit)) {
					return
				}
			}
			if ri == 0 {
				first = ids
			} else if strings.Join(first, ",") != strings.Join(ids, ",") {
				if fail("order-differs", fmt.Sprintf("bug %s: user 0 sees %v\nuser %d sees %v", id, first, ri, ids)) {
					return
				}
			}
		}
	}
}

func TestC01CacheConvergence(t *testing.T) {
	Drive(t, "C01", genC11, runC01Cache)
}
