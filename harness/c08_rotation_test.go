package harness

import (
	"fmt"
	"os"
	"testing"

	"pgregory.net/rapid"

	"github.com/MichaelMure/git-bug/entities/bug"
	"github.com/MichaelMure/git-bug/entities/identity"
	"github.com/MichaelMure/git-bug/repository"

	"verif/harness/internal/entropy"
	"verif/harness/internal/faultrepo"
	"verif/harness/internal/report"
)

// TestC08RotationDuringCommit: git-bug itself must not write a commit that its own rule refuses. One goroutine of a
// long-lived process commits an operation of an author; at the moment that commit starts (before its first
// storage operation) another one rotates that author's keys on the shared identity object, through the real
// API, and commits the new version. Whatever key the commit ends up signed with, reading the bug back succeeds.
// (A rotation that lands later, between the edit time and the signature, is refused by the rule as it is written:
// the new version records the clock the commit has just taken. That is noted in DESIGN.md, not asserted.)

type c08RotCase struct {
	Seed   uint64 `json:"seed"`
	Before []int  `json:"before"` // keys of the author before (indices into the pool, may be empty)
	After  []int  `json:"after"`  // keys after the rotation
	Prior  int    `json:"prior"`  // commits by a key-less colleague between the creation and the racing commit
}

func genC08Rot(t *rapid.T) c08RotCase {
	ks := func(label string) []int {
		return rapid.SliceOfNDistinct(rapid.IntRange(0, 2), 0, 2, func(x int) int { return x }).Draw(t, label)
	}
	return c08RotCase{Seed: rapid.Uint64().Draw(t, "seed"), Before: ks("before"), After: ks("after"), Prior: rapid.IntRange(1, 3).Draw(t, "prior")}
}

func runC08Rot(tb report.TB, rep *report.Reporter, c c08RotCase) {
	pool := keyPool()
	entropy.Seed(c.Seed)
	dir := mkdirTemp("c08r-")
	defer os.RemoveAll(dir)
	repo, err := repository.InitGoGitRepo(dir, "git-bug")
	if err != nil {
		tb.Fatalf("harness: %v", err)
	}
	defer repo.Close()
	keysOf := func(ix []int) []*identity.Key {
		var out []*identity.Key
		for _, k := range ix {
			out = append(out, pool[k].Clone())
		}
		return out
	}
	if fmt.Sprint(c.Before) == fmt.Sprint(c.After) {
		rep.Case("rotation|no-change", false, []string{"no-change"}, c)
		return
	}
	alice, err := identity.NewIdentityFull(repo, "alice", "a@example.org", "", "", keysOf(c.Before))
	if err == nil {
		err = alice.Commit(repo)
	}
	if err != nil {
		tb.Fatalf("harness: %v", err)
	}
	bob, err := identity.NewIdentity(repo, "bob", "b@example.org")
	if err == nil {
		err = bob.Commit(repo)
	}
	if err != nil {
		tb.Fatalf("harness: %v", err)
	}
	b, _, err := bug.Create(alice, 1000, "a bug", "m", nil, nil)
	if err == nil {
		err = b.Commit(repo)
	}
	if err != nil {
		tb.Fatalf("harness: %v", err)
	}
	// the last commit before the rotation is a colleague's (a new version takes effect at the time of the last commit)
	for k := 0; k < c.Prior; k++ {
		if _, _, err := bug.AddComment(b, bob, int64(1100+k), "colleague", nil, nil); err != nil {
			tb.Fatalf("harness: %v", err)
		}
		if err := b.Commit(repo); err != nil {
			tb.Fatalf("harness: %v", err)
		}
	}
	rep.Case(fmt.Sprintf("rotation|%v->%v|prior%d", c.Before, c.After, c.Prior), len(c.Before) > 0 || len(c.After) > 0,
		[]string{fmt.Sprintf("keys-before:%d", len(c.Before)), fmt.Sprintf("keys-after:%d", len(c.After))}, c)
	fr := faultrepo.New(repo, -1)
	var rotErr error
	fr.HookAt = 0
	fr.Hook = func() {
		rotErr = alice.Mutate(repo, func(m *identity.Mutator) { m.Keys = keysOf(c.After) })
		if rotErr == nil {
			rotErr = alice.Commit(repo)
		}
	}
	if _, _, err := bug.AddComment(b, alice, 1200, "written while the key was rotated", nil, nil); err != nil {
		tb.Fatalf("harness: %v", err)
	}
	cerr := b.Commit(fr)
	if rotErr != nil {
		tb.Fatalf("harness: rotation: %v", rotErr)
	}
	if cerr != nil {
		return // refusing to commit is a legal outcome
	}
	if _, err := bug.Read(repo, b.Id()); err != nil {
		rep.Fail(tb, "C08/rotation/git-bug-wrote-a-commit-it-refuses-to-read/"+Normalize(err.Error()),
			fmt.Sprintf("keys %v -> %v rotated at the moment the author's commit started; Commit returned nil; reading the bug: %v\nmutations of that commit: %v", c.Before, c.After, err, fr.Log), c)
	}
}

func TestC08RotationDuringCommit(t *testing.T) {
	Drive(t, "C08", genC08Rot, runC08Rot)
}
