package harness

import (
	"crypto/sha256"
	"encoding/hex"
	"fmt"
	"os"
	"path/filepath"
	"sort"
	"strings"
	"testing"

	"pgregory.net/rapid"

	"github.com/MichaelMure/git-bug/cache"
	"github.com/MichaelMure/git-bug/entities/bug"
	"github.com/MichaelMure/git-bug/entity"
	"github.com/MichaelMure/git-bug/repository"

	"verif/harness/internal/report"
)

// C15: git-bug never disturbs the host repository and writes only valid git data.

type c15Step struct {
	Kind string `json:"kind"` // new comment title close open label rm select deselect push pull peeredit attach show ls
	Bug  int    `json:"bug,omitempty"`
	Text string `json:"text,omitempty"`
}

type c15Case struct {
	Seed   uint64    `json:"seed"`
	Head   string    `json:"head"` // branch detached unborn
	Dirty  bool      `json:"dirty"`
	Config bool      `json:"config"` // rich unrelated configuration
	Steps  []c15Step `json:"steps"`
	Wipe   bool      `json:"wipe,omitempty"` // the session ends with `git-bug wipe`
	// From: where the user types the commands: "" the top of the main working tree, "linked" a linked working tree
	// (git worktree add), "subdir" a sub-directory. It is the same repository.
	From string `json:"from,omitempty"`
}

func genC15(t *rapid.T) c15Case {
	c := c15Case{Seed: rapid.Uint64().Draw(t, "seed"), Head: rapid.SampledFrom([]string{"branch", "branch", "detached", "unborn"}).Draw(t, "head"),
		Dirty: rapid.Bool().Draw(t, "dirty"), Config: rapid.IntRange(0, 3).Draw(t, "config") > 0}
	c.From = rapid.SampledFrom([]string{"", "", "", "linked", "subdir"}).Draw(t, "from")
	if c.Head == "unborn" && c.From == "linked" {
		c.From = "subdir" // a linked working tree needs a commit to check out
	}
	text := rapid.OneOf(rapid.SampledFrom([]string{"plain", "with \"quotes\" and $vars", "unicode é 日本 🐛", "-starts-with-dash", "multi\nline"}), GenTitle())
	one := rapid.Custom(func(t *rapid.T) c15Step {
		return c15Step{Kind: rapid.SampledFrom([]string{"new", "new", "comment", "comment", "title", "close", "open", "label", "rm", "select", "deselect", "push", "push", "pull", "pull", "peeredit", "peeredit", "attach", "show", "ls", "gc", "bridgeconf", "bridgerm", "longsession"}).Draw(t, "kind"),
			Bug: rapid.IntRange(0, 5).Draw(t, "bug"), Text: text.Draw(t, "text")}
	})
	c.Steps = rapid.SliceOfN(one, 5, 18).Draw(t, "steps")
	if rapid.IntRange(0, 2).Draw(t, "planned") > 0 {
		// a diverged bug merged on the host, and an attachment pushed
		plan := []c15Step{{Kind: "new", Text: "shared"}, {Kind: "push"}, {Kind: "peeredit", Text: "peer"}, {Kind: "comment", Text: "host"}, {Kind: "pull"}, {Kind: "attach", Text: "x"}, {Kind: "push"}}
		if rapid.Bool().Draw(t, "gcInPlan") {
			// the user's git collects garbage between two commands: refs and objects get packed
			plan = []c15Step{{Kind: "new", Text: "shared"}, {Kind: "push"}, {Kind: "gc"}, {Kind: "peeredit", Text: "peer"}, {Kind: "comment", Text: "host"}, {Kind: "pull"}, {Kind: "attach", Text: "x"}, {Kind: "gc"}, {Kind: "push"}, {Kind: "peeredit", Text: "again"}, {Kind: "pull"}}
		}
		at := rapid.IntRange(0, len(c.Steps)).Draw(t, "at")
		out := append([]c15Step(nil), c.Steps[:at]...)
		out = append(out, plan...)
		c.Steps = append(out, c.Steps[at:]...)
	}
	c.Wipe = rapid.IntRange(0, 3).Draw(t, "wipe") == 0
	if c.Wipe {
		// wipe only touches the configuration when something of git-bug's own is left in it
		c.Steps = append(c.Steps, c15Step{Kind: "bridgeconf", Bug: rapid.IntRange(0, 2).Draw(t, "wipeBridge")})
	}
	return c
}

type hostFingerprint struct {
	refs   string
	head   string
	index  string
	status string
	files  string
	config string
	gitDir string
	stash  string
}

func fileHash(p string) string {
	b, err := os.ReadFile(p)
	if err != nil {
		return "ERR:" + err.Error()
	}
	s := sha256.Sum256(b)
	return hex.EncodeToString(s[:8])
}

func hostState(dir string) hostFingerprint {
	var fp hostFingerprint
	var refs []string
	for _, line := range strings.Split(RunGit(dir, "for-each-ref", "--format=%(refname) %(objectname)").Out, "\n") {
		f := strings.Fields(line)
		if len(f) != 2 {
			continue
		}
		parts := strings.Split(f[0], "/")
		own := strings.HasPrefix(f[0], "refs/bugs/") || strings.HasPrefix(f[0], "refs/identities/") ||
			(len(parts) >= 5 && parts[1] == "remotes" && (parts[3] == "bugs" || parts[3] == "identities"))
		if !own {
			refs = append(refs, line)
		}
	}
	fp.refs = strings.Join(refs, "\n")
	h, _ := os.ReadFile(filepath.Join(dir, ".git", "HEAD"))
	fp.head = string(h)
	fp.index = fileHash(filepath.Join(dir, ".git", "index"))
	fp.status = RunGit(dir, "status", "--porcelain=v2", "--branch", "--untracked-files=all").Out
	var files []string
	_ = filepath.Walk(dir, func(p string, info os.FileInfo, err error) error {
		if err != nil {
			return nil
		}
		if info.IsDir() && info.Name() == ".git" {
			return filepath.SkipDir
		}
		if !info.IsDir() {
			rel, _ := filepath.Rel(dir, p)
			files = append(files, rel+" "+fileHash(p)+" "+info.Mode().String())
		}
		return nil
	})
	sort.Strings(files)
	fp.files = strings.Join(files, "\n")
	var cfg []string
	for _, e := range strings.Split(RunGit(dir, "config", "--local", "--list", "-z").Out, "\x00") {
		if e == "" || strings.HasPrefix(e, "git-bug.") {
			continue
		}
		cfg = append(cfg, e)
	}
	sort.Strings(cfg)
	fp.config = strings.Join(cfg, "\n")
	entries, _ := os.ReadDir(filepath.Join(dir, ".git"))
	var names []string
	for _, e := range entries {
		n := e.Name()
		if n == "git-bug" || n == "objects" || n == "refs" || n == "logs" || n == "packed-refs" || n == "config" || n == "index" || n == "HEAD" ||
			n == "FETCH_HEAD" || n == "ORIG_HEAD" || strings.HasSuffix(n, ".lock") {
			continue // compared above, or git's own bookkeeping of fetches
		}
		names = append(names, n)
	}
	sort.Strings(names)
	fp.gitDir = strings.Join(names, " ")
	fp.stash = RunGit(dir, "stash", "list").Out
	return fp
}

func (a hostFingerprint) diff(b hostFingerprint) (string, string) {
	switch {
	case a.refs != b.refs:
		return "foreign-refs", fmt.Sprintf("before:\n%s\nafter:\n%s", a.refs, b.refs)
	case a.head != b.head:
		return "HEAD", fmt.Sprintf("%q -> %q", a.head, b.head)
	case a.index != b.index:
		return "index", a.index + " -> " + b.index
	case a.status != b.status:
		return "status", fmt.Sprintf("before:\n%s\nafter:\n%s", a.status, b.status)
	case a.files != b.files:
		return "work-tree", fmt.Sprintf("before:\n%s\nafter:\n%s", a.files, b.files)
	case a.config != b.config:
		return "foreign-configuration", fmt.Sprintf("before:\n%s\nafter:\n%s", a.config, b.config)
	case a.gitDir != b.gitDir:
		return "git-dir-entries", a.gitDir + " -> " + b.gitDir
	case a.stash != b.stash:
		return "stash", ""
	}
	return "", ""
}

func prepareHost(tb report.TB, dir string, c c15Case) {
	must := func(res CLIResult) {
		if res.Code != 0 {
			tb.Fatalf("harness: git: %s", res.Out)
		}
	}
	must(RunGit(dir, "init", "-q", "-b", "main", "."))
	must(RunGit(dir, "config", "user.name", "Host User"))
	must(RunGit(dir, "config", "user.email", "host@example.org"))
	if c.Head != "unborn" {
		_ = os.WriteFile(filepath.Join(dir, "README.md"), []byte("# host project\n"), 0o644)
		_ = os.MkdirAll(filepath.Join(dir, "src"), 0o755)
		_ = os.WriteFile(filepath.Join(dir, "src", "main.c"), []byte("int main(){return 0;}\n"), 0o755)
		must(RunGit(dir, "add", "."))
		must(RunGit(dir, "commit", "-q", "-m", "first"))
		must(RunGit(dir, "branch", "feature/x"))
		must(RunGit(dir, "tag", "v1.0"))
		must(RunGit(dir, "tag", "-a", "v1.1", "-m", "annotated"))
		_ = os.WriteFile(filepath.Join(dir, "README.md"), []byte("# host project\nsecond\n"), 0o644)
		must(RunGit(dir, "commit", "-q", "-am", "second"))
		must(RunGit(dir, "update-ref", "refs/notes/commits", "HEAD"))
		must(RunGit(dir, "update-ref", "refs/remotes/origin/main", "HEAD~1"))
		// host branches whose names merely begin like git-bug's namespaces, local and remote-tracking
		for _, b := range []string{"bugs-triage", "bugsnag/integration", "identities-rework"} {
			must(RunGit(dir, "branch", b, "HEAD~1"))
			must(RunGit(dir, "update-ref", "refs/remotes/origin/"+b, "HEAD~1"))
		}
		must(RunGit(dir, "update-ref", "refs/remotes/upstream/bugs", "HEAD~1")) // a branch called "bugs" on another remote
		if c.Head == "detached" {
			must(RunGit(dir, "checkout", "-q", "--detach", "HEAD~1"))
		}
	}
	if c.Dirty {
		_ = os.WriteFile(filepath.Join(dir, "untracked.txt"), []byte("untracked\n"), 0o644)
		if c.Head != "unborn" {
			_ = os.WriteFile(filepath.Join(dir, "src", "main.c"), []byte("int main(){return 1;}\n"), 0o755)
			_ = os.WriteFile(filepath.Join(dir, "staged.txt"), []byte("staged\n"), 0o644)
			must(RunGit(dir, "add", "staged.txt"))
		}
	}
	if c.Config {
		for _, kv := range [][]string{
			{"alias.st", "status -sb"}, {"alias.lg", "log --graph --pretty=format:'%h %s'"}, {"core.autocrlf", "input"},
			{"remote.upstream.url", "https://example.org/up.git"}, {"remote.upstream.pushurl", "git@example.org:up.git"},
			{"remote.upstream.fetch", "+refs/heads/*:refs/remotes/upstream/*"}, {"url.ssh://git@example.org/.insteadOf", "https://example.org/"},
			{"branch.main.remote", "upstream"}, {"branch.main.merge", "refs/heads/main"}, {"include.path", "../.gitconfig-extra"},
			{"custom.section.key", "value with spaces"}, {"bugs.notgitbug", "1"},
			// foreign sections whose names merely start like git-bug's own
			{"git-bugzilla.url", "https://bugzilla.example.org"}, {"git-bug-hooks.main.path", "/opt/hooks"}, {"git-bugs.x", "1"},
		} {
			must(RunGit(dir, "config", kv[0], kv[1]))
		}
		must(RunGit(dir, "config", "--add", "remote.upstream.fetch", "+refs/tags/*:refs/tags/*")) // multi-valued key
		_ = os.WriteFile(filepath.Join(dir, ".gitconfig-extra"), []byte("[extra]\n\tfrom = include\n"), 0o644)
		// a second [core] section and a comment, as hand-edited files have
		f, _ := os.OpenFile(filepath.Join(dir, ".git", "config"), os.O_APPEND|os.O_WRONLY, 0o644)
		_, _ = f.WriteString("# hand written comment\n[core]\n\tquotepath = false\n")
		_ = f.Close()
	}
}

func runC15(tb report.TB, rep *report.Reporter, c c15Case) {
	root := mkdirTemp("c15-")
	defer os.RemoveAll(root)
	host := filepath.Join(root, "host")
	peer := filepath.Join(root, "peer")
	remote := filepath.Join(root, "remote.git")
	_ = os.MkdirAll(host, 0o755)
	prepareHost(tb, host, c)
	if res := RunGit(root, "init", "-q", "--bare", remote); res.Code != 0 {
		tb.Fatalf("harness: %s", res.Out)
	}
	if res := RunGit(root, "init", "-q", peer); res.Code != 0 {
		tb.Fatalf("harness: %s", res.Out)
	}
	RunGit(host, "remote", "add", "origin", remote)
	RunGit(peer, "remote", "add", "origin", remote)
	if c.Head != "unborn" {
		// the remote is a normal project remote: it also has branches and tags that are none of git-bug's business
		RunGit(host, "push", "-q", "origin", "main", "feature/x", "v1.0", "v1.1")
	}
	fail := func(sig, detail string) bool { return rep.Fail(tb, "C15/"+sig, detail, c) }

	typedIn := host
	switch c.From {
	case "linked":
		typedIn = filepath.Join(root, "host-linked-tree")
		if res := RunGit(host, "worktree", "add", "-q", typedIn, "-b", "in-the-linked-tree"); res.Code != 0 {
			tb.Fatalf("harness: worktree add: %s", res.Out)
		}
	case "subdir":
		typedIn = filepath.Join(host, "docs", "deep")
		if err := os.MkdirAll(typedIn, 0o755); err != nil {
			tb.Fatalf("harness: %v", err)
		}
		_ = os.WriteFile(filepath.Join(typedIn, "note.txt"), []byte("untracked\n"), 0o644)
	}
	before := hostState(host)
	run := func(dir string, args ...string) CLIResult {
		if dir == host {
			dir = typedIn
		}
		return RunCLI(dir, args...)
	}
	if res := run(host, "user", "new", "-n", "Host Bugger", "-e", "hb@example.org", "--non-interactive"); res.Code != 0 {
		tb.Fatalf("harness: user new: %s", res.Out)
	}
	if res := run(peer, "user", "new", "-n", "Peer", "-e", "peer@example.org", "--non-interactive"); res.Code != 0 {
		tb.Fatalf("harness: user new (peer): %s", res.Out)
	}
	ids := func(dir string) []string { return strings.Fields(run(dir, "bug", "-f", "id").Out) }
	pick := func(dir string, n int) string {
		l := ids(dir)
		if len(l) == 0 {
			return ""
		}
		return l[n%len(l)]
	}
	nPush, nPull, nAttach, nGC, nMultiAttach, nBridge, nLong, merged := 0, 0, 0, 0, 0, 0, 0, false
	var kinds []string
	for i, s := range c.Steps {
		kinds = append(kinds, s.Kind)
		id := pick(host, s.Bug)
		var res CLIResult
		switch s.Kind {
		case "new":
			res = run(host, "bug", "new", "-t", "bug: "+strings.ReplaceAll(s.Text, "\n", " "), "-m", s.Text, "--non-interactive")
		case "comment":
			if id != "" {
				res = run(host, "bug", "comment", "new", id, "-m", s.Text, "--non-interactive")
			}
		case "title":
			if id != "" {
				res = run(host, "bug", "title", "edit", id, "-t", "retitled "+strings.ReplaceAll(s.Text, "\n", " "), "--non-interactive")
			}
		case "close":
			if id != "" {
				res = run(host, "bug", "status", "close", id)
			}
		case "open":
			if id != "" {
				res = run(host, "bug", "status", "open", id)
			}
		case "label":
			if id != "" {
				res = run(host, "bug", "label", "new", id, "label-"+fmt.Sprint(s.Bug))
			}
		case "rm":
			if id != "" && len(ids(host)) > 1 {
				res = run(host, "bug", "rm", id)
			}
		case "select":
			if id != "" {
				res = run(host, "bug", "select", id)
			}
		case "deselect":
			res = run(host, "bug", "deselect")
		case "show":
			if id != "" {
				res = run(host, "bug", "show", id)
			}
		case "ls":
			res = run(host, "bug", "status:open")
		case "push":
			res = run(host, "push", "origin")
			nPush++
		case "pull":
			res = run(host, "pull", "origin")
			nPull++
			if strings.Contains(res.Out, "updated") {
				merged = true
			}
		case "bridgeconf":
			// what `bridge new` stores once it has validated its parameters (which needs the network): the bridge's
			// settings, through git-bug's own configuration API
			repo, err := repository.OpenGoGitRepo(host, "git-bug", nil)
			if err != nil {
				tb.Fatalf("harness: %v", err)
			}
			name := []string{"mygitlab", "my", "mygitlab2"}[s.Bug%3]
			for k, v := range map[string]string{"target": "gitlab", "project-id": "42", "gitlab-url": "https://gitlab.example.org/"} {
				if err := repo.LocalConfig().StoreString(fmt.Sprintf("git-bug.bridge.%s.%s", name, k), v); err != nil {
					tb.Fatalf("harness: %v", err)
				}
			}
			_ = repo.Close()
			nBridge++
		case "bridgerm":
			res = run(host, "bridge", "rm", []string{"mygitlab", "my", "mygitlab2"}[s.Bug%3])
		case "longsession":
			// a long-running git-bug process (web UI, a bridge pull) keeps its repository handle while the user
			// goes on working with stock git: what stock git wrote in between must survive git-bug's next write
			repo, err := repository.OpenGoGitRepo(host, "git-bug", nil)
			if err != nil {
				tb.Fatalf("harness: %v", err)
			}
			_, _ = repo.LocalConfig().ReadAll("git-bug")
			_, _ = repo.GetRemotes()
			key, val := fmt.Sprintf("verif-outside.k%d", i), fmt.Sprintf("value %d", i)
			rname, rurl := fmt.Sprintf("outside%d", i), fmt.Sprintf("https://example.org/outside%d.git", i)
			RunGit(host, "config", "--local", key, val)
			RunGit(host, "remote", "add", rname, rurl)
			err = repo.LocalConfig().StoreString("git-bug.verif-session-probe", "x")
			if err == nil {
				err = repo.LocalConfig().RemoveAll("git-bug.verif-session-probe")
			}
			_ = repo.Close()
			if err != nil {
				if fail("library-action-fails/config-write/"+Normalize(err.Error()), err.Error()) {
					return
				}
			}
			gotVal := strings.TrimSpace(RunGit(host, "config", "--local", "--get", key).Out)
			gotURL := strings.TrimSpace(RunGit(host, "config", "--local", "--get", "remote."+rname+".url").Out)
			if gotVal != val || gotURL != rurl {
				if fail("host-repository-disturbed/foreign-configuration-lost-in-a-long-session", fmt.Sprintf("step #%d: stock git wrote %s=%q and remote %s=%q while git-bug held the repository; after git-bug's next configuration write they read %q and %q", i, key, val, rname, rurl, gotVal, gotURL)) {
					return
				}
			}
			RunGit(host, "config", "--local", "--unset", key)
			RunGit(host, "config", "--local", "--remove-section", "verif-outside")
			RunGit(host, "remote", "remove", rname)
			nLong++
		case "gc":
			// stock git, run by the user between two git-bug commands
			if g := RunGit(host, "gc", "-q"); g.Code != 0 {
				if fail("stock-git-gc-fails/"+Normalize(firstLine(g.Out)), g.Out) {
					return
				}
			}
			nGC++
		case "peeredit":
			// the peer syncs, edits what it has (or creates), and pushes: the host will have to merge
			run(peer, "pull", "origin")
			pid := pick(peer, s.Bug)
			if pid == "" {
				run(peer, "bug", "new", "-t", "peer bug", "-m", "from the peer", "--non-interactive")
			} else {
				run(peer, "bug", "comment", "new", pid, "-m", "peer says "+s.Text, "--non-interactive")
			}
			run(peer, "push", "origin")
		case "attach":
			// attachments go through the library (the CLI has no command for them)
			repo, err := repository.OpenGoGitRepo(host, "git-bug", nil)
			if err != nil {
				tb.Fatalf("harness: %v", err)
			}
			rc, err := cache.NewRepoCacheNoEvents(repo)
			if err != nil {
				tb.Fatalf("harness: %v", err)
			}
			h, err := rc.StoreData([]byte("attachment bytes \x00\x01 " + s.Text))
			if err == nil {
				var nb *cache.BugCache
				nb, _, err = rc.Bugs().NewWithFiles("bug with attachment", "see file", []repository.Hash{h})
				if err == nil && s.Bug%2 == 0 {
					// several operations with attachments of their own staged together and committed once (what the
					// web UI and the bridges do): one commit, one tree of attachments
					var h2, h3 repository.Hash
					if h2, err = rc.StoreData([]byte("second attachment " + s.Text)); err == nil {
						if h3, err = rc.StoreData([]byte("third attachment " + s.Text)); err == nil {
							if _, _, err = nb.AddCommentWithFiles("first comment, one file", []repository.Hash{h2}); err == nil {
								if _, _, err = nb.AddCommentWithFiles("second comment, another file and a shared one", []repository.Hash{h3, h}); err == nil {
									err = nb.Commit()
									nMultiAttach++
								}
							}
						}
					}
				}
			}
			_ = rc.Close()
			if err != nil {
				if fail("library-action-fails/attach/"+Normalize(err.Error()), fmt.Sprintf("step #%d: storing a bug with an attached blob through the cache failed: %v", i, err)) {
					return
				}
			}
			nAttach++
		}
		if strings.Contains(res.Out, "panic:") || strings.Contains(res.Out, "goroutine ") {
			if fail("command-crashes/"+s.Kind, fmt.Sprintf("step #%d %+v\n%s", i, s, truncate(res.Out, 1500))) {
				return
			}
		}
		_ = i
	}
	if c.Wipe {
		// the session ends with git-bug being removed from the repository: everything of its own goes, nothing else
		if res := run(host, "wipe"); res.Code != 0 {
			if fail("wipe-fails/"+Normalize(lastLine(res.Out)), res.Out) {
				return
			}
		}
		kinds = append(kinds, "wipe")
		if left := RunGit(host, "config", "--local", "--get-regexp", `^git-bug\.`); strings.TrimSpace(left.Out) != "" {
			if fail("wipe-leaves-own-configuration", left.Out) {
				return
			}
		}
	}
	after := hostState(host)
	rep.Case(strings.Join(kinds, ","), (nPush+nPull) > 0 && (nAttach > 0 || merged),
		[]string{"head:" + c.Head, fmt.Sprintf("dirty:%v", c.Dirty), fmt.Sprintf("rich-config:%v", c.Config), fmt.Sprintf("merged:%v", merged), fmt.Sprintf("attachments:%v", nAttach > 0), fmt.Sprintf("gc-between-commands:%v", nGC > 0), fmt.Sprintf("several-attachment-operations-in-one-commit:%v", nMultiAttach > 0), fmt.Sprintf("bridge-configured:%v", nBridge > 0), fmt.Sprintf("stock-git-writes-during-a-long-session:%v", nLong > 0), fmt.Sprintf("ends-with-wipe:%v", c.Wipe), "commands-typed-in:" + c.From}, c)
	if aspect, detail := before.diff(after); aspect != "" {
		if fail("host-repository-disturbed/"+aspect, detail) {
			return
		}
	}
	// ---- everything git-bug wrote is valid git data
	if res := RunGit(host, "fsck", "--strict", "--no-dangling"); res.Code != 0 || strings.Contains(res.Out, "error") {
		if fail("fsck-reports-errors/"+Normalize(firstLine(res.Out)), res.Out) {
			return
		}
	}
	mirror := filepath.Join(root, "mirror.git")
	if res := RunGit(root, "clone", "-q", "--mirror", host, mirror); res.Code != 0 {
		if fail("stock-git-cannot-clone", res.Out) {
			return
		}
	}
	if res := RunGit(host, "gc", "-q", "--prune=now"); res.Code != 0 {
		if fail("stock-git-cannot-gc", res.Out) {
			return
		}
	}
	fresh := filepath.Join(root, "fresh.git")
	RunGit(root, "init", "-q", "--bare", fresh)
	if !c.Wipe && len(ids(host)) > 0 {
		if res := RunGit(host, "push", "-q", fresh, "refs/bugs/*:refs/bugs/*", "refs/identities/*:refs/identities/*"); res.Code != 0 {
			if fail("stock-git-cannot-push", res.Out) {
				return
			}
		}
		// readable on the other side, attachments included
		fr, err := repository.OpenGoGitRepo(fresh, "git-bug", nil)
		if err != nil {
			tb.Fatalf("harness: %v", err)
		}
		okBugs, bad := readAllBugs(fr)
		for id, e := range bad {
			_ = fr.Close()
			if fail("pushed-bug-unreadable/"+Normalize(e), id+": "+e) {
				return
			}
		}
		for id := range okBugs {
			b, err := bug.Read(fr, entity.Id(id))
			if err != nil {
				continue
			}
			for _, op := range b.Operations() {
				if cr, ok := op.(*bug.CreateOperation); ok {
					for _, f := range cr.Files {
						if _, err := fr.ReadData(f); err != nil {
							_ = fr.Close()
							if fail("attachment-did-not-travel-with-stock-git-push", string(f)) {
								return
							}
						}
					}
				}
			}
		}
		_ = fr.Close()
	}
	// after gc the host still reads its bugs and is still undisturbed
	if res := run(host, "bug"); res.Code != 0 && !c.Wipe {
		if fail("unreadable-after-gc/"+Normalize(lastLine(res.Out)), res.Out) {
			return
		}
	}
	afterGc := hostState(host)
	before.index, afterGc.index = "", "" // gc may refresh the index stat cache; content equality is covered by status
	if aspect, detail := before.diff(afterGc); aspect != "" && aspect != "git-dir-entries" {
		fail("host-repository-disturbed-after-gc/"+aspect, detail)
	}
}

func firstLine(s string) string {
	return strings.SplitN(strings.TrimSpace(s), "\n", 2)[0]
}

func TestC15HostRepo(t *testing.T) {
	Drive(t, "C15", genC15, runC15)
}
