package harness

import (
	"bytes"
	"encoding/json"
	"fmt"
	"os"
	"testing"

	"pgregory.net/rapid"

	"github.com/MichaelMure/git-bug/entities/identity"
	"github.com/MichaelMure/git-bug/entity"
	"github.com/MichaelMure/git-bug/repository"

	"verif/harness/internal/entropy"
	"verif/harness/internal/ondisk"
	"verif/harness/internal/report"
)

// TestC09ForeignFormatting: the clauses of C09 for an identity that another implementation of the documented
// format wrote: the same fields, but indented, and with the line end every editor and `echo` put after a document.
// Its id is the hash of the first version's JSON document. It is read, served by a remote it merges as new; when
// the remote appends versions (foreign or not) it is fast-forwarded with the same id; a repeat reports nothing.

type c09ForeignCase struct {
	Seed    uint64 `json:"seed"`
	Formats []int  `json:"formats"` // per version: 0 compact, 1 trailing newline, 2 indented + newline, 3 leading and trailing white space
	Split   int    `json:"split"`   // versions the replica knows before the pull that must fast-forward (0 = none: new)
}

func genC09Foreign(t *rapid.T) c09ForeignCase {
	n := rapid.IntRange(1, 4).Draw(t, "n")
	c := c09ForeignCase{Seed: rapid.Uint64().Draw(t, "seed"), Formats: rapid.SliceOfN(rapid.IntRange(0, 3), n, n).Draw(t, "formats")}
	c.Split = rapid.IntRange(0, n-1).Draw(t, "split")
	return c
}

func runC09Foreign(tb report.TB, rep *report.Reporter, c c09ForeignCase) {
	entropy.Seed(c.Seed)
	defer entropy.Restore()
	dir := mkdirTemp("c09f-")
	defer os.RemoveAll(dir)
	repo, err := repository.InitGoGitRepo(dir, "git-bug")
	if err != nil {
		tb.Fatalf("harness: %v", err)
	}
	defer repo.Close()
	var blobs [][]byte
	for k, f := range c.Formats {
		v := ondisk.IdentityVersion{Version: 2, Times: map[string]uint64{"bugs-create": uint64(1 + k), "bugs-edit": uint64(1 + 2*k)}, UnixTime: 1600000000 + int64(k),
			Name: fmt.Sprintf("written elsewhere v%d", k), Email: "e@example.org", Nonce: NonceFor(c.Seed, 9_300_000+k)}
		var b []byte
		switch f {
		case 0:
			b, _ = json.Marshal(v)
		case 1:
			b, _ = json.Marshal(v)
			b = append(b, '\n')
		case 2:
			b, _ = json.MarshalIndent(v, "", "    ")
			b = append(b, '\n')
		default:
			b, _ = json.MarshalIndent(v, " ", "\t")
			b = append(append([]byte("  \n"), b...), []byte(" \r\n\n")...)
		}
		blobs = append(blobs, b)
	}
	id := ondisk.Sha(bytes.TrimSpace(blobs[0]))
	foreign := 0
	for _, f := range c.Formats {
		if f != 0 {
			foreign++
		}
	}
	rep.Case(fmt.Sprintf("foreign|%v|split%d", c.Formats, c.Split), foreign > 0, []string{fmt.Sprintf("foreign-versions:%d", foreign), fmt.Sprintf("first-version-foreign:%v", c.Formats[0] != 0)}, c)
	fail := func(sig, detail string) bool { return rep.Fail(tb, "C09/foreign/"+sig, detail, c) }
	var commits []string
	parent := ""
	for _, b := range blobs {
		h, err := ondisk.WriteIdentityBlob(repo, b, parent)
		if err != nil {
			tb.Fatalf("harness: %v", err)
		}
		commits = append(commits, h)
		parent = h
	}
	local, remote := "refs/identities/"+id, "refs/remotes/origin/identities/"+id
	merge := func() *entity.MergeResult {
		var mine *entity.MergeResult
		for res := range identity.MergeAll(repo, "origin") {
			r := res
			if string(res.Id) == id {
				mine = &r
			}
		}
		return mine
	}
	if c.Split > 0 {
		if err := repo.UpdateRef(local, repository.Hash(commits[c.Split-1])); err != nil {
			tb.Fatalf("harness: %v", err)
		}
		if i, err := identity.ReadLocal(repo, entity.Id(id)); err != nil || string(i.Id()) != id {
			fail("legal-identity-unreadable/"+Normalize(fmt.Sprint(err)), fmt.Sprintf("the first %d versions under refs/identities/%s: %v", c.Split, id[:8], err))
			return
		}
	}
	if err := repo.UpdateRef(remote, repository.Hash(commits[len(commits)-1])); err != nil {
		tb.Fatalf("harness: %v", err)
	}
	want := entity.MergeStatusNew
	if c.Split > 0 {
		want = entity.MergeStatusUpdated
		if c.Split == len(commits) {
			want = entity.MergeStatusNothing
		}
	}
	res := merge()
	if res == nil || res.Err != nil || res.Status != want {
		fail("legal-remote-identity-not-merged", fmt.Sprintf("formats %v, %d of %d versions known locally: want status %v, report %+v", c.Formats, c.Split, len(commits), want, res))
		return
	}
	i, err := identity.ReadLocal(repo, entity.Id(id))
	if err != nil || string(i.Id()) != id || i.Name() != fmt.Sprintf("written elsewhere v%d", len(blobs)-1) {
		fail("merged-identity-differs", fmt.Sprintf("after the merge: %v (%v), want id %s and the last name", i, err, id[:8]))
		return
	}
	if h, err := repo.ResolveRef(local); err != nil || string(h) != commits[len(commits)-1] {
		fail("local-reference-not-at-the-remote-head", fmt.Sprintf("%v %v", h, err))
		return
	}
	if res := merge(); res == nil || res.Err != nil || res.Status != entity.MergeStatusNothing {
		fail("repeat-is-not-nothing", fmt.Sprintf("report %+v", res))
	}
}

func TestC09ForeignFormatting(t *testing.T) {
	Drive(t, "C09", genC09Foreign, runC09Foreign)
}
