package harness

import (
	"fmt"
	"os"
	"path/filepath"
	"sort"
	"strings"
	"testing"

	"github.com/go-git/go-billy/v5"
	"github.com/go-git/go-billy/v5/osfs"
	"pgregory.net/rapid"

	"github.com/MichaelMure/git-bug/cache"
	"github.com/MichaelMure/git-bug/entities/bug"
	"github.com/MichaelMure/git-bug/entities/identity"
	"github.com/MichaelMure/git-bug/entity"
	"github.com/MichaelMure/git-bug/repository"
	"github.com/MichaelMure/git-bug/util/lamport"

	"verif/harness/internal/entropy"
	"verif/harness/internal/faultfs"
	"verif/harness/internal/faultrepo"
	"verif/harness/internal/ondisk"
	"verif/harness/internal/refmodel"
	"verif/harness/internal/report"
)

// C06: a crash during any write leaves every entity in its old or new state (fault enumeration).

type c06Case struct {
	Seed     uint64   `json:"seed"`
	Scenario string   `json:"scenario"`
	LocalJ   int      `json:"local_commits"`  // commits r0 makes on the shared bug after the fork (0 = fast-forward on pull)
	RemoteK  int      `json:"remote_commits"` // commits r1 makes and pushes
	Ops      []OpSpec `json:"ops"`            // for new-bug / edit / cache scenarios
	OnlyK    int      `json:"only_k"`         // replay: enumerate a single abort point (-1 = all)
}

var c06Scenarios = []string{"new-bug", "edit", "edit-many", "pull-dag-stale-clocks", "new-identity", "mutate-identity", "identity-several-versions", "pull-dag", "pull-dag", "cache-pull", "cache-new-edit"}

func genC06(t *rapid.T) c06Case {
	c := c06Case{Seed: rapid.Uint64().Draw(t, "seed"), OnlyK: -1}
	c.Scenario = rapid.SampledFrom(c06Scenarios).Draw(t, "scenario")
	c.LocalJ = rapid.IntRange(0, 2).Draw(t, "j")
	c.RemoteK = rapid.IntRange(1, 3).Draw(t, "k")
	n := rapid.IntRange(1, 5).Draw(t, "nOps")
	if c.Scenario == "new-bug" {
		c.Ops = append(c.Ops, GenCreateSpec(3, 0).Draw(t, "create"))
		n--
	}
	for i := 0; i < n; i++ {
		c.Ops = append(c.Ops, GenOpSpec(3, 0).Draw(t, "op"))
	}
	return c
}

type repoState struct {
	Bugs    map[string]string // id -> comma separated op ids, or "ERR: ..."
	Idents  map[string]string // id -> comma separated version ids
	BugErr  int
	IdErr   int
	MaxEdit uint64
	MaxCrt  uint64
}

func captureState(repo repository.ClockedRepo, knownVersions map[string]bool) repoState {
	st := repoState{Bugs: map[string]string{}, Idents: map[string]string{}}
	for _, id := range localBugIds(repo) {
		b, err := bug.Read(repo, entity.Id(id))
		if err != nil {
			st.Bugs[id] = "ERR: " + err.Error()
			st.BugErr++
			continue
		}
		st.Bugs[id] = strings.Join(opIdsOf(b), ",")
	}
	ids, _ := identity.ListLocalIds(repo)
	for _, id := range ids {
		i, err := identity.ReadLocal(repo, id)
		if err == nil {
			err = i.Validate()
		}
		if err != nil {
			st.Idents[string(id)] = "ERR: " + err.Error()
			st.IdErr++
			continue
		}
		chain, err := ondisk.ReadIdentityChain(repo, "refs/identities/"+string(id))
		if err != nil {
			st.Idents[string(id)] = "ERR: " + err.Error()
			st.IdErr++
			continue
		}
		// versions created during the run embed the wall clock: only their count is comparable
		for k, v := range chain {
			if knownVersions != nil && !knownVersions[v] {
				chain[k] = "+"
			}
		}
		st.Idents[string(id)] = strings.Join(chain, ",")
	}
	st.MaxEdit, st.MaxCrt = storedMax(repo)
	return st
}

func copyDir(src, dst string) error {
	_ = os.RemoveAll(dst)
	return filepath.Walk(src, func(p string, info os.FileInfo, err error) error {
		if err != nil {
			return err
		}
		rel, _ := filepath.Rel(src, p)
		target := filepath.Join(dst, rel)
		if info.IsDir() {
			return os.MkdirAll(target, 0o755)
		}
		data, err := os.ReadFile(p)
		if err != nil {
			return err
		}
		return os.WriteFile(target, data, 0o644)
	})
}

// c06Scenario runs the write path under test against repo, starting at step
// `from` (a scenario may consist of several write steps, each of which has to be
// atomic on its own). checkpoint is called after every completed step.
func c06Scenario(c c06Case, repo repository.ClockedRepo, authorIds []string, sharedBug string, from int, checkpoint func()) error {
	entropy.Seed(c.Seed ^ 0xC06)
	authors := func() ([]identity.Interface, error) {
		var out []identity.Interface
		for _, id := range authorIds {
			a, err := identity.ReadLocal(repo, entity.Id(id))
			if err != nil {
				return nil, err
			}
			out = append(out, a)
		}
		return out, nil
	}
	appendOps := func(b *bug.Bug, as []identity.Interface) int {
		var prev []Built
		for _, op := range b.Operations() {
			prev = append(prev, Built{Id: string(op.Id()), Kind: refmodel.TypeToKind[int(op.Type())]})
		}
		n := 0
		for i, s := range c.Ops {
			op, _ := BuildOp(s, as, prev, nil, NonceFor(c.Seed, 4_000_000+i))
			if op.Validate() != nil {
				continue
			}
			b.Append(op)
			prev = append(prev, Built{Id: string(op.Id()), Kind: s.Kind})
			n++
		}
		return n
	}
	var steps []func() error
	switch c.Scenario {
	case "new-bug":
		steps = append(steps, func() error {
			as, err := authors()
			if err != nil {
				return err
			}
			b := bug.NewBug()
			if appendOps(b, as) == 0 {
				return nil
			}
			return b.Commit(repo)
		})
	case "edit":
		steps = append(steps, func() error {
			as, err := authors()
			if err != nil {
				return err
			}
			b, err := bug.Read(repo, entity.Id(sharedBug))
			if err != nil {
				return err
			}
			if appendOps(b, as) == 0 {
				return nil
			}
			return b.Commit(repo)
		})
	case "edit-many":
		// one commit of several hundred operations (an importer, a script): still one step
		steps = append(steps, func() error {
			as, err := authors()
			if err != nil {
				return err
			}
			b, err := bug.Read(repo, entity.Id(sharedBug))
			if err != nil {
				return err
			}
			n := 250 + int(c.Seed%120)
			for k := 0; k < n; k++ {
				op := bug.NewAddCommentOp(as[0], int64(50_000+k), fmt.Sprintf("bulk comment %d", k), nil)
				op.Nonce = NonceFor(c.Seed, 4_500_000+k)
				b.Append(op)
			}
			return b.Commit(repo)
		})
	case "new-identity":
		steps = append(steps, func() error {
			i, err := identity.NewIdentity(repo, "newcomer", "new@example.org")
			if err != nil {
				return err
			}
			return i.Commit(repo)
		})
	case "mutate-identity":
		mutate := func(f func(m *identity.Mutator)) func() error {
			return func() error {
				i, err := identity.ReadLocal(repo, entity.Id(authorIds[0]))
				if err != nil {
					return err
				}
				if err := i.Mutate(repo, f); err != nil {
					return err
				}
				return i.Commit(repo)
			}
		}
		steps = append(steps,
			mutate(func(m *identity.Mutator) { m.Name = "renamed"; m.Email = "renamed@example.org" }),
			mutate(func(m *identity.Mutator) { m.Login = "login2" }))
	case "identity-several-versions":
		// one Commit that stores several pending versions: a new identity mutated before its first commit,
		// then an existing identity mutated three times and committed once
		steps = append(steps, func() error {
			i, err := identity.NewIdentity(repo, "newcomer", "new@example.org")
			if err != nil {
				return err
			}
			if err := i.Mutate(repo, func(m *identity.Mutator) { m.Name = "newcomer renamed"; m.Login = "nc" }); err != nil {
				return err
			}
			if err := i.Mutate(repo, func(m *identity.Mutator) { m.Email = "second@example.org" }); err != nil {
				return err
			}
			return i.Commit(repo)
		}, func() error {
			i, err := identity.ReadLocal(repo, entity.Id(authorIds[0]))
			if err != nil {
				return err
			}
			for k, f := range []func(m *identity.Mutator){
				func(m *identity.Mutator) { m.Name = "renamed once" },
				func(m *identity.Mutator) { m.Email = "renamed@example.org" },
				func(m *identity.Mutator) { m.Name = "renamed twice"; m.Login = "login3" },
			} {
				if err := i.Mutate(repo, f); err != nil {
					return fmt.Errorf("mutation %d: %w", k, err)
				}
			}
			return i.Commit(repo)
		})
	case "pull-dag", "pull-dag-stale-clocks":
		steps = append(steps, func() error {
			if _, err := identity.Fetch(repo, "origin"); err != nil {
				return err
			}
			for res := range identity.MergeAll(repo, "origin") {
				if res.Err != nil {
					return res.Err
				}
			}
			if _, err := bug.Fetch(repo, "origin"); err != nil {
				return err
			}
			me, err := identity.ReadLocal(repo, entity.Id(authorIds[0]))
			if err != nil {
				return err
			}
			var first error
			for res := range bug.MergeAll(repo, Resolvers(repo), "origin", me) {
				if res.Err != nil && first == nil {
					first = res.Err
				}
				if res.Err == nil && res.Status == entity.MergeStatusInvalid && first == nil {
					first = fmt.Errorf("merge reported invalid: %s", res.Reason)
				}
			}
			return first
		})
	case "cache-pull":
		steps = append(steps, func() error {
			rc, err := cache.NewRepoCacheNoEvents(repo)
			if err != nil {
				return err
			}
			return rc.Pull("origin")
		})
	case "cache-new-edit":
		var rc *cache.RepoCache
		var me *cache.IdentityCache
		getCache := func() error {
			if rc != nil {
				return nil
			}
			var err error
			rc, err = cache.NewRepoCacheNoEvents(repo)
			if err != nil {
				return err
			}
			me, err = rc.GetUserIdentity()
			return err
		}
		findNew := func() (*cache.BugCache, error) {
			for _, id := range rc.Bugs().AllIds() {
				b, err := rc.Bugs().Resolve(id)
				if err != nil {
					return nil, err
				}
				if b.Snapshot().Title == "crash test bug" {
					return b, nil
				}
			}
			return nil, fmt.Errorf("new bug not found")
		}
		steps = append(steps,
			func() error { // NewRaw commits on its own
				if err := getCache(); err != nil {
					return err
				}
				_, _, err := rc.Bugs().NewRaw(me, 1234, "crash test bug", "message", nil, nil)
				return err
			},
			func() error {
				if err := getCache(); err != nil {
					return err
				}
				bc, err := findNew()
				if err != nil {
					return err
				}
				if _, _, err := bc.AddCommentRaw(me, 1235, "a comment", nil, nil); err != nil {
					return err
				}
				return bc.Commit()
			},
			func() error {
				if err := getCache(); err != nil {
					return err
				}
				shared, err := rc.Bugs().Resolve(entity.Id(sharedBug))
				if err != nil {
					return err
				}
				if _, err := shared.SetTitleRaw(me, 1236, "retitled", nil); err != nil {
					return err
				}
				return shared.Commit()
			})
	default:
		panic("unknown scenario")
	}
	for i := from; i < len(steps); i++ {
		entropy.Seed(c.Seed ^ 0xC06 ^ (uint64(i+1) * 7919)) // a step draws the same nonces whichever step the run starts at
		if err := steps[i](); err != nil {
			return err
		}
		checkpoint()
	}
	return nil
}

func runC06(tb report.TB, rep *report.Reporter, c c06Case) {
	w, err := NewWorld(2, c.Seed)
	if err != nil {
		tb.Fatalf("harness: world: %v", err)
	}
	defer w.Close()
	r0, r1 := w.Replicas[0], w.Replicas[1]
	must := func(err error) {
		if err != nil {
			tb.Fatalf("harness: setup: %v", err)
		}
	}
	// ---- pre-state: a shared bug that diverges (or not), a remote-only bug, a remote identity update
	must(w.execEdit(r0, nil, []OpSpec{{Kind: refmodel.KCreate, Author: 0, Time: 10, Title: "shared"}, {Kind: refmodel.KComment, Author: 1, Time: 11, Message: "x"}}))
	shared := w.BugIds[0]
	must(w.Push(r0))
	_, err = w.Pull(r1)
	must(err)
	for i := 0; i < c.RemoteK; i++ {
		must(w.execEdit(r1, &shared, []OpSpec{{Kind: refmodel.KComment, Author: 1, Time: int64(20 + i), Message: fmt.Sprintf("remote %d", i)}}))
	}
	must(w.execEdit(r1, nil, []OpSpec{{Kind: refmodel.KCreate, Author: 1, Time: 30, Title: "remote only"}}))
	must(w.Push(r1))
	for i := 0; i < c.LocalJ; i++ {
		must(w.execEdit(r0, &shared, []OpSpec{{Kind: refmodel.KTitle, Author: 0, Time: int64(40 + i), Title: fmt.Sprintf("local %d", i)}}))
	}
	me, err := identity.ReadLocal(r0.Repo, entity.Id(w.AuthorIds[0]))
	must(err)
	must(identity.SetUserIdentity(r0.Repo, me))
	_ = r0.Repo.Close()
	staleStart := c.Scenario == "pull-dag-stale-clocks"
	if staleStart {
		// the local references were not written by this installation of git-bug (stock git fetched them, a backup of
		// the repository was restored without its clock files' latest values): the clock files exist and are behind
		cdir := filepath.Join(r0.Path, ".git", "git-bug", "clocks")
		if entries, err := os.ReadDir(cdir); err == nil {
			for _, e := range entries {
				must(os.WriteFile(filepath.Join(cdir, e.Name()), []byte("1"), 0o644))
			}
		}
	}

	snap := filepath.Join(w.Dir, "snapshot")
	work := r0.Path
	must(copyDir(work, snap))

	open := func() *repository.GoGitRepo {
		repo, err := repository.OpenGoGitRepo(work, "git-bug", []repository.ClockLoader{bug.ClockLoader})
		if err != nil {
			tb.Fatalf("harness: open: %v", err)
		}
		return repo
	}
	// ---- counting run
	repo := open()
	pre := captureState(repo, nil)
	known := map[string]bool{}
	for _, v := range pre.Idents {
		for _, x := range strings.Split(v, ",") {
			known[x] = true
		}
	}
	counter := faultrepo.New(repo, -1)
	var mids []repoState
	checkpoint := func() {
		// a step of the scenario is complete: what is on disk now is a legal resting state
		ro, err := repository.OpenGoGitRepo(work, "git-bug", nil)
		if err != nil {
			tb.Fatalf("harness: checkpoint: %v", err)
		}
		mids = append(mids, captureState(ro, known))
		_ = ro.Close()
	}
	if err := c06Scenario(c, counter, w.AuthorIds, shared, 0, checkpoint); err != nil {
		_ = repo.Close()
		if staleStart {
			// a pull of legal data that cannot complete even when nothing interrupts it
			rep.Fail(tb, "C06/action-cannot-complete-without-any-interruption/"+c.Scenario+"/"+Normalize(err.Error()), err.Error(), c)
			return
		}
		tb.Fatalf("harness: scenario %s fails without any fault: %v", c.Scenario, err)
	}
	_ = repo.Close()
	repo = open()
	post := captureState(repo, known)
	_ = repo.Close()
	N := len(counter.Log)
	if pre.BugErr+pre.IdErr+post.BugErr+post.IdErr > 0 {
		tb.Fatalf("harness: pre/post state has unreadable entities: %+v %+v", pre, post)
	}
	newIdentsPost := 0
	for id := range post.Idents {
		if _, ok := pre.Idents[id]; !ok {
			newIdentsPost++
		}
	}

	allowedBug := map[string]map[string]bool{}
	allowedId := map[string]map[string]bool{}
	for _, m := range append([]repoState{pre, post}, mids...) {
		for id, v := range m.Bugs {
			if allowedBug[id] == nil {
				allowedBug[id] = map[string]bool{}
			}
			allowedBug[id][v] = true
		}
		for id, v := range m.Idents {
			if allowedId[id] == nil {
				allowedId[id] = map[string]bool{}
			}
			allowedId[id][v] = true
		}
	}
	// the shapes (version lists with time-dependent ids normalised) of the identities the complete steps create
	newIdentShapes := map[string]bool{}
	for id, v := range post.Idents {
		if _, inPre := pre.Idents[id]; !inPre {
			newIdentShapes[v] = true
		}
	}
	judge := func(st repoState, final bool) (sig, detail string) {
		if st.BugErr > 0 || st.IdErr > 0 {
			for id, v := range st.Bugs {
				if strings.HasPrefix(v, "ERR") {
					return "entity-unreadable-after-crash/" + Normalize(v), fmt.Sprintf("bug %s: %s", id, v)
				}
			}
			for id, v := range st.Idents {
				if strings.HasPrefix(v, "ERR") {
					return "entity-unreadable-after-crash/" + Normalize(v), fmt.Sprintf("identity %s: %s", id, v)
				}
			}
		}
		for id, v := range st.Bugs {
			p, inPre := pre.Bugs[id]
			q, inPost := post.Bugs[id]
			switch {
			case inPre && v == p && !final, inPost && v == q, !final && allowedBug[id][v]:
			case !inPre && !inPost:
				return "unknown-entity-after-crash", fmt.Sprintf("bug %s exists neither before nor after the step", id)
			default:
				return "entity-is-a-mixture", fmt.Sprintf("bug %s\nnow  %s\npre  %s\npost %s", id, v, p, q)
			}
		}
		for id := range pre.Bugs {
			if _, ok := st.Bugs[id]; !ok {
				return "entity-lost", "bug " + id
			}
		}
		if final {
			for id := range post.Bugs {
				if _, ok := st.Bugs[id]; !ok {
					return "repeat-does-not-complete", "bug " + id + " missing after repeating the action"
				}
			}
		}
		newIds := 0
		for id, v := range st.Idents {
			p, inPre := pre.Idents[id]
			q, inPost := post.Idents[id]
			switch {
			case inPre && v == p && !final, inPre && inPost && v == q, !final && allowedId[id][v]:
			case !inPre:
				newIds++ // a new identity: its id depends on the wall clock, only its shape is compared
				if !newIdentShapes[v] {
					return "new-identity-shape", fmt.Sprintf("a new identity with versions %q; the complete step creates %v", v, newIdentShapes)
				}
			default:
				return "identity-is-a-mixture", fmt.Sprintf("identity %s\nnow  %s\npre  %s\npost %s", id, v, p, q)
			}
		}
		for id := range pre.Idents {
			if _, ok := st.Idents[id]; !ok {
				return "entity-lost", "identity " + id
			}
		}
		if newIds > newIdentsPost || (final && newIds != newIdentsPost) {
			return "new-identity-count", fmt.Sprintf("%d new identities, the complete step creates %d", newIds, newIdentsPost)
		}
		return "", ""
	}
	equalsPost := func(st repoState) bool {
		s, _ := judge(st, true)
		return s == ""
	}

	ks := make([]int, 0, N)
	for k := 0; k < N; k++ {
		if c.OnlyK < 0 || c.OnlyK == k {
			ks = append(ks, k)
		}
	}
	for _, k := range ks {
		must(copyDir(snap, work))
		repo := open()
		fr := faultrepo.New(repo, k)
		stepsDone := 0
		_ = c06Scenario(c, fr, w.AuthorIds, shared, 0, func() { stepsDone++ }) // dies at mutation k
		_ = repo.Close()
		// the lock file of the dead process names our own (live) pid: a dead process would not be running
		DeadenLock(work)

		kc := c
		kc.OnlyK = k
		where := fmt.Sprintf("%s/at:%s", c.Scenario, mutationKind(counter.Log[k]))
		fail := func(sig, detail string) bool {
			return rep.Fail(tb, "C06/"+sig, fmt.Sprintf("scenario %s, crash before mutation #%d of %d (%s)\nmutations: %v\n%s", c.Scenario, k, N, counter.Log[k], counter.Log, detail), kc)
		}
		rep.Case(fmt.Sprintf("%s|N=%d|k=%d|j=%d", c.Scenario, N, k, c.LocalJ), k > 0, []string{"scenario:" + c.Scenario, "abort-at:" + mutationKind(counter.Log[k])}, kc)

		re, err := repository.OpenGoGitRepo(work, "git-bug", []repository.ClockLoader{bug.ClockLoader})
		if err != nil {
			if fail("reopen-fails/"+where+"/"+Normalize(err.Error()), err.Error()) {
				continue
			}
		}
		st := captureState(re, known)
		if sig, detail := judge(st, false); sig != "" {
			_ = re.Close()
			if fail(sig+"/"+where, detail) {
				continue
			}
		}
		// clocks usable and above everything stored (not when the scenario starts from clock files that are behind)
		clockBad := false
		for _, name := range []string{"bugs-edit", "bugs-create"} {
			if staleStart {
				break
			}
			v, err := re.Increment(name)
			if err != nil {
				clockBad = fail("clock-unusable-after-crash/"+Normalize(err.Error()), name+": "+err.Error())
				break
			}
			max := st.MaxEdit
			if name == "bugs-create" {
				max = st.MaxCrt
			}
			if uint64(v) <= max {
				clockBad = fail("clock-below-stored-time-after-crash", fmt.Sprintf("%s incremented to %d, a reachable commit stores %d", name, v, max))
				break
			}
		}
		if clockBad {
			_ = re.Close()
			continue
		}
		// repeating the interrupted action completes it
		if !equalsPost(st) {
			if err := c06Scenario(c, re, w.AuthorIds, shared, stepsDone, func() {}); err != nil {
				_ = re.Close()
				if fail("repeat-fails/"+where+"/"+Normalize(err.Error()), err.Error()) {
					continue
				}
			}
			_ = re.Close()
			DeadenLock(work)
			re = open()
			st2 := captureState(re, known)
			if sig, detail := judge(st2, true); sig != "" {
				_ = re.Close()
				if fail("after-repeat/"+sig+"/"+where, detail) {
					continue
				}
			}
		}
		_ = re.Close()
	}
	rep.Class("scenarios", 1)
	rep.Class(fmt.Sprintf("N=%d", (N/10)*10), 1)
	_ = sort.Strings
}

func mutationKind(s string) string {
	return strings.ReplaceAll(s, " ", "_")
}

func TestC06CrashPoints(t *testing.T) {
	Drive(t, "C06", genC06, runC06)
}

// ---------------------------------------------------------------- torn clock files

type tornCase struct {
	Start   uint64 `json:"start"`           // value stored before the interrupted update
	Witness uint64 `json:"witness"`         // 0 = the interrupted update is an Increment, else Witness(value)
	Budget  int    `json:"budget"`          // replay: a single crash point (-1 = enumerate all)
	Fresh   bool   `json:"fresh,omitempty"` // the clock file does not exist yet: the interrupted update is its very first write
}

func genTorn(t *rapid.T) tornCase {
	c := tornCase{Budget: -1}
	c.Start = rapid.OneOf(
		rapid.SampledFrom([]uint64{1, 9, 10, 99, 100, 999, 12345, 99999, 999999999}),
		rapid.Uint64Range(1, 1_000_000),
	).Draw(t, "start")
	if rapid.Bool().Draw(t, "witness") {
		c.Witness = c.Start + rapid.Uint64Range(1, 100000).Draw(t, "delta")
	}
	if rapid.IntRange(0, 3).Draw(t, "fresh") == 0 {
		c.Fresh, c.Start = true, 0 // the first bug of a repository, or clocks being rebuilt after a clone
	}
	return c
}

func runTorn(tb report.TB, rep *report.Reporter, c tornCase) {
	dir := mkdirTemp("torn-")
	defer os.RemoveAll(dir)
	repo, err := repository.InitGoGitRepo(dir, "git-bug")
	if err != nil {
		tb.Fatalf("harness: %v", err)
	}
	_ = repo.Close()
	store := filepath.Join(dir, ".git", "git-bug")
	const name = "bugs-edit"
	path := filepath.Join("clocks", name)

	prepare := func() {
		_ = os.RemoveAll(filepath.Join(store, "clocks"))
		if c.Fresh {
			return
		}
		clean := osfs.New(store)
		cl, err := lamport.NewPersistedClock(clean, path)
		if err != nil {
			tb.Fatalf("harness: %v", err)
		}
		if err := cl.Witness(lamport.Time(c.Start)); err != nil {
			tb.Fatalf("harness: %v", err)
		}
	}
	update := func(fs billy.Filesystem) (lamport.Time, error) {
		var cl *lamport.PersistedClock
		var err error
		if c.Fresh {
			cl, err = lamport.NewPersistedClock(fs, path) // what the repository does for a clock it does not have yet
		} else {
			cl, err = lamport.LoadPersistedClock(fs, path)
		}
		if err != nil {
			return 0, err
		}
		if c.Witness == 0 {
			return cl.Increment()
		}
		return lamport.Time(c.Witness), cl.Witness(lamport.Time(c.Witness))
	}
	// counting run
	prepare()
	counting := faultfs.New(osfs.New(store), -1)
	newVal, err := update(counting)
	if err != nil {
		tb.Fatalf("harness: clock update fails without fault: %v", err)
	}
	total := counting.Used
	budgets := []int{}
	for b := 0; b < total; b++ {
		if c.Budget < 0 || c.Budget == b {
			budgets = append(budgets, b)
		}
	}
	for _, b := range budgets {
		prepare()
		ffs := faultfs.New(osfs.New(store), b)
		_, _ = update(ffs) // dies somewhere inside
		kc := c
		kc.Budget = b
		digits := fmt.Sprintf("%d->%d", len(fmt.Sprint(c.Start)), len(fmt.Sprint(uint64(newVal))))
		rep.Case(fmt.Sprintf("torn|%s|b=%d|w=%v|fresh=%v", digits, b, c.Witness != 0, c.Fresh), b > 0, []string{"digits:" + digits, fmt.Sprintf("first-write-of-the-clock-file:%v", c.Fresh)}, kc)
		fail := func(sig, detail string) bool {
			return rep.Fail(tb, "C06/torn-clock/"+sig, fmt.Sprintf("clock at %d, update to %d interrupted after %d of %d units of file-system work (%v)\n%s", c.Start, newVal, b, total, ffs.Log, detail), kc)
		}
		// a new process opens the repository and uses the clock
		re, err := repository.OpenGoGitRepo(dir, "git-bug", []repository.ClockLoader{bug.ClockLoader})
		if err != nil {
			if fail("repository-does-not-open/"+Normalize(err.Error()), err.Error()) {
				continue
			}
		}
		if _, err := re.AllClocks(); err != nil {
			_ = re.Close()
			if fail("clocks-unreadable/"+Normalize(err.Error()), err.Error()) {
				continue
			}
		}
		v, err := re.Increment(name)
		_ = re.Close()
		if err != nil {
			if fail("clock-unusable/"+Normalize(err.Error()), err.Error()) {
				continue
			}
		}
		if uint64(v) <= c.Start {
			if fail("clock-went-backwards", fmt.Sprintf("after the crash Increment returned %d; the clock had reached %d before the interrupted update", v, c.Start)) {
				continue
			}
		}
	}
	rep.SetExhaustive(true)
}

func TestC06TornClock(t *testing.T) {
	Drive(t, "C06", genTorn, runTorn)
}
