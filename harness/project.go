package harness

import (
	"sort"

	"github.com/MichaelMure/git-bug/entities/bug"
	"github.com/MichaelMure/git-bug/entities/identity"
	"github.com/MichaelMure/git-bug/repository"

	"verif/harness/internal/refmodel"
)

func hashesToStrings(hs []repository.Hash) []string {
	var out []string
	for _, h := range hs {
		out = append(out, string(h))
	}
	return out
}

func labelsToStrings(ls []bug.Label) []string {
	var out []string
	for _, l := range ls {
		out = append(out, string(l))
	}
	return out
}

func idSet(is []identity.Interface) (ids []string, dups bool) {
	seen := map[string]bool{}
	for _, i := range is {
		id := string(i.Id())
		if seen[id] {
			dups = true
			continue
		}
		seen[id] = true
		ids = append(ids, id)
	}
	sort.Strings(ids)
	return
}

// ProjectSnapshot maps the real compiled snapshot to the reference state shape.
func ProjectSnapshot(s *bug.Snapshot) refmodel.State {
	st := refmodel.State{
		Id:     string(s.Id()),
		Title:  s.Title,
		Status: int(s.Status),
		Labels: labelsToStrings(s.Labels),
		Meta:   map[string]map[string]string{},
	}
	if s.Author != nil {
		st.Author = string(s.Author.Id())
	}
	for _, c := range s.Comments {
		author := ""
		if c.Author != nil {
			author = string(c.Author.Id())
		}
		st.Comments = append(st.Comments, refmodel.Comment{OpId: string(c.TargetId()), Author: author, Message: c.Message, Files: hashesToStrings(c.Files)})
	}
	var d1, d2 bool
	st.Actors, d1 = idSet(s.Actors)
	st.Participants, d2 = idSet(s.Participants)
	st.ActorDups = d1 || d2
	bugId := s.Id()
	opByCombined := map[string]string{}
	for _, op := range s.Operations {
		opByCombined[string(combine(bugId, op.Id()))] = string(op.Id())
		st.OpIds = append(st.OpIds, string(op.Id()))
		st.Meta[string(op.Id())] = op.AllMetadata()
	}
	for _, it := range s.Timeline {
		item := refmodel.Item{OpId: opByCombined[string(it.CombinedId())]}
		switch x := it.(type) {
		case *bug.CreateTimelineItem:
			item.Kind = refmodel.KCreate
			fillComment(&item, &x.CommentTimelineItem)
		case *bug.AddCommentTimelineItem:
			item.Kind = refmodel.KComment
			fillComment(&item, &x.CommentTimelineItem)
		case *bug.SetTitleTimelineItem:
			item.Kind = refmodel.KTitle
			item.Author = string(x.Author.Id())
			item.Title, item.Was = x.Title, x.Was
		case *bug.SetStatusTimelineItem:
			item.Kind = refmodel.KStatus
			item.Author = string(x.Author.Id())
			item.Status = int(x.Status)
		case *bug.LabelChangeTimelineItem:
			item.Kind = refmodel.KLabel
			item.Author = string(x.Author.Id())
			item.Added, item.Removed = labelsToStrings(x.Added), labelsToStrings(x.Removed)
		default:
			item.Kind = "unknown"
		}
		st.Timeline = append(st.Timeline, item)
	}
	return st
}

func fillComment(item *refmodel.Item, c *bug.CommentTimelineItem) {
	if c.Author != nil {
		item.Author = string(c.Author.Id())
	}
	item.Message = c.Message
	item.Files = hashesToStrings(c.Files)
	for _, h := range c.History {
		item.History = append(item.History, h.Message)
	}
}
