package harness

import (
	"fmt"
	"strings"
	"testing"

	"pgregory.net/rapid"

	"verif/harness/internal/report"
)

// C11: the cache always agrees with a cache rebuilt from the git data.

type c11Case struct {
	Seed    uint64    `json:"seed"`
	Actions []CAction `json:"actions"`
}

func genC11(t *rapid.T) c11Case {
	c := c11Case{Seed: rapid.Uint64().Draw(t, "seed")}
	// start with something shared so that pulls update existing entities
	pre := []CAction{
		{Kind: "new", R: 0, Title: "Crash on start", Message: "it crashes", Time: 1_500_000, Meta: map[string]string{"gitlab-id": "1"}},
		{Kind: "push", R: 0}, {Kind: "pull", R: 1},
	}
	free := GenCActions(2, 6, Scale(36, 70)).Draw(t, "actions")
	// planned segments make the interesting shapes frequent: a diverged bug merged then edited through the cache,
	// an identity renamed elsewhere and pulled, a pull under a small cache size, a reopen after a pull
	edit := func(r int, kind, text string) CAction {
		return CAction{Kind: "edit", R: r, Bug: 0, Time: 1_600_000, Edits: []CEdit{{Kind: kind, Text: text}}}
	}
	segments := [][]CAction{
		{edit(0, "comment", "remote side comment"), {Kind: "push", R: 0}, edit(1, "title", "Crash on start (local retitle)"), {Kind: "pull", R: 1}, edit(1, "comment", "after the merge")},
		{{Kind: "mutident", R: 0, Title: "Alice Renamed"}, {Kind: "push", R: 0}, {Kind: "pull", R: 1}},
		{{Kind: "new", R: 0, Title: "Feature: dark mode", Message: "please", Time: 1_700_000}, {Kind: "push", R: 0}, {Kind: "cachesize", R: 1, Size: 1}, {Kind: "pull", R: 1}, edit(1, "close", "")},
		{edit(0, "labels", ""), {Kind: "push", R: 0}, {Kind: "pull", R: 1}, {Kind: "reopen", R: 1}},
		// both edit the same bug; the other user merges and publishes; this user fast-forwards to that merge commit and
		// edits on top of it through the cache
		{edit(0, "comment", "mine, before the other one merges"), {Kind: "push", R: 0}, edit(1, "comment", "theirs, concurrent"), {Kind: "pull", R: 1}, {Kind: "push", R: 1}, {Kind: "pull", R: 0}, edit(0, "title", "Crash on start (after their merge)")},
		// the cache is built from git by the running process (lost or outdated cache files), which then pulls an update and edits
		{edit(0, "comment", "pushed while the other cache is rebuilt"), {Kind: "push", R: 0}, {Kind: "rebuild", R: 1}, {Kind: "pull", R: 1}, edit(1, "comment", "after rebuild and pull")},
		// two simultaneous requests on one bug
		{{Kind: "race", R: 1, Bug: 0, Size: 15}, edit(0, "comment", "elsewhere meanwhile"), {Kind: "push", R: 0}, {Kind: "pull", R: 1}},
		// the index directory is lost, the cache files are not
		{edit(1, "comment", "before the index directory goes"), {Kind: "dropindex", R: 1}, edit(1, "comment", "after it")},
	}
	segments[3][0].Edits[0].Add = []string{"bug", "ui"}
	nSeg := rapid.IntRange(0, 3).Draw(t, "nSegments")
	acts := append([]CAction(nil), free...)
	for k := 0; k < nSeg; k++ {
		seg := segments[rapid.IntRange(0, len(segments)-1).Draw(t, "segment")]
		at := rapid.IntRange(0, len(acts)).Draw(t, "at")
		out := append([]CAction(nil), acts[:at]...)
		out = append(out, seg...)
		acts = append(out, acts[at:]...)
	}
	c.Actions = append(pre, acts...)
	if rapid.Bool().Draw(t, "endsWithSimultaneousRequests") {
		c.Actions = append(c.Actions, CAction{Kind: "race", R: rapid.IntRange(0, 1).Draw(t, "raceR"), Bug: rapid.IntRange(0, 7).Draw(t, "raceBug"), Size: rapid.IntRange(0, 24).Draw(t, "raceK")})
	}
	return c
}

func cActionKinds(acts []CAction) string {
	var ks []string
	for _, a := range acts {
		k := a.Kind + fmt.Sprint(a.R)
		for _, e := range a.Edits {
			k += "." + e.Kind
		}
		ks = append(ks, k)
	}
	return strings.Join(ks, ",")
}

func runC11(tb report.TB, rep *report.Reporter, c c11Case) {
	w, err := NewCWorld(2, c.Seed)
	if err != nil {
		tb.Fatalf("harness: cworld: %v", err)
	}
	defer w.Close()
	pullUpdated, evicted, reopened, removed := false, false, false, false
	checks := 0
	finish := func(abandoned bool) {
		var classes []string
		if pullUpdated {
			classes = append(classes, "pull-updates-existing")
		}
		if evicted {
			classes = append(classes, "eviction")
		}
		if reopened {
			classes = append(classes, "reopen")
		}
		if removed {
			classes = append(classes, "remove")
		}
		if abandoned {
			classes = append(classes, "abandoned")
		}
		rep.Class("rebuild-comparisons", checks)
		rep.Case(cActionKinds(c.Actions), (pullUpdated || evicted || reopened) && !abandoned, classes, c)
	}
	for i, a := range c.Actions {
		res, err := w.Exec(a)
		if err != nil {
			if ee, ok := err.(*ExecError); ok {
				if rep.Fail(tb, "C11/exec/"+ee.Sig, fmt.Sprintf("action #%d %s r%d: %s", i, a.Kind, a.R, ee.Detail), c) {
					finish(true)
					return
				}
			}
			tb.Fatalf("harness: %v", err)
		}
		pullUpdated = pullUpdated || res.PullUpdatedExisting
		evicted = evicted || res.Evicted
		reopened = reopened || res.Reopened
		removed = removed || res.Removed != ""
		// differential after every action, on the replica that acted
		r := w.R[a.R%len(w.R)]
		live, err := ViewOf(r.Cache, w.Tokens, nil)
		if err != nil {
			tb.Fatalf("harness: %v", err)
		}
		rebuilt, err := w.RebuiltView(r, nil)
		if err != nil {
			if rep.Fail(tb, "C11/rebuild-fails/"+Normalize(err.Error()), fmt.Sprintf("after action #%d %s r%d: %v", i, a.Kind, a.R, err), c) {
				finish(true)
				return
			}
		}
		checks++
		if aspect, detail := DiffViews(live, rebuilt); aspect != "" {
			if rep.Fail(tb, "C11/"+aspect+"/after-"+a.Kind, fmt.Sprintf("after action #%d %s on replica %d the live cache and a cache rebuilt from git disagree:\n%s", i, a.Kind, a.R, detail), c) {
				finish(true)
				return
			}
		}
	}
	finish(false)
}

func TestC11CacheVsRebuild(t *testing.T) {
	Drive(t, "C11", genC11, runC11)
}

// TestC11ConcurrentBuild rebuilds the cache of a populated repository many times. The build runs the
// identity and bug subcaches concurrently; the bug side resolves authors through the identity side.
// A data race there is fatal for the process ("concurrent map read and map write"), which the driver
// reports as a crash inside git-bug code.
func TestC11ConcurrentBuild(t *testing.T) {
	rep := report.For("C11", t.Name())
	defer rep.Close()
	w, err := NewCWorld(1, 4242)
	if err != nil {
		t.Fatalf("harness: %v", err)
	}
	defer w.Close()
	r := w.R[0]
	for i := 0; i < 60; i++ {
		if _, err := w.Exec(CAction{Kind: "newident", R: 0, Title: fmt.Sprintf("person %d", i)}); err != nil {
			t.Fatalf("harness: %v", err)
		}
	}
	for i := 0; i < 12; i++ {
		if _, err := w.Exec(CAction{Kind: "new", R: 0, Title: fmt.Sprintf("bug %d", i), Message: "m", Time: int64(1_000_000 + i)}); err != nil {
			t.Fatalf("harness: %v", err)
		}
	}
	rounds := Scale(250, 2000)
	for i := 0; i < rounds; i++ {
		live, err := w.RebuiltView(r, nil)
		if err != nil {
			rep.Fail(t, "C11/rebuild-fails/"+Normalize(err.Error()), err.Error(), map[string]int{"round": i})
			return
		}
		if i == 0 {
			ref, _ := ViewOf(r.Cache, w.Tokens, nil)
			if aspect, detail := DiffViews(ref, live); aspect != "" {
				rep.Fail(t, "C11/"+aspect+"/concurrent-build", detail, map[string]int{"round": i})
				return
			}
		}
		rep.Case(fmt.Sprintf("build-%d", i%2), true, []string{"concurrent-build"}, map[string]any{"bugs": 12, "identities": 61, "round": i})
	}
}
