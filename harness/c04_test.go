package harness

import (
	"bytes"
	"fmt"
	"os"
	"path/filepath"
	"reflect"
	"sort"
	"strings"
	"testing"

	"pgregory.net/rapid"

	"github.com/MichaelMure/git-bug/cache"
	"github.com/MichaelMure/git-bug/entities/bug"
	"github.com/MichaelMure/git-bug/entities/identity"
	"github.com/MichaelMure/git-bug/entity"
	"github.com/MichaelMure/git-bug/entity/dag"
	"github.com/MichaelMure/git-bug/repository"

	"verif/harness/internal/ondisk"
	"verif/harness/internal/refmodel"
	"verif/harness/internal/report"
)

// C04: committed data reads back identically; ids are content-derived and stable.

type c04Case struct {
	Seed   uint64     `json:"seed"`
	Chunks [][]OpSpec `json:"chunks"` // one Commit per chunk; Chunks[0][0] is the create
	NFiles int        `json:"n_files"`
}

func genC04(t *rapid.T) c04Case {
	c := c04Case{Seed: rapid.Uint64().Draw(t, "seed"), NFiles: rapid.IntRange(0, 4).Draw(t, "nFiles")}
	nChunks := rapid.IntRange(1, 5).Draw(t, "nChunks")
	big := GenBigMeta()
	for i := 0; i < nChunks; i++ {
		var chunk []OpSpec
		if i == 0 {
			cr := GenCreateSpec(3, c.NFiles).Draw(t, "create")
			if rapid.IntRange(0, 4).Draw(t, "bigmeta") == 0 {
				cr.Meta = big.Draw(t, "meta")
			}
			chunk = append(chunk, cr)
		}
		n := rapid.IntRange(1, 5).Draw(t, "n")
		if i == 0 {
			n--
		}
		for k := 0; k < n; k++ {
			s := GenOpSpec(3, c.NFiles).Draw(t, "op")
			if Thorough() && (s.Kind == refmodel.KComment || s.Kind == refmodel.KEdit) && rapid.IntRange(0, 30).Draw(t, "huge") == 0 {
				s.Message = strings.Repeat(GenMessage().Draw(t, "unit")+"é\n", 3000)
			}
			chunk = append(chunk, s)
		}
		c.Chunks = append(c.Chunks, chunk)
	}
	return c
}

// GenBigMeta: up to 12 metadata keys.
func GenBigMeta() *rapid.Generator[map[string]string] {
	return rapid.MapOfN(GenTitle(), GenMessage(), 4, 12)
}

// ROpFromReal projects a real operation to the plain shape (exported fields only).
func ROpFromReal(op dag.Operation) refmodel.ROp {
	r := refmodel.ROp{Id: string(op.Id()), Kind: refmodel.TypeToKind[int(op.Type())], Time: op.Time().Unix()}
	if op.Author() != nil {
		r.Author = string(op.Author().Id())
	}
	switch o := op.(type) {
	case *bug.CreateOperation:
		r.Title, r.Message, r.Files, r.Meta = o.Title, o.Message, hashesToStrings(o.Files), o.Metadata
	case *bug.AddCommentOperation:
		r.Message, r.Files, r.Meta = o.Message, hashesToStrings(o.Files), o.Metadata
	case *bug.EditCommentOperation:
		r.Target, r.Message, r.Files, r.Meta = string(o.Target), o.Message, hashesToStrings(o.Files), o.Metadata
	case *bug.SetTitleOperation:
		r.Title, r.Was, r.Meta = o.Title, o.Was, o.Metadata
	case *bug.SetStatusOperation:
		r.Status, r.Meta = int(o.Status), o.Metadata
	case *bug.LabelChangeOperation:
		r.Added, r.Removed, r.Meta = labelsToStrings(o.Added), labelsToStrings(o.Removed), o.Metadata
	case *dag.SetMetadataOperation[*bug.Snapshot]:
		r.Target, r.NewMeta, r.Meta = string(o.Target), o.NewMetadata, o.Metadata
	case *dag.NoOpOperation[*bug.Snapshot]:
		r.Meta = o.Metadata
	default:
		r.Kind = fmt.Sprintf("unknown(%T)", op)
	}
	return r
}

func normROp(r refmodel.ROp) refmodel.ROp {
	if len(r.Files) == 0 {
		r.Files = nil
	}
	if len(r.Added) == 0 {
		r.Added = nil
	}
	if len(r.Removed) == 0 {
		r.Removed = nil
	}
	if len(r.Meta) == 0 {
		r.Meta = nil
	}
	if len(r.NewMeta) == 0 {
		r.NewMeta = nil
	}
	return r
}

// diffROps compares two operation lists field by field.
func diffROps(want, got []refmodel.ROp) (aspect, detail string) {
	if len(want) != len(got) {
		return "operation-count", fmt.Sprintf("want %d got %d", len(want), len(got))
	}
	for i := range want {
		w, g := normROp(want[i]), normROp(got[i])
		if w.Id != g.Id {
			return "operation-id", fmt.Sprintf("#%d (%s) want %s got %s", i, w.Kind, w.Id, g.Id)
		}
		if w.Kind != g.Kind {
			return "operation-type", fmt.Sprintf("#%d want %s got %s", i, w.Kind, g.Kind)
		}
		if w.Author != g.Author {
			return "operation-author", fmt.Sprintf("#%d want %s got %s", i, w.Author, g.Author)
		}
		if w.Time != g.Time {
			return "operation-time", fmt.Sprintf("#%d want %d got %d", i, w.Time, g.Time)
		}
		if !reflect.DeepEqual(w, g) {
			return "operation-payload/" + w.Kind, fmt.Sprintf("#%d\nwant %+v\ngot  %+v", i, w, g)
		}
	}
	return "", ""
}

func realROps(b *bug.Bug) []refmodel.ROp {
	var out []refmodel.ROp
	for _, op := range b.Operations() {
		out = append(out, ROpFromReal(op))
	}
	return out
}

func runC04(tb report.TB, rep *report.Reporter, c c04Case) {
	w, err := NewWorld(2, c.Seed)
	if err != nil {
		tb.Fatalf("harness: world: %v", err)
	}
	defer w.Close()
	r0, r1 := w.Replicas[0], w.Replicas[1]
	fail := func(sig, detail string) bool { return rep.Fail(tb, "C04/"+sig, detail, c) }

	files := make([]repository.Hash, c.NFiles)
	for i := range files {
		h, err := r0.Repo.StoreData(w.fileContent(i))
		if err != nil {
			tb.Fatalf("harness: %v", err)
		}
		files[i] = h
		w.Files[string(h)] = w.fileContent(i)
	}

	// another process has the same repository open all along (a web UI, a second terminal) and only looks at an older
	// bug now and then: reading witnesses the times it reads, which rewrites the clock files with what THAT process knows
	var onlooker *repository.GoGitRepo
	bystander := ""
	if c.Seed%3 == 0 {
		ob := bug.NewBug()
		op := bug.NewCreateOp(r0.Authors[0], 5, "an older bug somebody keeps looking at", "m", nil)
		op.Nonce = NonceFor(c.Seed, 7_000_000)
		ob.Append(op)
		if err := ob.Commit(r0.Repo); err != nil {
			tb.Fatalf("harness: %v", err)
		}
		bystander = string(ob.Id())
		if onlooker, err = repository.OpenGoGitRepo(r0.Path, "git-bug", []repository.ClockLoader{bug.ClockLoader}); err != nil {
			tb.Fatalf("harness: %v", err)
		}
		defer onlooker.Close()
	}
	b := bug.NewBug()
	var expected []refmodel.ROp // from the generated specification, ids predicted before the commit
	var prev []Built
	bugId := ""
	seq := 0
	textClasses := map[string]bool{}
	authorsInChunk := 0
	usedFile := false
	var kindSeq []string
	for ci, chunk := range c.Chunks {
		authors := map[int]bool{}
		appended := 0
		for _, s := range chunk {
			seq++
			op, rop := BuildOp(s, r0.Authors, prev, files, NonceFor(c.Seed, seq))
			if err := op.Validate(); err != nil {
				continue // refused by the editing API: not part of the expected history
			}
			b.Append(op)
			appended++
			rop.Id = string(op.Id()) // predicted
			expected = append(expected, rop)
			prev = append(prev, Built{Id: rop.Id, Kind: s.Kind})
			authors[s.Author%len(r0.Authors)] = true
			textClasses[TextClass(s.Message)] = true
			textClasses[TextClass(s.Title)] = true
			if len(rop.Files) > 0 {
				usedFile = true
			}
			kindSeq = append(kindSeq, s.Kind)
			if bugId == "" {
				bugId = string(b.Id())
			} else if string(b.Id()) != bugId {
				if fail("bug-id-changed-by-append", fmt.Sprintf("%s -> %s", bugId, b.Id())) {
					return
				}
			}
		}
		kindSeq = append(kindSeq, "|")
		if len(authors) > authorsInChunk {
			authorsInChunk = len(authors)
		}
		if appended == 0 {
			continue
		}
		if err := b.Commit(r0.Repo); err != nil {
			if fail("commit-refused/"+Normalize(err.Error()), fmt.Sprintf("chunk %d: %v", ci, err)) {
				return
			}
		}
		if string(b.Id()) != bugId {
			if fail("bug-id-changed-by-commit", fmt.Sprintf("%s -> %s", bugId, b.Id())) {
				return
			}
		}
		if onlooker != nil {
			if _, err := bug.Read(onlooker, entity.Id(bystander)); err != nil {
				tb.Fatalf("harness: onlooker: %v", err)
			}
		}
	}
	if bugId == "" {
		rep.Case("empty", false, []string{"nothing-accepted"}, nil)
		return
	}
	nontrivial := len(c.Chunks) >= 2 || authorsInChunk >= 2 || usedFile
	for k := range textClasses {
		if strings.HasPrefix(k, "unicode") || strings.Contains(k, "edgews") {
			nontrivial = true
		}
	}
	classes := []string{fmt.Sprintf("chunks:%d", len(c.Chunks)), fmt.Sprintf("max-authors-per-staging:%d", authorsInChunk)}
	if usedFile {
		classes = append(classes, "has-attachment")
	}
	for k := range textClasses {
		classes = append(classes, "text:"+k)
	}
	sort.Strings(classes)
	rep.Case(strings.Join(kindSeq, ",")+fmt.Sprint(authorsInChunk), nontrivial, classes, c)

	// the handle after the commits still shows what was appended
	if a, d := diffROps(expected, realROps(b)); a != "" {
		if fail("handle-after-commit/"+a, d) {
			return
		}
	}

	// ---- independent read of the stored bytes: ids are hashes of the stored form, payload byte for byte
	d, err := ondisk.ReadDAG(r0.Repo, "refs/bugs/"+bugId)
	if err != nil {
		if fail("stored-layout-unparsable/"+Normalize(err.Error()), err.Error()) {
			return
		}
	}
	disk, err := d.ROps()
	if err != nil {
		if fail("stored-json-unparsable/"+Normalize(err.Error()), err.Error()) {
			return
		}
	}
	if a, dd := diffROps(expected, disk); a != "" {
		if fail("stored-form/"+a, dd) {
			return
		}
	}
	if len(disk) > 0 && disk[0].Id != bugId {
		if fail("bug-id-is-not-hash-of-first-stored-operation", fmt.Sprintf("bug id %s, sha256 of first stored element %s", bugId, disk[0].Id)) {
			return
		}
	}

	check := func(where string, got *bug.Bug, err error) bool {
		if err != nil {
			return fail(where+"/unreadable/"+Normalize(err.Error()), err.Error())
		}
		if string(got.Id()) != bugId {
			return fail(where+"/entity-id", fmt.Sprintf("want %s got %s", bugId, got.Id()))
		}
		if a, dd := diffROps(expected, realROps(got)); a != "" {
			return fail(where+"/"+a, dd)
		}
		if err := got.Validate(); err != nil {
			return fail(where+"/validate/"+Normalize(err.Error()), err.Error())
		}
		if got.CreateLamportTime() != b.CreateLamportTime() || got.EditLamportTime() != b.EditLamportTime() {
			return fail(where+"/lamport-times", fmt.Sprintf("handle create/edit %d/%d, read %d/%d", b.CreateLamportTime(), b.EditLamportTime(), got.CreateLamportTime(), got.EditLamportTime()))
		}
		return false
	}
	got, err := bug.Read(r0.Repo, entity.Id(bugId))
	if check("read", got, err) {
		return
	}
	var viaAll *bug.Bug
	var allErr error
	for se := range bug.ReadAll(r0.Repo) {
		if se.Err != nil {
			allErr = se.Err
			continue
		}
		if string(se.Entity.Id()) == bugId {
			viaAll = se.Entity
		}
	}
	if viaAll == nil && allErr == nil {
		allErr = fmt.Errorf("bug not listed by ReadAll")
	}
	if check("readall", viaAll, allErr) {
		return
	}

	// ---- second replica after push / pull; attachments travel
	if err := w.Push(r0); err != nil {
		if fail("push/"+Normalize(err.Error()), err.Error()) {
			return
		}
	}
	if _, err := w.Pull(r1); err != nil {
		if fail("pull/"+Normalize(err.Error()), err.Error()) {
			return
		}
	}
	got1, err := bug.Read(r1.Repo, entity.Id(bugId))
	if check("second-replica", got1, err) {
		return
	}
	for _, e := range expected {
		for _, f := range e.Files {
			data, err := r1.Repo.ReadData(repository.Hash(f))
			if err != nil {
				if fail("attachment-missing-on-second-replica", fmt.Sprintf("blob %s: %v", f, err)) {
					return
				}
				continue
			}
			if !bytes.Equal(data, w.Files[f]) && w.Files[f] != nil {
				if fail("attachment-content-differs", f) {
					return
				}
			}
		}
	}
	// ---- through the cache of the second replica
	rc, err := cache.NewRepoCacheNoEvents(r1.Repo)
	if err != nil {
		tb.Fatalf("harness: cache: %v", err)
	}
	bc, err := rc.Bugs().Resolve(entity.Id(bugId))
	if err != nil {
		if fail("cache/unresolvable/"+Normalize(err.Error()), err.Error()) {
			return
		}
	} else {
		var viaCache []refmodel.ROp
		for _, op := range bc.Snapshot().Operations {
			viaCache = append(viaCache, ROpFromReal(op))
		}
		if a, dd := diffROps(expected, viaCache); a != "" {
			if fail("cache/"+a, dd) {
				return
			}
		}
	}
	_ = rc.Close()

	// ---- the same repository opened from a linked working tree (git worktree add) and from a sub-directory reads the
	// same bug; what is committed there reads back in the main one
	if c.Seed%4 == 1 {
		wt := filepath.Join(w.Dir, "r0-linked-tree")
		if res := RunGit(r0.Path, "-c", "user.name=x", "-c", "user.email=x@example.org", "commit", "-q", "--allow-empty", "-m", "init"); res.Code != 0 {
			tb.Fatalf("harness: %s", res.Out)
		}
		if res := RunGit(r0.Path, "worktree", "add", "-q", wt, "-b", "linked"); res.Code != 0 {
			tb.Fatalf("harness: worktree add: %s", res.Out)
		}
		sub := filepath.Join(wt, "docs", "deep")
		_ = os.MkdirAll(sub, 0o755)
		for _, from := range []string{wt, sub} {
			lr, err := repository.OpenGoGitRepo(from, "git-bug", nil)
			if err != nil {
				if fail("linked-tree/cannot-open/"+Normalize(err.Error()), from+": "+err.Error()) {
					return
				}
				continue
			}
			lb, err := bug.Read(lr, entity.Id(bugId))
			if err != nil {
				_ = lr.Close()
				if fail("linked-tree/committed-bug-not-readable/"+Normalize(err.Error()), "opened from "+from+": "+err.Error()) {
					return
				}
				continue
			}
			var viaLinked []refmodel.ROp
			for _, op := range lb.Operations() {
				viaLinked = append(viaLinked, ROpFromReal(op))
			}
			if a, dd := diffROps(expected, viaLinked); a != "" {
				_ = lr.Close()
				if fail("linked-tree/"+a, dd) {
					return
				}
				continue
			}
			if from == wt {
				// and the other way round
				nb := bug.NewBug()
				op := bug.NewCreateOp(r0.Authors[0], 88_000, "written from the linked tree", "m", nil)
				op.Nonce = NonceFor(c.Seed, 7_100_000)
				nb.Append(op)
				if err := nb.Commit(lr); err != nil {
					tb.Fatalf("harness: commit from the linked tree: %v", err)
				}
				if _, err := bug.Read(r0.Repo, nb.Id()); err != nil {
					_ = lr.Close()
					if fail("linked-tree/bug-committed-there-not-readable-in-the-main-tree/"+Normalize(err.Error()), err.Error()) {
						return
					}
					continue
				}
			}
			_ = lr.Close()
		}
		rep.Class("read-back-from-a-linked-working-tree", 1)
	}

	// ---- a cache that is already open on the second replica (a web UI, a bridge run) receives a later update
	if c.Seed%2 == 0 {
		_ = os.RemoveAll(filepath.Join(r1.Path, ".git", "git-bug", "cache")) // built from git by this session
	}
	if err := identity.SetUserIdentity(r1.Repo, r1.Authors[1%len(r1.Authors)].(*identity.Identity)); err != nil {
		tb.Fatalf("harness: %v", err)
	}
	rc2, err := cache.NewRepoCacheNoEvents(r1.Repo)
	if err != nil {
		tb.Fatalf("harness: cache: %v", err)
	}
	defer rc2.Close()
	if c.Seed%4 < 2 {
		_, _ = rc2.Bugs().Resolve(entity.Id(bugId)) // the bug is in use in that session
	}
	lb, err := bug.Read(r0.Repo, entity.Id(bugId))
	if err != nil {
		tb.Fatalf("harness: %v", err)
	}
	_, lateOp, err := bug.AddComment(lb, r0.Authors[0], 99_000, "a later comment, written after the other side opened its cache", nil, nil)
	if err == nil {
		err = lb.Commit(r0.Repo)
	}
	if err != nil {
		tb.Fatalf("harness: late comment: %v", err)
	}
	if err := w.Push(r0); err != nil {
		tb.Fatalf("harness: %v", err)
	}
	if err := rc2.Pull("origin"); err != nil {
		if fail("cache/pull/"+Normalize(err.Error()), err.Error()) {
			return
		}
	}
	if bc2, err := rc2.Bugs().Resolve(entity.Id(bugId)); err != nil {
		if fail("cache/unresolvable-after-pull/"+Normalize(err.Error()), err.Error()) {
			return
		}
	} else {
		var viaCache []refmodel.ROp
		for _, op := range bc2.Snapshot().Operations {
			viaCache = append(viaCache, ROpFromReal(op))
		}
		if a, dd := diffROps(append(append([]refmodel.ROp(nil), expected...), ROpFromReal(lateOp)), viaCache); a != "" {
			if fail("open-cache-after-pull/"+a, "the cache of the second replica was open when the update arrived\n"+dd) {
				return
			}
		}
	}

	// ---- the in-memory backend round trip (same operations, same ids)
	mock := repository.NewMockRepo()
	var mAuthors []string
	for i := range r0.Authors {
		id, _, _, err := ondisk.WriteIdentity(mock, "", []ondisk.IdentityVersion{{Version: 2, UnixTime: 1600000000 + int64(i),
			Name: fmt.Sprintf("user%d", i), Email: fmt.Sprintf("user%d@example.org", i), Nonce: NonceFor(c.Seed, 1_000_000+i)}})
		if err != nil {
			tb.Fatalf("harness: %v", err)
		}
		mAuthors = append(mAuthors, id)
	}
	if fmt.Sprint(mAuthors) != fmt.Sprint(w.AuthorIds) {
		tb.Fatalf("harness: identity ids differ between backends")
	}
	mb := bug.NewBug()
	seq = 0
	prev = nil
	mfiles := make([]repository.Hash, c.NFiles)
	for i := range mfiles {
		mfiles[i], _ = mock.StoreData(w.fileContent(i))
	}
	sameFileHashes := fmt.Sprint(mfiles) == fmt.Sprint(files)
	for _, chunk := range c.Chunks {
		n := 0
		for _, s := range chunk {
			seq++
			op, _ := BuildOp(s, r0.Authors, prev, mfiles, NonceFor(c.Seed, seq))
			if op.Validate() != nil {
				continue
			}
			mb.Append(op)
			prev = append(prev, Built{Id: string(op.Id()), Kind: s.Kind})
			n++
		}
		if n > 0 {
			if err := mb.Commit(mock); err != nil {
				if fail("mock/commit-refused/"+Normalize(err.Error()), err.Error()) {
					return
				}
			}
		}
	}
	gotM, err := bug.Read(mock, mb.Id())
	if err != nil {
		if fail("mock/unreadable/"+Normalize(err.Error()), err.Error()) {
			return
		}
	} else if sameFileHashes {
		if a, dd := diffROps(expected, realROps(gotM)); a != "" {
			if fail("mock/"+a, dd) {
				return
			}
		}
	} else {
		if a, dd := diffROps(realROps(mb), realROps(gotM)); a != "" {
			if fail("mock/"+a, dd) {
				return
			}
		}
	}
}

func TestC04RoundTrip(t *testing.T) {
	Drive(t, "C04", genC04, runC04)
}

// TestC04ForeignForm: ids are hashes of the *stored* form, whatever writer
// produced it (other key order, whitespace, unknown fields).
func TestC04ForeignForm(t *testing.T) {
	gen := func(t *rapid.T) craftCase {
		c := genCraft(t)
		c.Defect = "none"
		return c
	}
	Drive(t, "C04", gen, func(tb report.TB, rep *report.Reporter, c craftCase) {
		env := getCraftEnv()
		built, err := buildCraft(env.repo, env.authors, c, "refs/bugs/")
		if err != nil {
			tb.Fatalf("harness: craft: %v", err)
		}
		defer func() { _ = env.repo.RemoveRef(built.ref) }()
		if built.verdict != "accept" {
			return
		}
		rep.Case("foreign|"+shapeOf(c)+fmt.Sprint(c.Seed%3), true, []string{"foreign-form"}, c)
		b, err := bug.Read(env.repo, entity.Id(built.bugId))
		if err != nil {
			rep.Fail(tb, "C04/foreign/unreadable/"+Normalize(err.Error()), err.Error(), c)
			return
		}
		d, err := ondisk.ReadDAGAt(env.repo, built.head)
		if err != nil {
			tb.Fatalf("harness: %v", err)
		}
		want := d.OpIds()
		got := opIdsOf(b)
		if strings.Join(want, ",") != strings.Join(got, ",") {
			if rep.Fail(tb, "C04/foreign/operation-id-is-not-hash-of-stored-form", fmt.Sprintf("sha256 of stored elements %v\nids reported %v", want, got), c) {
				return
			}
		}
		if string(b.Id()) != want[0] {
			rep.Fail(tb, "C04/foreign/bug-id-is-not-hash-of-first-stored-operation", fmt.Sprintf("%s vs %s", b.Id(), want[0]), c)
		}
	})
}
