//go:build verif

package harness

import (
	"runtime"
	"sync"
	"time"

	"github.com/MichaelMure/git-bug/cache"
)

// lockDelays installs a schedule perturbation on the cache mutexes (hook of /repo, build tag verif):
// before an acquisition, a goroutine sleeps 0..3 ms (1 call in 8) or yields (2 in 8). The choices come
// from a splitmix64 stream seeded by the case; which goroutine gets which choice depends on the
// scheduler, so a failure found this way is reported with the case but may need several replays.
// It returns the function that removes the hook and reports how many delays were injected.
func lockDelays(seed uint64) (stop func() int) {
	var mu sync.Mutex
	state := seed | 1
	n := 0
	cache.VerifLockHook = func(op string) {
		mu.Lock()
		state += 0x9e3779b97f4a7c15
		z := state
		z = (z ^ (z >> 30)) * 0xbf58476d1ce4e5b9
		z = (z ^ (z >> 27)) * 0x94d049bb133111eb
		z ^= z >> 31
		k := z % 8
		if k == 0 {
			n++
		}
		mu.Unlock()
		switch {
		case k == 0:
			time.Sleep(time.Duration((z>>8)%3000) * time.Microsecond)
		case k <= 2:
			runtime.Gosched()
		}
	}
	return func() int {
		cache.VerifLockHook = nil
		mu.Lock()
		defer mu.Unlock()
		return n
	}
}

// lockDelaysWriters is the same perturbation aimed at writers: every second acquisition of a write lock sleeps
// 0..2 ms, readers only yield. Used where two requests race for one entity a few times in a row.
func lockDelaysWriters(seed uint64) (stop func()) {
	var mu sync.Mutex
	state := seed | 1
	cache.VerifLockHook = func(op string) {
		mu.Lock()
		state += 0x9e3779b97f4a7c15
		z := state
		z = (z ^ (z >> 30)) * 0xbf58476d1ce4e5b9
		z = (z ^ (z >> 27)) * 0x94d049bb133111eb
		z ^= z >> 31
		mu.Unlock()
		if op == "Lock" && z%2 == 0 {
			time.Sleep(time.Duration((z>>8)%2000) * time.Microsecond)
		} else {
			runtime.Gosched()
		}
	}
	return func() { cache.VerifLockHook = nil }
}

// parkAt owns the schedule of one goroutine: the goroutine that calls mark() is parked just before its k-th acquisition
// of a cache mutex after that call (holding whatever it holds there) until release() is called. parked is closed when
// it is parked. stop removes the hook.
func parkAt(k int) (mark func(), parked chan struct{}, release func(), stop func()) {
	var mu sync.Mutex
	id, seen, done := "", 0, false
	parked = make(chan struct{})
	gate := make(chan struct{})
	cache.VerifLockHook = func(op string) {
		mu.Lock()
		if id == "" || id != goid() || done {
			mu.Unlock()
			return
		}
		n := seen
		seen++
		hit := n == k
		if hit {
			done = true
		}
		mu.Unlock()
		if hit {
			close(parked)
			<-gate
		}
	}
	var once sync.Once
	return func() { mu.Lock(); id = goid(); mu.Unlock() }, parked, func() { once.Do(func() { close(gate) }) }, func() { cache.VerifLockHook = nil }
}
