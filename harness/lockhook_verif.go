//go:build verif

package harness

import (
	"runtime"
	"sync"
	"time"

	"github.com/MichaelMure/git-bug/cache"
)

// lockDelays installs a schedule perturbation on the cache mutexes (hook of /repo, build tag verif):
// before an acquisition, a goroutine sleeps 0..3 ms (1 call in 8) or yields (2 in 8). The choices come
// from a splitmix64 stream seeded by the case; which goroutine gets which choice depends on the
// scheduler, so a failure found this way is reported with the case but may need several replays.
// It returns the function that removes the hook and reports how many delays were injected.
func lockDelays(seed uint64) (stop func() int) {
	var mu sync.Mutex
	state := seed | 1
	n := 0
	cache.VerifLockHook = func(op string) {
		mu.Lock()
		state += 0x9e3779b97f4a7c15
		z := state
		z = (z ^ (z >> 30)) * 0xbf58476d1ce4e5b9
		z = (z ^ (z >> 27)) * 0x94d049bb133111eb
		z ^= z >> 31
		k := z % 8
		if k == 0 {
			n++
		}
		mu.Unlock()
		switch {
		case k == 0:
			time.Sleep(time.Duration((z>>8)%3000) * time.Microsecond)
		case k <= 2:
			runtime.Gosched()
		}
	}
	return func() int {
		cache.VerifLockHook = nil
		mu.Lock()
		defer mu.Unlock()
		return n
	}
}
