package harness

import (
	"encoding/json"
	"fmt"
	"strings"
	"testing"

	"pgregory.net/rapid"

	"github.com/MichaelMure/git-bug/entities/identity"
	"github.com/MichaelMure/git-bug/entity"
	"github.com/MichaelMure/git-bug/repository"

	"verif/harness/internal/ondisk"
	"verif/harness/internal/report"
)

// C07 (identities) and C09 (rejection rules): hostile identity histories.

type iVersion struct {
	Blob    []byte
	Entries []repository.TreeEntry // besides / instead of the "version" entry; nil = the single documented entry
	NoEntry bool
	Name    string // entry name, default "version"
	Parents int    // 1 = linear; 2 = also the grand-parent (a merge commit in the chain)
}

type iHistory struct {
	Versions []iVersion
	RefName  string
	HeadKind string
}

type c07IdOp struct {
	Name  string
	Must  bool
	C09   bool // a rejection rule the C09 statement names
	Apply func(h *iHistory, j int) bool
}

func setTop(blob []byte, field, value string) []byte {
	var m map[string]json.RawMessage
	if json.Unmarshal(blob, &m) != nil {
		return nil
	}
	if value == "" {
		delete(m, field)
	} else {
		m[field] = json.RawMessage(value)
	}
	out, _ := json.Marshal(m)
	return out
}

func idField(field, value string) func(h *iHistory, j int) bool {
	return func(h *iHistory, j int) bool {
		nb := setTop(h.Versions[j].Blob, field, value)
		if nb == nil {
			return false
		}
		h.Versions[j].Blob = nb
		return true
	}
}

func idBlob(f func(b []byte) []byte) func(h *iHistory, j int) bool {
	return func(h *iHistory, j int) bool { h.Versions[j].Blob = f(h.Versions[j].Blob); return true }
}

var c07IdOps = []c07IdOp{
	{"id/tree-no-entry", true, false, func(h *iHistory, j int) bool { h.Versions[j].NoEntry = true; return true }},
	{"id/tree-two-entries", true, false, func(h *iHistory, j int) bool {
		h.Versions[j].Entries = []repository.TreeEntry{{ObjectType: repository.Blob, Name: "aaa-extra"}}
		return true
	}},
	{"id/tree-extra-entry-after", true, false, func(h *iHistory, j int) bool {
		h.Versions[j].Entries = []repository.TreeEntry{{ObjectType: repository.Blob, Name: "zzz-extra"}}
		return true
	}},
	{"id/tree-wrong-entry-name", true, false, func(h *iHistory, j int) bool { h.Versions[j].Name = "versions"; return true }},
	{"id/json-truncated", true, false, idBlob(func(b []byte) []byte { return b[:len(b)/2] })},
	{"id/json-not-json", true, false, idBlob(func(b []byte) []byte { return []byte("\xff\xfe not json") })},
	{"id/json-empty", true, false, idBlob(func(b []byte) []byte { return []byte{} })},
	{"id/json-array", true, false, idBlob(func(b []byte) []byte { return []byte("[1,2]") })},
	{"id/json-null", true, false, idBlob(func(b []byte) []byte { return []byte("null") })},
	{"id/format-version-1", true, false, idField("version", "1")},
	{"id/format-version-3", true, false, idField("version", "3")},
	{"id/format-version-missing", true, false, idField("version", "")},
	{"id/format-version-string", true, false, idField("version", `"2"`)},
	{"id/format-version-negative", true, false, idField("version", `-2`)},
	{"id/no-name-no-login", true, true, func(h *iHistory, j int) bool {
		return idField("name", "")(h, j) && idField("login", "")(h, j)
	}},
	{"id/blank-name-no-login", true, true, func(h *iHistory, j int) bool {
		return idField("name", `"  \t"`)(h, j) && idField("login", "")(h, j)
	}},
	{"id/name-control-chars", true, true, idField("name", `"a\u0000b"`)},
	{"id/name-c1-control-chars", true, true, idField("name", `"a\u009bb"`)},
	{"id/login-c1-control-chars", true, true, idField("login", `"l\u0085"`)},
	{"id/name-two-lines", true, true, idField("name", `"a\nb"`)},
	{"id/name-escape-sequence", true, true, idField("name", `"\u001b[31mred"`)},
	{"id/login-control-chars", true, true, idField("login", `"l\u0007"`)},
	{"id/email-two-lines", true, true, idField("email", `"a@b\nc"`)},
	{"id/name-number", true, false, idField("name", `5`)},
	{"id/avatar-not-url", true, false, idField("avatar_url", `"not a url"`)},
	{"id/nonce-too-short", true, false, idField("nonce", b64(4))},
	{"id/nonce-too-long", true, false, idField("nonce", b64(80))},
	{"id/nonce-19-bytes", true, false, idField("nonce", b64(19))},
	{"id/nonce-65-bytes", true, false, idField("nonce", b64(65))},
	{"id/nonce-20-bytes-legal", false, false, idField("nonce", b64(20))},
	{"id/nonce-64-bytes-legal", false, false, idField("nonce", b64(64))},
	{"id/nonce-missing", true, false, idField("nonce", "")},
	{"id/nonce-number", true, false, idField("nonce", "1")},
	{"id/key-broken-armor", true, false, idField("pub_keys", `["-----BEGIN PGP PUBLIC KEY BLOCK-----\n\nnot base64!!\n-----END PGP PUBLIC KEY BLOCK-----"]`)},
	{"id/key-empty-string", true, false, idField("pub_keys", `[""]`)},
	{"id/key-null", true, false, idField("pub_keys", `[null]`)},
	{"id/key-null-after-a-key", true, false, idField("pub_keys", `[null, null]`)},
	{"id/key-number", true, false, idField("pub_keys", `[5]`)},
	{"id/key-object", true, false, idField("pub_keys", `{"a":1}`)},
	{"id/times-not-object", true, false, idField("times", `[1,2]`)},
	{"id/times-string-value", true, false, idField("times", `{"bugs-edit":"soon"}`)},
	{"id/times-negative", true, false, idField("times", `{"bugs-edit":-4}`)},
	{"id/times-decreasing", true, true, func(h *iHistory, j int) bool {
		if len(h.Versions) < 2 {
			return false
		}
		if j == 0 {
			j = 1
		}
		return idField("times", `{"bugs-create":1,"bugs-edit":1}`)(h, j%len(h.Versions))
	}},
	{"id/times-dropped", true, true, func(h *iHistory, j int) bool {
		if len(h.Versions) < 2 {
			return false
		}
		if j == 0 {
			j = 1
		}
		return idField("times", `{"bugs-edit":900}`)(h, j%len(h.Versions))
	}},
	{"id/times-dropped-and-replaced", true, true, func(h *iHistory, j int) bool {
		// one clock disappears while a new clock name appears: the number of clocks does not shrink
		if len(h.Versions) < 2 {
			return false
		}
		if j == 0 {
			j = 1
		}
		return idField("times", `{"bugs-edit":900,"boards-edit":1}`)(h, j%len(h.Versions))
	}},
	{"id/times-dropped-more-added", true, true, func(h *iHistory, j int) bool {
		if len(h.Versions) < 2 {
			return false
		}
		if j == 0 {
			j = 1
		}
		return idField("times", `{"bugs-create":900,"boards-create":1,"boards-edit":1,"x":7}`)(h, j%len(h.Versions))
	}},
	{"id/times-one-decreasing-one-new", true, true, func(h *iHistory, j int) bool {
		if len(h.Versions) < 2 {
			return false
		}
		if j == 0 {
			j = 1
		}
		return idField("times", `{"bugs-create":900,"bugs-edit":1,"boards-edit":5000}`)(h, j%len(h.Versions))
	}},
	{"id/times-new-clock-added-legal", false, true, func(h *iHistory, j int) bool {
		// a version may add clocks (a new entity type appeared): legal, everything else keeps growing
		return idField("times", `{"bugs-create":900,"bugs-edit":900,"boards-edit":1}`)(h, len(h.Versions)-1)
	}},
	{"id/times-all-dropped", true, true, func(h *iHistory, j int) bool {
		if len(h.Versions) < 2 {
			return false
		}
		if j == 0 {
			j = 1
		}
		return idField("times", `{}`)(h, j%len(h.Versions))
	}},
	{"id/unix-time-zero", true, false, idField("unix_time", `0`)},
	{"id/unix-time-string", true, false, idField("unix_time", `"now"`)},
	{"id/metadata-array", true, false, idField("metadata", `[]`)},
	{"id/metadata-number-value", true, false, idField("metadata", `{"k":1}`)},
	{"id/unknown-extra-field", false, false, idField("x-unknown", `{"a":1}`)},
	{"id/ref-name-is-another-id", true, false, func(h *iHistory, j int) bool { h.RefName = string(UnknownId(j + 11)); return true }},
	{"id/ref-name-40-chars", true, false, func(h *iHistory, j int) bool { h.RefName = h.RefName[:40]; return true }},
	{"id/ref-name-short", true, false, func(h *iHistory, j int) bool { h.RefName = h.RefName[:9]; return true }},
	{"id/ref-name-bad-characters", true, false, func(h *iHistory, j int) bool { h.RefName = strings.Repeat("-", 64); return true }},
	{"id/ref-points-to-blob", true, false, func(h *iHistory, j int) bool { h.HeadKind = "blob"; return true }},
	{"id/ref-points-to-tree", true, false, func(h *iHistory, j int) bool { h.HeadKind = "tree"; return true }},
	{"id/merge-commit-in-chain", false, false, func(h *iHistory, j int) bool {
		if len(h.Versions) < 3 {
			return false
		}
		h.Versions[len(h.Versions)-1].Parents = 2
		return true
	}},
}

type c07IdCase struct {
	Seed      uint64 `json:"seed"`
	NVersions int    `json:"n_versions"`
	Operator  string `json:"operator"`
	J         int    `json:"j"`
	Situation string `json:"situation"` // absent prefix equal ahead
	Prop      string `json:"prop"`
}

var c07IdSituations = []string{"absent", "prefix", "equal", "ahead"}

func baseIdentity(seed uint64, n int) *iHistory {
	h := &iHistory{HeadKind: "commit"}
	for i := 0; i < n; i++ {
		v := ondisk.IdentityVersion{Version: 2, UnixTime: 1650000000 + int64(i), Name: fmt.Sprintf("hostile base %d v%d", seed%1000, i),
			Email: "b@example.org", Nonce: NonceFor(seed, 7_000_000+i),
			Times: map[string]uint64{"bugs-create": uint64(2 + i), "bugs-edit": uint64(10 + 5*i)}}
		if i == n-1 {
			v.Metadata = map[string]string{"origin": "test"}
		}
		b, _ := json.Marshal(v)
		h.Versions = append(h.Versions, iVersion{Blob: b, Parents: 1})
	}
	h.RefName = ondisk.Sha(h.Versions[0].Blob)
	return h
}

func (h *iHistory) clone() *iHistory {
	c := &iHistory{RefName: h.RefName, HeadKind: h.HeadKind}
	for _, v := range h.Versions {
		c.Versions = append(c.Versions, iVersion{Blob: append([]byte(nil), v.Blob...), Entries: append([]repository.TreeEntry(nil), v.Entries...), NoEntry: v.NoEntry, Name: v.Name, Parents: v.Parents})
	}
	return c
}

// writeChain stores versions [from:] on top of existing commits and returns all commit hashes.
func (h *iHistory) writeChain(repo repository.RepoData, existing []string, from int) ([]string, string, error) {
	commits := append([]string(nil), existing[:from]...)
	for i := from; i < len(h.Versions); i++ {
		v := h.Versions[i]
		var entries []repository.TreeEntry
		if !v.NoEntry {
			bh, err := repo.StoreData(v.Blob)
			if err != nil {
				return nil, "", err
			}
			name := v.Name
			if name == "" {
				name = "version"
			}
			entries = append(entries, repository.TreeEntry{ObjectType: repository.Blob, Hash: bh, Name: name})
			for _, e := range v.Entries {
				e.Hash = bh
				entries = append(entries, e)
			}
		}
		th, err := repo.StoreTree(entries)
		if err != nil {
			return nil, "", err
		}
		var parents []repository.Hash
		if i > 0 {
			parents = append(parents, repository.Hash(commits[i-1]))
			if v.Parents == 2 && i > 1 {
				parents = append(parents, repository.Hash(commits[i-2]))
			}
		}
		ch, err := repo.StoreCommit(th, parents...)
		if err != nil {
			return nil, "", err
		}
		commits = append(commits, string(ch))
	}
	head := commits[len(commits)-1]
	switch h.HeadKind {
	case "blob":
		bh, _ := repo.StoreData([]byte("not a commit"))
		head = string(bh)
	case "tree":
		th, _ := repo.StoreTree([]repository.TreeEntry{})
		head = string(th)
	}
	return commits, head, nil
}

func safeReadIdentity(repo repository.ClockedRepo, id string) (i *identity.Identity, err error, panicked string) {
	defer func() {
		if r := recover(); r != nil {
			panicked = fmt.Sprint(r)
		}
	}()
	i, err = identity.ReadLocal(repo, entity.Id(id))
	if err == nil {
		err = i.Validate()
	}
	return
}

func findIdOp(name string) *c07IdOp {
	for k := range c07IdOps {
		if c07IdOps[k].Name == name {
			return &c07IdOps[k]
		}
	}
	return nil
}

func runC07Id(tb report.TB, rep *report.Reporter, c c07IdCase) {
	env := getC07Env(tb)
	repo := env.freshClocks(tb)
	op := findIdOp(c.Operator)
	if op == nil {
		tb.Fatalf("harness: unknown operator %s", c.Operator)
	}
	prop := c.Prop
	if prop == "" {
		prop = "C07"
	}
	fail := func(sig, detail string) bool {
		return rep.Fail(tb, prop+"/"+sig, fmt.Sprintf("operator %s at version %d of %d, local situation %s\n%s", c.Operator, c.J, c.NVersions, c.Situation, detail), c)
	}
	var createdRefs []string
	defer func() {
		for _, r := range createdRefs {
			_ = repo.RemoveRef(r)
		}
	}()
	base := baseIdentity(c.Seed, c.NVersions)
	baseCommits, baseHead, err := base.writeChain(repo, nil, 0)
	if err != nil {
		tb.Fatalf("harness: %v", err)
	}
	mut := base.clone()
	j := c.J % len(mut.Versions)
	if !op.Apply(mut, j) {
		rep.Case("n/a", false, []string{"operator-not-applicable"}, nil)
		return
	}
	if !strings.HasPrefix(c.Operator, "id/ref-") {
		mut.RefName = ondisk.Sha(mut.Versions[0].Blob) // served under the id of its own first version
	}
	from := 0
	for from < len(base.Versions) && string(base.Versions[from].Blob) == string(mut.Versions[from].Blob) &&
		!mut.Versions[from].NoEntry && mut.Versions[from].Name == "" && len(mut.Versions[from].Entries) == 0 && mut.Versions[from].Parents == 1 {
		from++
	}
	_, head, err := mut.writeChain(repo, baseCommits, min(from, len(mut.Versions)))
	if err != nil {
		tb.Fatalf("harness: %v", err)
	}
	posClass := "first"
	if j > 0 && j == len(base.Versions)-1 {
		posClass = "last"
	} else if j > 0 {
		posClass = "middle"
	}
	verdict := "may"
	if op.Must {
		verdict = "must-reject"
	}
	rep.Case(fmt.Sprintf("%s|%s|%s", c.Operator, posClass, c.Situation), c.Situation != "absent",
		[]string{"operator:" + c.Operator, "situation:" + c.Situation, "position:" + posClass, "expect:" + verdict}, c)

	baseId := base.RefName
	localRef := "refs/identities/" + baseId
	// ---- stage 1: stored locally, it must read as an error, not crash
	if entity.Id(mut.RefName).Validate() == nil {
		probeRef := "refs/identities/" + mut.RefName
		if err := repo.UpdateRef(probeRef, repository.Hash(head)); err != nil {
			tb.Fatalf("harness: %v", err)
		}
		createdRefs = append(createdRefs, probeRef)
		got, rerr, panicked := safeReadIdentity(repo, mut.RefName)
		_ = repo.RemoveRef(probeRef)
		if panicked != "" {
			if fail("local-read-panics/identity/"+Normalize(panicked), "identity.ReadLocal panicked: "+panicked) {
				return
			}
		}
		if op.Must && rerr == nil && got != nil && !strings.HasPrefix(c.Operator, "id/ref-") {
			if fail("corrupt-local-identity-read-without-error/"+c.Operator, "ReadLocal + Validate accepted it") {
				return
			}
		}
	}
	// ---- local situation
	switch c.Situation {
	case "absent":
	case "prefix":
		k := len(baseCommits) - 1
		if k < 1 {
			k = 1
		}
		_ = repo.UpdateRef(localRef, repository.Hash(baseCommits[k-1]))
		createdRefs = append(createdRefs, localRef)
	case "equal":
		_ = repo.UpdateRef(localRef, repository.Hash(baseHead))
		createdRefs = append(createdRefs, localRef)
	case "ahead":
		extra := base.clone()
		v := ondisk.IdentityVersion{Version: 2, UnixTime: 1660000000, Name: "local newer name", Nonce: NonceFor(c.Seed, 7_100_000),
			Times: map[string]uint64{"bugs-create": 50, "bugs-edit": 500}}
		b, _ := json.Marshal(v)
		extra.Versions = append(extra.Versions, iVersion{Blob: b, Parents: 1})
		_, h2, err := extra.writeChain(repo, baseCommits, len(baseCommits))
		if err != nil {
			tb.Fatalf("harness: %v", err)
		}
		_ = repo.UpdateRef(localRef, repository.Hash(h2))
		createdRefs = append(createdRefs, localRef)
	}
	remoteRef := "refs/remotes/origin/identities/" + mut.RefName
	if err := repo.UpdateRef(remoteRef, repository.Hash(head)); err != nil {
		tb.Fatalf("harness: %v", err)
	}
	createdRefs = append(createdRefs, remoteRef, "refs/identities/"+mut.RefName)

	if c.Seed%3 == 1 && c.Situation != "absent" {
		// the user's git has packed the references (git gc) since the local entity was written
		if res := RunGit(env.dir, "pack-refs", "--all", "--prune"); res.Code != 0 {
			tb.Fatalf("harness: pack-refs: %s", res.Out)
		}
		rep.Class("local-references-packed-before-the-merge", 1)
	}
	beforeRefs := allRefsOf(repo)
	var beforeChain []string
	if c.Situation != "absent" {
		beforeChain = chainOf(repo, localRef)
	}
	var results []entity.MergeResult
	for res := range identity.MergeAll(repo, "origin") {
		results = append(results, res)
	}
	afterRefs := allRefsOf(repo)
	var mine *entity.MergeResult
	for n := range results {
		if string(results[n].Id) == mut.RefName {
			mine = &results[n]
		}
	}
	refused := mine != nil && (mine.Err != nil || mine.Status == entity.MergeStatusInvalid)
	accepted := mine != nil && mine.Err == nil && (mine.Status == entity.MergeStatusNew || mine.Status == entity.MergeStatusUpdated)
	describe := "no report"
	if mine != nil {
		describe = fmt.Sprintf("status=%v err=%v reason=%q", mine.Status, mine.Err, mine.Reason)
	}
	if op.Must && !refused {
		if fail("hostile-identity-not-reported-invalid/"+c.Operator, "merge report: "+describe) {
			return
		}
	}
	if (refused || op.Must) && beforeRefs != afterRefs {
		if fail("refs-changed-by-refused-identity", fmt.Sprintf("report %s\nbefore:\n%s\nafter:\n%s", describe, beforeRefs, afterRefs)) {
			return
		}
	}
	if c.Situation != "absent" {
		after := chainOf(repo, localRef)
		if !isPrefix(beforeChain, after) {
			if fail("local-identity-history-rewritten", fmt.Sprintf("report %s\nbefore %v\nafter %v", describe, beforeChain, after)) {
				return
			}
		}
		if _, rerr, panicked := safeReadIdentity(repo, baseId); rerr != nil || panicked != "" {
			if fail("local-identity-broken-by-merge", fmt.Sprintf("report %s: %v %s", describe, rerr, panicked)) {
				return
			}
		}
	}
	if accepted {
		if _, rerr, panicked := safeReadIdentity(repo, mut.RefName); rerr != nil || panicked != "" {
			if fail("accepted-identity-is-not-valid/"+c.Operator, fmt.Sprintf("report %s: %v %s", describe, rerr, panicked)) {
				return
			}
		}
	}
}

func genC07Id(prop string, only func(o c07IdOp) bool) func(t *rapid.T) c07IdCase {
	var names []string
	for _, o := range c07IdOps {
		if only == nil || only(o) {
			names = append(names, o.Name)
		}
	}
	return func(t *rapid.T) c07IdCase {
		return c07IdCase{
			Seed:      rapid.Uint64().Draw(t, "seed"),
			NVersions: rapid.IntRange(1, 4).Draw(t, "nVersions"),
			Operator:  rapid.SampledFrom(names).Draw(t, "operator"),
			J:         rapid.IntRange(0, 4).Draw(t, "j"),
			Situation: rapid.SampledFrom(c07IdSituations).Draw(t, "situation"),
			Prop:      prop,
		}
	}
}

func TestC07HostileIdentities(t *testing.T) {
	Drive(t, "C07", genC07Id("C07", nil), runC07Id)
}

// TestC09CraftedChains: the rejection rules the C09 statement names (decreasing or dropped clocks, no name and
// login, unsafe characters), on crafted chains served by a remote.
func TestC09CraftedChains(t *testing.T) {
	Drive(t, "C09", genC07Id("C09", func(o c07IdOp) bool { return o.C09 }), runC07Id)
}

// TestC07Catalogue applies every operator of both catalogues at every position class in every local
// situation (systematic enumeration; the rapid tests vary the base histories).
func TestC07Catalogue(t *testing.T) {
	rep := report.For("C07", t.Name())
	defer rep.Close()
	if c, ok := ReplayCase[c07Case](t); ok && c.Operator != "" && !strings.HasPrefix(c.Operator, "id/") {
		runC07(t, rep, c)
		return
	}
	n := 0
	for _, op := range c07BugOps {
		for _, sit := range c07Situations {
			for _, j := range []int{0, 1, 2} {
				layer := "dag"
				if (n % 4) == 3 {
					layer = "cache"
				}
				n++
				runC07(t, rep, c07Case{Seed: uint64(n), Packs: []int{2, 3, 2}, Operator: op.Name, J: j, I: n % 3, Situation: sit, Layer: layer})
			}
		}
	}
	for _, op := range c07IdOps {
		for _, sit := range c07IdSituations {
			for _, j := range []int{0, 1, 2} {
				n++
				runC07Id(t, rep, c07IdCase{Seed: uint64(n), NVersions: 3, Operator: op.Name, J: j, Situation: sit, Prop: "C07"})
			}
		}
	}
	rep.Note("catalogue", fmt.Sprintf("%d bug operators x %d situations x 3 positions + %d identity operators x %d situations x 3 positions = %d cases",
		len(c07BugOps), len(c07Situations), len(c07IdOps), len(c07IdSituations), n))
	rep.SetExhaustive(true)
}
