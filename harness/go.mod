module verif/harness

go 1.23

toolchain go1.23.5

require (
	github.com/MichaelMure/git-bug v0.0.0
	github.com/ProtonMail/go-crypto v1.0.0
	github.com/go-git/go-billy/v5 v5.5.0
	github.com/go-git/go-git/v5 v5.12.0
	github.com/gorilla/mux v1.8.1
	pgregory.net/rapid v1.3.0
)

require (
	dario.cat/mergo v1.0.0 // indirect
	github.com/99designs/gqlgen v0.17.49 // indirect
	github.com/99designs/keyring v1.2.2 // indirect
	github.com/RoaringBitmap/roaring v1.9.4 // indirect
	github.com/agnivade/levenshtein v1.1.1 // indirect
	github.com/bits-and-blooms/bitset v1.13.0 // indirect
	github.com/blevesearch/bleve v1.0.14 // indirect
	github.com/blevesearch/go-porterstemmer v1.0.3 // indirect
	github.com/blevesearch/mmap-go v1.0.4 // indirect
	github.com/blevesearch/segment v0.9.1 // indirect
	github.com/blevesearch/snowballstem v0.9.0 // indirect
	github.com/blevesearch/zap/v11 v11.0.14 // indirect
	github.com/blevesearch/zap/v12 v12.0.14 // indirect
	github.com/blevesearch/zap/v13 v13.0.6 // indirect
	github.com/blevesearch/zap/v14 v14.0.5 // indirect
	github.com/blevesearch/zap/v15 v15.0.3 // indirect
	github.com/cheekybits/genny v1.0.0 // indirect
	github.com/cloudflare/circl v1.3.9 // indirect
	github.com/couchbase/vellum v1.0.2 // indirect
	github.com/cyphar/filepath-securejoin v0.3.0 // indirect
	github.com/davecgh/go-spew v1.1.1 // indirect
	github.com/dustin/go-humanize v1.0.1 // indirect
	github.com/dvsekhvalnov/jose2go v1.7.0 // indirect
	github.com/emirpasic/gods v1.18.1 // indirect
	github.com/fatih/color v1.17.0 // indirect
	github.com/go-git/gcfg v1.5.1-0.20230307220236-3a3c6141e376 // indirect
	github.com/godbus/dbus v0.0.0-20190726142602-4481cbc300e2 // indirect
	github.com/golang/groupcache v0.0.0-20210331224755-41bb18bfe9da // indirect
	github.com/golang/protobuf v1.5.4 // indirect
	github.com/golang/snappy v0.0.4 // indirect
	github.com/google/go-querystring v1.1.0 // indirect
	github.com/google/uuid v1.6.0 // indirect
	github.com/gorilla/websocket v1.5.3 // indirect
	github.com/gsterjov/go-libsecret v0.0.0-20161001094733-a6f4afe4910c // indirect
	github.com/hashicorp/go-cleanhttp v0.5.2 // indirect
	github.com/hashicorp/go-retryablehttp v0.7.7 // indirect
	github.com/hashicorp/golang-lru/v2 v2.0.7 // indirect
	github.com/jbenet/go-context v0.0.0-20150711004518-d14ea06fba99 // indirect
	github.com/kevinburke/ssh_config v1.2.0 // indirect
	github.com/mattn/go-colorable v0.1.13 // indirect
	github.com/mattn/go-isatty v0.0.20 // indirect
	github.com/mitchellh/mapstructure v1.5.0 // indirect
	github.com/mtibben/percent v0.2.1 // indirect
	github.com/pjbgf/sha1cd v0.3.0 // indirect
	github.com/pkg/errors v0.9.1 // indirect
	github.com/pmezard/go-difflib v1.0.0 // indirect
	github.com/sergi/go-diff v1.3.2-0.20230802210424-5b0b94c5c0d3 // indirect
	github.com/shurcooL/githubv4 v0.0.0-20240429030203-be2daab69064 // indirect
	github.com/shurcooL/graphql v0.0.0-20230722043721-ed46e5a46466 // indirect
	github.com/skeema/knownhosts v1.3.0 // indirect
	github.com/sosodev/duration v1.3.1 // indirect
	github.com/steveyen/gtreap v0.1.0 // indirect
	github.com/stretchr/testify v1.9.0 // indirect
	github.com/vektah/gqlparser/v2 v2.5.16 // indirect
	github.com/willf/bitset v1.1.11 // indirect
	github.com/xanzy/go-gitlab v0.107.0 // indirect
	github.com/xanzy/ssh-agent v0.3.3 // indirect
	go.etcd.io/bbolt v1.3.10 // indirect
	golang.org/x/crypto v0.26.0 // indirect
	golang.org/x/net v0.27.0 // indirect
	golang.org/x/oauth2 v0.22.0 // indirect
	golang.org/x/sync v0.8.0 // indirect
	golang.org/x/sys v0.23.0 // indirect
	golang.org/x/term v0.23.0 // indirect
	golang.org/x/text v0.17.0 // indirect
	golang.org/x/time v0.5.0 // indirect
	google.golang.org/protobuf v1.34.2 // indirect
	gopkg.in/warnings.v0 v0.1.2 // indirect
	gopkg.in/yaml.v3 v3.0.1 // indirect
)

replace github.com/MichaelMure/git-bug => /repo

// copied from /repo/go.mod (replace directives are not inherited)
replace github.com/praetorian-inc/gokart v0.5.1 => github.com/selesy/gokart v0.5.2-rc1

replace github.com/willf/bitset v1.1.11 => github.com/bits-and-blooms/bitset v1.1.11
