// Package faultindex wraps a repository.ClockedRepo so that one write of one of its search indexes fails
// (a full disk, an index file locked by another tool) while everything else keeps working.
package faultindex

import (
	"errors"
	"sync"

	"github.com/MichaelMure/git-bug/repository"
)

var ErrIndex = errors.New("faultindex: injected failure of one search index update")

type Repo struct {
	repository.ClockedRepo
	Namespace string // the index whose update fails ("bugs", "identities")
	mu        sync.Mutex
	armed     bool
	failAt    int
	calls     int
	Failed    int // number of injected failures so far
}

func New(inner repository.ClockedRepo, namespace string) *Repo {
	return &Repo{ClockedRepo: inner, Namespace: namespace}
}

// Arm makes the n-th IndexOne from now on (0 = the next one) fail, once.
func (r *Repo) Arm(n int) {
	r.mu.Lock()
	r.armed, r.failAt, r.calls = true, n, 0
	r.mu.Unlock()
}

func (r *Repo) hit() bool {
	r.mu.Lock()
	defer r.mu.Unlock()
	if !r.armed {
		return false
	}
	k := r.calls
	r.calls++
	if k == r.failAt {
		r.armed = false
		r.Failed++
		return true
	}
	return false
}

func (r *Repo) GetIndex(name string) (repository.Index, error) {
	idx, err := r.ClockedRepo.GetIndex(name)
	if err != nil || name != r.Namespace {
		return idx, err
	}
	return &index{Index: idx, r: r}, nil
}

type index struct {
	repository.Index
	r *Repo
}

func (i *index) IndexOne(id string, texts []string) error {
	if i.r.hit() {
		return ErrIndex
	}
	return i.Index.IndexOne(id, texts)
}
