// Package ondisk is an independent reader and writer of the documented git
// layout of git-bug entities (doc/model.md): commits, trees with
// "version-N", "edit-clock-N", "create-clock-N", "ops", "extra" entries, and
// the JSON operation pack. It only uses the storage primitives of
// repository.RepoData (blobs, trees, commits, refs) and shares no code with
// entity/dag: ids are derived here as sha256 of the raw stored bytes.
package ondisk

import (
	"crypto/sha256"
	"encoding/hex"
	"encoding/json"
	"fmt"
	"sort"
	"strconv"
	"strings"

	"github.com/MichaelMure/git-bug/repository"

	"verif/harness/internal/refmodel"
)

func Sha(data []byte) string {
	s := sha256.Sum256(data)
	return hex.EncodeToString(s[:])
}

type Pack struct {
	Commit      string
	Parents     []string
	Entries     []repository.TreeEntry
	Version     int
	HasVersion  bool
	EditClock   uint64
	CreateClock uint64
	HasEdit     bool
	HasCreate   bool
	HasOps      bool
	OpsBlob     []byte
	PackId      string
	AuthorId    string
	RawOps      []json.RawMessage
	OpIds       []string
	ExtraFiles  []string // blob hashes referenced under "extra"
	Signed      bool
}

type DAG struct {
	Head  string
	Packs map[string]*Pack
	Order []string // commits in discovery order (head first)
}

// ReadDAG walks every commit reachable from ref.
func ReadDAG(repo repository.RepoData, ref string) (*DAG, error) {
	head, err := repo.ResolveRef(ref)
	if err != nil {
		return nil, err
	}
	return ReadDAGAt(repo, string(head))
}

func ReadDAGAt(repo repository.RepoData, head string) (*DAG, error) {
	d := &DAG{Head: head, Packs: map[string]*Pack{}}
	stack := []string{head}
	for len(stack) > 0 {
		h := stack[len(stack)-1]
		stack = stack[:len(stack)-1]
		if _, ok := d.Packs[h]; ok {
			continue
		}
		p, err := ReadPack(repo, h)
		if err != nil {
			return nil, fmt.Errorf("commit %s: %w", h, err)
		}
		d.Packs[h] = p
		d.Order = append(d.Order, h)
		stack = append(stack, p.Parents...)
	}
	return d, nil
}

// ReadPack parses one commit.
func ReadPack(repo repository.RepoData, commit string) (*Pack, error) {
	c, err := repo.ReadCommit(repository.Hash(commit))
	if err != nil {
		return nil, err
	}
	p := &Pack{Commit: commit, Signed: c.Signature != nil}
	for _, par := range c.Parents {
		p.Parents = append(p.Parents, string(par))
	}
	entries, err := repo.ReadTree(c.TreeHash)
	if err != nil {
		return nil, err
	}
	p.Entries = entries
	for _, e := range entries {
		switch {
		case strings.HasPrefix(e.Name, "version-"):
			if v, err := strconv.Atoi(strings.TrimPrefix(e.Name, "version-")); err == nil && !p.HasVersion {
				p.Version, p.HasVersion = v, true
			}
		case strings.HasPrefix(e.Name, "edit-clock-"):
			if v, err := strconv.ParseUint(strings.TrimPrefix(e.Name, "edit-clock-"), 10, 64); err == nil {
				p.EditClock, p.HasEdit = v, true
			}
		case strings.HasPrefix(e.Name, "create-clock-"):
			if v, err := strconv.ParseUint(strings.TrimPrefix(e.Name, "create-clock-"), 10, 64); err == nil {
				p.CreateClock, p.HasCreate = v, true
			}
		case e.Name == "ops":
			data, err := repo.ReadData(e.Hash)
			if err != nil {
				return nil, err
			}
			p.HasOps = true
			p.OpsBlob = data
			p.PackId = Sha(data)
			var aux struct {
				Author struct {
					Id string `json:"id"`
				} `json:"author"`
				Ops []json.RawMessage `json:"ops"`
			}
			if err := json.Unmarshal(data, &aux); err != nil {
				return nil, fmt.Errorf("ops blob: %w", err)
			}
			p.AuthorId = aux.Author.Id
			p.RawOps = aux.Ops
			for _, raw := range aux.Ops {
				p.OpIds = append(p.OpIds, Sha(raw))
			}
		case e.Name == "extra":
			sub, err := repo.ReadTree(e.Hash)
			if err != nil {
				return nil, err
			}
			for _, s := range sub {
				p.ExtraFiles = append(p.ExtraFiles, string(s.Hash))
			}
		}
	}
	return p, nil
}

// RefOrder is the order the statement prescribes: packs sorted by logical edit
// time, then by the pack's content identifier; operations in stored order.
func (d *DAG) RefOrder() []*Pack {
	packs := make([]*Pack, 0, len(d.Packs))
	for _, p := range d.Packs {
		packs = append(packs, p)
	}
	sort.Slice(packs, func(i, j int) bool {
		if packs[i].EditClock != packs[j].EditClock {
			return packs[i].EditClock < packs[j].EditClock
		}
		return packs[i].PackId < packs[j].PackId
	})
	return packs
}

// OpIds returns the operation ids in reference order.
func (d *DAG) OpIds() []string {
	var out []string
	for _, p := range d.RefOrder() {
		out = append(out, p.OpIds...)
	}
	return out
}

// HasMerge tells whether some commit has two parents.
func (d *DAG) HasMerge() bool {
	for _, p := range d.Packs {
		if len(p.Parents) > 1 {
			return true
		}
	}
	return false
}

// Roots lists the commits without parent.
func (d *DAG) Roots() []string {
	var out []string
	for h, p := range d.Packs {
		if len(p.Parents) == 0 {
			out = append(out, h)
		}
	}
	sort.Strings(out)
	return out
}

// MaxClocks gives the highest edit and create time stored in the DAG.
func (d *DAG) MaxClocks() (edit, create uint64) {
	for _, p := range d.Packs {
		if p.EditClock > edit {
			edit = p.EditClock
		}
		if p.CreateClock > create {
			create = p.CreateClock
		}
	}
	return
}

// rawOp mirrors the documented JSON of every operation kind.
type rawOp struct {
	Type        int               `json:"type"`
	Timestamp   int64             `json:"timestamp"`
	Nonce       []byte            `json:"nonce"`
	Metadata    map[string]string `json:"metadata"`
	Title       string            `json:"title"`
	Was         string            `json:"was"`
	Message     string            `json:"message"`
	Files       []string          `json:"files"`
	Target      string            `json:"target"`
	Added       []string          `json:"added"`
	Removed     []string          `json:"removed"`
	Status      int               `json:"status"`
	NewMetadata map[string]string `json:"new_metadata"`
}

// ROps decodes the stored operations, in reference order, into plain values
// for the reference interpreter.
func (d *DAG) ROps() ([]refmodel.ROp, error) {
	var out []refmodel.ROp
	for _, p := range d.RefOrder() {
		for i, raw := range p.RawOps {
			var r rawOp
			if err := json.Unmarshal(raw, &r); err != nil {
				return nil, err
			}
			kind, ok := refmodel.TypeToKind[r.Type]
			if !ok {
				return nil, fmt.Errorf("unknown operation type %d", r.Type)
			}
			out = append(out, refmodel.ROp{
				Id: p.OpIds[i], Kind: kind, Author: p.AuthorId, Time: r.Timestamp,
				Title: r.Title, Was: r.Was, Message: r.Message, Files: r.Files, Target: r.Target,
				Added: r.Added, Removed: r.Removed, Status: r.Status, Meta: r.Metadata, NewMeta: r.NewMetadata,
			})
		}
	}
	return out, nil
}

// ---------------------------------------------------------------- writer

// PackSpec describes a commit to write.
type PackSpec struct {
	OpsBlob     []byte // raw content of "ops"; nil = no "ops" entry
	Version     string // text after "version-"; "" = no version entry
	EditClock   string // text after "edit-clock-"; "" = none
	CreateClock string // text after "create-clock-"; "" = none
	Extra       []repository.TreeEntry
	Parents     []string
}

// OpsBlob renders an operation pack exactly as documented.
func OpsBlob(authorId string, ops []json.RawMessage) []byte {
	if ops == nil {
		ops = []json.RawMessage{}
	}
	b, err := json.Marshal(struct {
		Author struct {
			Id string `json:"id"`
		} `json:"author"`
		Ops []json.RawMessage `json:"ops"`
	}{Author: struct {
		Id string `json:"id"`
	}{authorId}, Ops: ops})
	if err != nil {
		panic(err)
	}
	return b
}

// EmptyOpsBlob is what a merge commit stores: an author and a null list.
func EmptyOpsBlob(authorId string) []byte {
	return []byte(`{"author":{"id":"` + authorId + `"},"ops":null}`)
}

// WritePack stores blob, tree and commit and returns the commit hash.
func WritePack(repo repository.RepoData, s PackSpec) (string, error) {
	empty, err := repo.StoreData([]byte{})
	if err != nil {
		return "", err
	}
	var tree []repository.TreeEntry
	if s.Version != "" {
		tree = append(tree, repository.TreeEntry{ObjectType: repository.Blob, Hash: empty, Name: "version-" + s.Version})
	}
	if s.OpsBlob != nil {
		h, err := repo.StoreData(s.OpsBlob)
		if err != nil {
			return "", err
		}
		tree = append(tree, repository.TreeEntry{ObjectType: repository.Blob, Hash: h, Name: "ops"})
	}
	if s.EditClock != "" {
		tree = append(tree, repository.TreeEntry{ObjectType: repository.Blob, Hash: empty, Name: "edit-clock-" + s.EditClock})
	}
	if s.CreateClock != "" {
		tree = append(tree, repository.TreeEntry{ObjectType: repository.Blob, Hash: empty, Name: "create-clock-" + s.CreateClock})
	}
	tree = append(tree, s.Extra...)
	th, err := repo.StoreTree(tree)
	if err != nil {
		return "", err
	}
	var parents []repository.Hash
	for _, p := range s.Parents {
		parents = append(parents, repository.Hash(p))
	}
	ch, err := repo.StoreCommit(th, parents...)
	if err != nil {
		return "", err
	}
	return string(ch), nil
}

// IdentityVersion renders one identity version blob in the documented format.
type IdentityVersion struct {
	Version  int               `json:"version"`
	Times    map[string]uint64 `json:"times"`
	UnixTime int64             `json:"unix_time"`
	Name     string            `json:"name,omitempty"`
	Email    string            `json:"email,omitempty"`
	Login    string            `json:"login,omitempty"`
	Avatar   string            `json:"avatar_url,omitempty"`
	Keys     []json.RawMessage `json:"pub_keys,omitempty"`
	Nonce    []byte            `json:"nonce"`
	Metadata map[string]string `json:"metadata,omitempty"`
}

// WriteIdentity stores a chain of versions and the ref refs/identities/<id>
// (or under prefix if given, e.g. "refs/remotes/origin/identities/"). Returns
// the identity id and the version ids.
func WriteIdentity(repo repository.RepoData, refPrefix string, versions []IdentityVersion) (id string, versionIds []string, head string, err error) {
	var parent string
	for _, v := range versions {
		if v.Times == nil {
			v.Times = map[string]uint64{}
		}
		blob, merr := json.Marshal(v)
		if merr != nil {
			return "", nil, "", merr
		}
		versionIds = append(versionIds, Sha(blob))
		parent, err = WriteIdentityBlob(repo, blob, parent)
		if err != nil {
			return "", nil, "", err
		}
	}
	id = versionIds[0]
	if refPrefix == "" {
		refPrefix = "refs/identities/"
	}
	err = repo.UpdateRef(refPrefix+id, repository.Hash(parent))
	return id, versionIds, parent, err
}

// WriteIdentityBlob stores one version commit on top of parent ("" = root).
func WriteIdentityBlob(repo repository.RepoData, blob []byte, parent string) (string, error) {
	bh, err := repo.StoreData(blob)
	if err != nil {
		return "", err
	}
	th, err := repo.StoreTree([]repository.TreeEntry{{ObjectType: repository.Blob, Hash: bh, Name: "version"}})
	if err != nil {
		return "", err
	}
	var ch repository.Hash
	if parent == "" {
		ch, err = repo.StoreCommit(th)
	} else {
		ch, err = repo.StoreCommit(th, repository.Hash(parent))
	}
	return string(ch), err
}

// ReadIdentityChain returns the version ids (sha256 of each stored blob), root first.
func ReadIdentityChain(repo repository.RepoData, ref string) ([]string, error) {
	head, err := repo.ResolveRef(ref)
	if err != nil {
		return nil, err
	}
	var ids []string
	h := string(head)
	for h != "" {
		c, err := repo.ReadCommit(repository.Hash(h))
		if err != nil {
			return nil, err
		}
		entries, err := repo.ReadTree(c.TreeHash)
		if err != nil {
			return nil, err
		}
		found := false
		for _, e := range entries {
			if e.Name == "version" {
				data, err := repo.ReadData(e.Hash)
				if err != nil {
					return nil, err
				}
				ids = append([]string{Sha(data)}, ids...)
				found = true
			}
		}
		if !found {
			return nil, fmt.Errorf("commit %s has no version entry", h)
		}
		if len(c.Parents) == 0 {
			h = ""
		} else {
			h = string(c.Parents[0])
		}
	}
	return ids, nil
}
