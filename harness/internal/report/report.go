// Package report collects, per property, what a run explored (cases, distinct
// non-trivial fingerprints, class histogram, samples), classifies oracle
// failures against the committed list of known findings, and writes replay
// files. The driver (/verif/check) aggregates the summaries of all processes
// of a run into /verif/evidence/<id>.json.
package report

import (
	"crypto/sha256"
	"encoding/hex"
	"encoding/json"
	"fmt"
	"os"
	"path/filepath"
	"sort"
	"sync"
	"time"
)

// TB is the subset of testing.TB / rapid.T the oracles need.
type TB interface {
	Fatalf(format string, args ...any)
	Logf(format string, args ...any)
	Helper()
}

type knownFinding struct {
	Property  string `json:"property"`
	Signature string `json:"signature"`
	WhatFails string `json:"what_fails"`
	Status    string `json:"status"`
}

type Violation struct {
	Signature string `json:"signature"`
	Detail    string `json:"detail"`
	Replay    string `json:"replay"`
}

type Summary struct {
	Property     string            `json:"property"`
	Test         string            `json:"test"`
	Pid          int               `json:"pid"`
	Evaluations  int               `json:"evaluations"`
	Nontrivial   int               `json:"nontrivial"`
	Fingerprints []string          `json:"fingerprints"`
	Classes      map[string]int    `json:"classes"`
	Samples      []json.RawMessage `json:"samples"`
	Known        map[string]int    `json:"known"`
	KnownWhat    map[string]string `json:"known_what"`
	Excluded     map[string]int    `json:"excluded_known"`
	Violations   []Violation       `json:"violations"`
	Notes        map[string]any    `json:"notes"`
	Exhaustive   bool              `json:"exhaustive"`
	WallS        float64           `json:"wall_s"`
	Complete     bool              `json:"complete"`
}

type Reporter struct {
	mu       sync.Mutex
	prop     string
	test     string
	start    time.Time
	known    map[string]string // signature -> what fails (open entries of this property)
	fps      map[string]struct{}
	sum      Summary
	maxSamp  int
	outDir   string
	replayTo string
	closed   bool
}

var registry sync.Map // test name -> *Reporter

// For returns the (process-wide) reporter of a test function.
func For(prop, test string) *Reporter {
	if r, ok := registry.Load(test); ok {
		return r.(*Reporter)
	}
	r := &Reporter{
		prop: prop, test: test, start: time.Now(),
		known: map[string]string{}, fps: map[string]struct{}{},
		maxSamp:  6,
		outDir:   os.Getenv("VERIF_OUT"),
		replayTo: os.Getenv("VERIF_REPLAY_DIR"),
	}
	r.sum = Summary{Property: prop, Test: test, Pid: os.Getpid(),
		Classes: map[string]int{}, Known: map[string]int{}, KnownWhat: map[string]string{},
		Excluded: map[string]int{}, Notes: map[string]any{}}
	if p := os.Getenv("VERIF_KNOWN"); p != "" {
		if data, err := os.ReadFile(p); err == nil {
			var doc struct {
				Findings []knownFinding `json:"findings"`
			}
			if json.Unmarshal(data, &doc) == nil {
				for _, k := range doc.Findings {
					if k.Property == prop && k.Status == "open" {
						r.known[k.Signature] = k.WhatFails
					}
				}
			}
		}
	}
	actual, _ := registry.LoadOrStore(test, r)
	return actual.(*Reporter)
}

// Case records one explored case. fingerprint abstracts the case (shape, not
// concrete ids); nontrivial is decided by the property's stated rule; sample is
// written out verbatim for the first few cases.
func (r *Reporter) Case(fingerprint string, nontrivial bool, classes []string, sample any) {
	r.mu.Lock()
	defer r.mu.Unlock()
	r.sum.Evaluations++
	for _, c := range classes {
		r.sum.Classes[c]++
	}
	if nontrivial {
		r.sum.Nontrivial++
		h := sha256.Sum256([]byte(fingerprint))
		k := hex.EncodeToString(h[:8])
		if _, seen := r.fps[k]; !seen {
			r.fps[k] = struct{}{}
			if len(r.sum.Samples) < r.maxSamp && sample != nil {
				if b, err := json.Marshal(sample); err == nil && len(b) < 20000 {
					r.sum.Samples = append(r.sum.Samples, b)
				}
			}
		}
	}
}

// Count adds n evaluations that share nothing worth sampling (used by
// exhaustive enumerations that would otherwise produce millions of lines).
func (r *Reporter) Count(n int, class string) {
	r.mu.Lock()
	defer r.mu.Unlock()
	r.sum.Evaluations += n
	if class != "" {
		r.sum.Classes[class] += n
	}
}

func (r *Reporter) Class(class string, n int) {
	r.mu.Lock()
	defer r.mu.Unlock()
	r.sum.Classes[class] += n
}

func (r *Reporter) Excluded(sig string, n int) {
	r.mu.Lock()
	defer r.mu.Unlock()
	r.sum.Excluded[sig] += n
}

func (r *Reporter) Note(key string, v any) {
	r.mu.Lock()
	defer r.mu.Unlock()
	r.sum.Notes[key] = v
}

func (r *Reporter) SetExhaustive(b bool) {
	r.mu.Lock()
	defer r.mu.Unlock()
	r.sum.Exhaustive = b
}

// IsKnown tells whether sig is an open entry of known_findings.json.
func (r *Reporter) IsKnown(sig string) bool {
	_, ok := r.known[sig]
	return ok
}

// Fail reports an oracle failure. If the signature is an open known finding it
// is counted and Fail returns true: the caller abandons the case (the world may
// be corrupt) and the search goes on. Otherwise the replay is written and the
// test fails (Fatalf does not return).
func (r *Reporter) Fail(tb TB, sig, detail string, replayCase any) bool {
	tb.Helper()
	r.mu.Lock()
	if what, ok := r.known[sig]; ok {
		r.sum.Known[sig]++
		r.sum.KnownWhat[sig] = what
		r.mu.Unlock()
		return true
	}
	path := r.writeReplayLocked(sig, detail, replayCase)
	// keep only the latest violation per signature; the last one overall is the
	// minimal (post-shrink) one
	kept := r.sum.Violations[:0]
	for _, v := range r.sum.Violations {
		if v.Signature != sig {
			kept = append(kept, v)
		}
	}
	d := detail
	if len(d) > 4000 {
		d = d[:4000] + "…"
	}
	r.sum.Violations = append(kept, Violation{Signature: sig, Detail: d, Replay: path})
	r.flushLocked(false)
	r.mu.Unlock()
	tb.Fatalf("ORACLE-FAILURE property=%s signature=%q replay=%s\n%s", r.prop, sig, path, detail)
	return false
}

func (r *Reporter) writeReplayLocked(sig, detail string, replayCase any) string {
	dir := r.replayTo
	if dir == "" {
		dir = os.TempDir()
	}
	dir = filepath.Join(dir, r.prop)
	_ = os.MkdirAll(dir, 0o755)
	h := sha256.Sum256([]byte(r.test + "|" + sig))
	path := filepath.Join(dir, fmt.Sprintf("%s-%s.json", r.test, hex.EncodeToString(h[:6])))
	doc := map[string]any{
		"property":  r.prop,
		"test":      r.test,
		"signature": sig,
		"detail":    detail,
		"case":      replayCase,
	}
	b, err := json.MarshalIndent(doc, "", " ")
	if err != nil {
		b, _ = json.Marshal(map[string]any{"property": r.prop, "test": r.test, "signature": sig,
			"detail": detail, "case_error": err.Error()})
	}
	_ = os.WriteFile(path, b, 0o644)
	return path
}

// Close writes the summary of this process for the driver.
func (r *Reporter) Close() {
	r.mu.Lock()
	defer r.mu.Unlock()
	r.flushLocked(true)
}

func (r *Reporter) flushLocked(complete bool) {
	if r.outDir == "" {
		return
	}
	s := r.sum
	s.Complete = complete
	s.WallS = time.Since(r.start).Seconds()
	s.Fingerprints = make([]string, 0, len(r.fps))
	for k := range r.fps {
		s.Fingerprints = append(s.Fingerprints, k)
	}
	sort.Strings(s.Fingerprints)
	b, err := json.Marshal(s)
	if err != nil {
		return
	}
	_ = os.MkdirAll(r.outDir, 0o755)
	tmp := filepath.Join(r.outDir, fmt.Sprintf(".%s.%d.tmp", r.test, os.Getpid()))
	if os.WriteFile(tmp, b, 0o644) == nil {
		_ = os.Rename(tmp, filepath.Join(r.outDir, fmt.Sprintf("%s.%d.json", r.test, os.Getpid())))
	}
}
