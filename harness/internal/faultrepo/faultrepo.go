// Package faultrepo wraps a repository.ClockedRepo: it records the ordered
// list of storage mutations a write path issues and can make the k-th
// mutation, and every call after it (reads included), fail — as for a process
// that died just before that mutation.
package faultrepo

import (
	"errors"
	"fmt"
	"sync"

	"github.com/ProtonMail/go-crypto/openpgp"

	"github.com/MichaelMure/git-bug/repository"
	"github.com/MichaelMure/git-bug/util/lamport"
)

var ErrCrashed = errors.New("faultrepo: simulated process death")

type Repo struct {
	repository.ClockedRepo
	mu      sync.Mutex
	Log     []string // mutation names in order
	AbortAt int      // index of the first mutation that does not happen; -1 = never
	Dead    bool
	// Transient: the mutation #AbortAt fails (disk full, permission, a lock taken by another tool) and is not
	// performed, but the process lives on and everything after it works again
	Transient bool
	// Hook, when set, runs just before mutation #HookAt is performed (once): what another goroutine or process
	// does at that very moment
	Hook   func()
	HookAt int
}

var ErrTransient = errors.New("faultrepo: injected failure of one storage operation")

func New(inner repository.ClockedRepo, abortAt int) *Repo {
	return &Repo{ClockedRepo: inner, AbortAt: abortAt}
}

// step registers a mutation; it returns an error if the process is dead by now.
func (r *Repo) step(name string) error {
	r.mu.Lock()
	if h := r.Hook; h != nil && len(r.Log) == r.HookAt {
		r.Hook = nil
		r.mu.Unlock()
		h()
		r.mu.Lock()
	}
	defer r.mu.Unlock()
	if r.Dead {
		return ErrCrashed
	}
	if r.AbortAt >= 0 && len(r.Log) == r.AbortAt {
		if r.Transient {
			r.Log = append(r.Log, name+"(failed)")
			return ErrTransient
		}
		r.Dead = true
		return ErrCrashed
	}
	r.Log = append(r.Log, name)
	return nil
}

func (r *Repo) alive() error {
	r.mu.Lock()
	defer r.mu.Unlock()
	if r.Dead {
		return ErrCrashed
	}
	return nil
}

// ---- mutations

func (r *Repo) StoreData(data []byte) (repository.Hash, error) {
	if err := r.step("StoreData"); err != nil {
		return "", err
	}
	return r.ClockedRepo.StoreData(data)
}

func (r *Repo) StoreTree(mapping []repository.TreeEntry) (repository.Hash, error) {
	if err := r.step("StoreTree"); err != nil {
		return "", err
	}
	return r.ClockedRepo.StoreTree(mapping)
}

func (r *Repo) StoreCommit(treeHash repository.Hash, parents ...repository.Hash) (repository.Hash, error) {
	if err := r.step("StoreCommit"); err != nil {
		return "", err
	}
	return r.ClockedRepo.StoreCommit(treeHash, parents...)
}

func (r *Repo) StoreSignedCommit(treeHash repository.Hash, signKey *openpgp.Entity, parents ...repository.Hash) (repository.Hash, error) {
	if err := r.step("StoreSignedCommit"); err != nil {
		return "", err
	}
	return r.ClockedRepo.StoreSignedCommit(treeHash, signKey, parents...)
}

func (r *Repo) UpdateRef(ref string, hash repository.Hash) error {
	if err := r.step("UpdateRef " + kindOfRef(ref)); err != nil {
		return err
	}
	return r.ClockedRepo.UpdateRef(ref, hash)
}

func (r *Repo) CopyRef(source, dest string) error {
	if err := r.step("CopyRef " + kindOfRef(dest)); err != nil {
		return err
	}
	return r.ClockedRepo.CopyRef(source, dest)
}

func (r *Repo) RemoveRef(ref string) error {
	if err := r.step("RemoveRef " + kindOfRef(ref)); err != nil {
		return err
	}
	return r.ClockedRepo.RemoveRef(ref)
}

func (r *Repo) Increment(name string) (lamport.Time, error) {
	if err := r.step("Increment " + name); err != nil {
		return 0, err
	}
	return r.ClockedRepo.Increment(name)
}

func (r *Repo) Witness(name string, time lamport.Time) error {
	if err := r.step("Witness " + name); err != nil {
		return err
	}
	return r.ClockedRepo.Witness(name, time)
}

func (r *Repo) FetchRefs(remote string, prefixes ...string) (string, error) {
	if err := r.step(fmt.Sprintf("FetchRefs %v", prefixes)); err != nil {
		return "", err
	}
	return r.ClockedRepo.FetchRefs(remote, prefixes...)
}

func (r *Repo) PushRefs(remote string, prefixes ...string) (string, error) {
	if err := r.step(fmt.Sprintf("PushRefs %v", prefixes)); err != nil {
		return "", err
	}
	return r.ClockedRepo.PushRefs(remote, prefixes...)
}

// ---- reads die with the process too

func (r *Repo) ReadData(hash repository.Hash) ([]byte, error) {
	if err := r.alive(); err != nil {
		return nil, err
	}
	return r.ClockedRepo.ReadData(hash)
}

func (r *Repo) ReadTree(hash repository.Hash) ([]repository.TreeEntry, error) {
	if err := r.alive(); err != nil {
		return nil, err
	}
	return r.ClockedRepo.ReadTree(hash)
}

func (r *Repo) ReadCommit(hash repository.Hash) (repository.Commit, error) {
	if err := r.alive(); err != nil {
		return repository.Commit{}, err
	}
	return r.ClockedRepo.ReadCommit(hash)
}

func (r *Repo) ResolveRef(ref string) (repository.Hash, error) {
	if err := r.alive(); err != nil {
		return "", err
	}
	return r.ClockedRepo.ResolveRef(ref)
}

func (r *Repo) ListRefs(prefix string) ([]string, error) {
	if err := r.alive(); err != nil {
		return nil, err
	}
	return r.ClockedRepo.ListRefs(prefix)
}

func (r *Repo) RefExist(ref string) (bool, error) {
	if err := r.alive(); err != nil {
		return false, err
	}
	return r.ClockedRepo.RefExist(ref)
}

func (r *Repo) ListCommits(ref string) ([]repository.Hash, error) {
	if err := r.alive(); err != nil {
		return nil, err
	}
	return r.ClockedRepo.ListCommits(ref)
}

func (r *Repo) AllClocks() (map[string]lamport.Clock, error) {
	if err := r.alive(); err != nil {
		return nil, err
	}
	return r.ClockedRepo.AllClocks()
}

func kindOfRef(ref string) string {
	switch {
	case len(ref) > 10 && ref[:10] == "refs/bugs/":
		return "refs/bugs"
	case len(ref) > 16 && ref[:16] == "refs/identities/":
		return "refs/identities"
	case len(ref) > 13 && ref[:13] == "refs/remotes/":
		return "refs/remotes"
	}
	return "other"
}
