// Package refmodel is an independent reference interpreter of bug operations,
// written from the property statement (C10) and doc/model.md, not from
// entities/bug. It works on plain values (ROp) that are produced either from a
// generated specification or by parsing the raw JSON stored in git.
package refmodel

import (
	"fmt"
	"sort"
	"strings"
)

const (
	KCreate  = "create"
	KTitle   = "title"
	KComment = "comment"
	KStatus  = "status"
	KLabel   = "label"
	KEdit    = "edit"
	KNoop    = "noop"
	KMeta    = "meta"
)

// TypeToKind maps the documented numeric operation types.
var TypeToKind = map[int]string{1: KCreate, 2: KTitle, 3: KComment, 4: KStatus, 5: KLabel, 6: KEdit, 7: KNoop, 8: KMeta}

// ROp is one operation as plain data.
type ROp struct {
	Id      string
	Kind    string
	Author  string // identity id
	Time    int64
	Title   string
	Was     string
	Message string
	Files   []string
	Target  string
	Added   []string
	Removed []string
	Status  int
	Meta    map[string]string // metadata carried by the operation itself
	NewMeta map[string]string // set-metadata payload
}

type Comment struct {
	OpId    string
	Author  string
	Message string
	Files   []string
}

type Item struct {
	Kind    string
	OpId    string
	Author  string
	Message string
	Files   []string
	History []string
	Title   string
	Was     string
	Status  int
	Added   []string
	Removed []string
}

type State struct {
	Id           string
	Title        string
	Status       int
	Labels       []string
	Comments     []Comment
	Author       string
	Actors       []string // sorted, duplicate-free
	Participants []string // sorted, duplicate-free
	ActorDups    bool     // set by the projection of the real snapshot when a list holds an id twice
	Timeline     []Item
	Meta         map[string]map[string]string // op id -> effective metadata
	OpIds        []string
	// MustActors is the lower bound the statement gives for actors, MayActors the upper bound.
	MustActors []string
	MayActors  []string
}

// Interpret applies the documented semantics.
func Interpret(ops []ROp) State {
	st := State{Status: 1, Meta: map[string]map[string]string{}}
	actors := map[string]bool{}
	parts := map[string]bool{}
	all := map[string]bool{}
	labels := map[string]bool{}
	extra := map[string]map[string]string{} // first writer wins
	orig := map[string]map[string]string{}
	commentIdx := map[string]int{}  // op id -> index in Comments
	timelineIdx := map[string]int{} // op id -> index in Timeline (comment items only)

	for i, op := range ops {
		all[op.Author] = true
		orig[op.Id] = op.Meta
		st.OpIds = append(st.OpIds, op.Id)
		switch op.Kind {
		case KCreate:
			if i != 0 {
				// a second create is not a valid bug; the generator never produces it
				continue
			}
			st.Id = op.Id
			st.Title = op.Title
			st.Author = op.Author
			actors[op.Author] = true
			parts[op.Author] = true
			commentIdx[op.Id] = len(st.Comments)
			st.Comments = append(st.Comments, Comment{OpId: op.Id, Author: op.Author, Message: op.Message, Files: op.Files})
			timelineIdx[op.Id] = len(st.Timeline)
			st.Timeline = append(st.Timeline, Item{Kind: KCreate, OpId: op.Id, Author: op.Author, Message: op.Message, Files: op.Files, History: []string{op.Message}})
		case KComment:
			actors[op.Author] = true
			parts[op.Author] = true
			commentIdx[op.Id] = len(st.Comments)
			st.Comments = append(st.Comments, Comment{OpId: op.Id, Author: op.Author, Message: op.Message, Files: op.Files})
			timelineIdx[op.Id] = len(st.Timeline)
			st.Timeline = append(st.Timeline, Item{Kind: KComment, OpId: op.Id, Author: op.Author, Message: op.Message, Files: op.Files, History: []string{op.Message}})
		case KEdit:
			ci, ok := commentIdx[op.Target]
			if !ok {
				continue // unknown target or not a comment: changes nothing
			}
			actors[op.Author] = true
			st.Comments[ci].Message = op.Message
			st.Comments[ci].Files = op.Files
			ti := timelineIdx[op.Target]
			st.Timeline[ti].Message = op.Message
			st.Timeline[ti].Files = op.Files
			st.Timeline[ti].History = append(st.Timeline[ti].History, op.Message)
		case KTitle:
			actors[op.Author] = true
			st.Title = op.Title
			st.Timeline = append(st.Timeline, Item{Kind: KTitle, OpId: op.Id, Author: op.Author, Title: op.Title, Was: op.Was})
		case KStatus:
			actors[op.Author] = true
			st.Status = op.Status
			st.Timeline = append(st.Timeline, Item{Kind: KStatus, OpId: op.Id, Author: op.Author, Status: op.Status})
		case KLabel:
			actors[op.Author] = true
			for _, l := range op.Added {
				labels[l] = true
			}
			for _, l := range op.Removed {
				delete(labels, l)
			}
			st.Timeline = append(st.Timeline, Item{Kind: KLabel, OpId: op.Id, Author: op.Author, Added: op.Added, Removed: op.Removed})
		case KMeta:
			// applies to an operation that precedes it
			found := false
			for _, prev := range ops[:i] {
				if prev.Id == op.Target {
					found = true
					break
				}
			}
			if found {
				m := extra[op.Target]
				if m == nil {
					m = map[string]string{}
					extra[op.Target] = m
				}
				for k, v := range op.NewMeta {
					if _, has := m[k]; !has {
						m[k] = v
					}
				}
			}
		case KNoop:
		}
	}

	for l := range labels {
		st.Labels = append(st.Labels, l)
	}
	sort.Strings(st.Labels)
	st.MustActors = keys(actors)
	st.MayActors = keys(all)
	st.Actors = st.MustActors
	st.Participants = keys(parts)
	for _, op := range ops {
		m := map[string]string{}
		for k, v := range extra[op.Id] {
			m[k] = v
		}
		for k, v := range orig[op.Id] {
			m[k] = v // an original key is never overridden
		}
		st.Meta[op.Id] = m
	}
	return st
}

func keys(m map[string]bool) []string {
	out := make([]string, 0, len(m))
	for k := range m {
		out = append(out, k)
	}
	sort.Strings(out)
	return out
}

func eqStrings(a, b []string) bool {
	if len(a) != len(b) {
		return false
	}
	for i := range a {
		if a[i] != b[i] {
			return false
		}
	}
	return true
}

func subset(a, b []string) bool {
	m := map[string]bool{}
	for _, x := range b {
		m[x] = true
	}
	for _, x := range a {
		if !m[x] {
			return false
		}
	}
	return true
}

// Diff compares the reference state with the projection of the real snapshot.
// It returns "" when they agree, otherwise "<aspect>: <detail>" where aspect is
// a stable short name usable in a signature.
func Diff(want, got State) (aspect, detail string) {
	if want.Id != got.Id {
		return "id", fmt.Sprintf("want %s got %s", want.Id, got.Id)
	}
	if want.Title != got.Title {
		return "title", fmt.Sprintf("want %q got %q", want.Title, got.Title)
	}
	if want.Status != got.Status {
		return "status", fmt.Sprintf("want %d got %d", want.Status, got.Status)
	}
	if !eqStrings(want.Labels, got.Labels) {
		return "labels", fmt.Sprintf("want %q got %q", want.Labels, got.Labels)
	}
	if want.Author != got.Author {
		return "author", fmt.Sprintf("want %s got %s", want.Author, got.Author)
	}
	if len(want.Comments) != len(got.Comments) {
		return "comments-count", fmt.Sprintf("want %d got %d", len(want.Comments), len(got.Comments))
	}
	for i := range want.Comments {
		w, g := want.Comments[i], got.Comments[i]
		if w.OpId != g.OpId {
			return "comment-id", fmt.Sprintf("#%d want %s got %s", i, w.OpId, g.OpId)
		}
		if w.Author != g.Author {
			return "comment-author", fmt.Sprintf("#%d want %s got %s", i, w.Author, g.Author)
		}
		if w.Message != g.Message {
			return "comment-message", fmt.Sprintf("#%d want %q got %q", i, w.Message, g.Message)
		}
		if !eqStrings(w.Files, g.Files) {
			kind := "comment-files"
			if i == 0 {
				kind = "create-comment-files"
			}
			return kind, fmt.Sprintf("#%d want %v got %v", i, w.Files, g.Files)
		}
	}
	if got.ActorDups {
		return "actor-duplicates", "an identity is listed twice in actors or participants"
	}
	if !eqStrings(want.Participants, got.Participants) {
		return "participants", fmt.Sprintf("want %v got %v", want.Participants, got.Participants)
	}
	if !subset(want.MustActors, got.Actors) {
		return "actors-missing", fmt.Sprintf("must contain %v got %v", want.MustActors, got.Actors)
	}
	if !subset(got.Actors, want.MayActors) {
		return "actors-invented", fmt.Sprintf("may contain %v got %v", want.MayActors, got.Actors)
	}
	if len(want.Timeline) != len(got.Timeline) {
		return "timeline-count", fmt.Sprintf("want %d got %d", len(want.Timeline), len(got.Timeline))
	}
	for i := range want.Timeline {
		w, g := want.Timeline[i], got.Timeline[i]
		if w.Kind != g.Kind || w.OpId != g.OpId {
			return "timeline-item", fmt.Sprintf("#%d want %s/%s got %s/%s", i, w.Kind, w.OpId, g.Kind, g.OpId)
		}
		if w.Author != g.Author {
			return "timeline-author", fmt.Sprintf("#%d want %s got %s", i, w.Author, g.Author)
		}
		switch w.Kind {
		case KCreate, KComment:
			if w.Message != g.Message {
				return "timeline-message", fmt.Sprintf("#%d want %q got %q", i, w.Message, g.Message)
			}
			if !eqStrings(w.Files, g.Files) {
				kind := "timeline-files"
				if i == 0 {
					kind = "create-timeline-files"
				}
				return kind, fmt.Sprintf("#%d want %v got %v", i, w.Files, g.Files)
			}
			if !eqStrings(w.History, g.History) {
				return "timeline-history", fmt.Sprintf("#%d want %q got %q", i, w.History, g.History)
			}
		case KTitle:
			if w.Title != g.Title || w.Was != g.Was {
				return "timeline-title", fmt.Sprintf("#%d want %q/%q got %q/%q", i, w.Title, w.Was, g.Title, g.Was)
			}
		case KStatus:
			if w.Status != g.Status {
				return "timeline-status", fmt.Sprintf("#%d want %d got %d", i, w.Status, g.Status)
			}
		case KLabel:
			if !eqStrings(w.Added, g.Added) || !eqStrings(w.Removed, g.Removed) {
				return "timeline-labels", fmt.Sprintf("#%d want +%q -%q got +%q -%q", i, w.Added, w.Removed, g.Added, g.Removed)
			}
		}
	}
	if !eqStrings(want.OpIds, got.OpIds) {
		return "operations", fmt.Sprintf("want %s got %s", short(want.OpIds), short(got.OpIds))
	}
	for id, wm := range want.Meta {
		gm := got.Meta[id]
		if len(wm) != len(gm) {
			return "metadata", fmt.Sprintf("op %s want %v got %v", id, wm, gm)
		}
		for k, v := range wm {
			if gv, ok := gm[k]; !ok || gv != v {
				return "metadata", fmt.Sprintf("op %s key %q want %q got %q (present=%v)", id, k, v, gv, ok)
			}
		}
	}
	return "", ""
}

func short(ids []string) string {
	out := make([]string, len(ids))
	for i, id := range ids {
		if len(id) > 7 {
			id = id[:7]
		}
		out[i] = id
	}
	return "[" + strings.Join(out, " ") + "]"
}
