// Package faultfs is a billy filesystem that simulates a process dying in the
// middle of file-system work: every mutating call costs one unit of a budget
// and every written byte one more; when the budget is used up the call in
// progress is cut short (a partial write keeps the bytes already written) and
// every later call fails.
package faultfs

import (
	"errors"
	"os"

	"github.com/go-git/go-billy/v5"
)

var ErrCrashed = errors.New("faultfs: simulated process death")

type FS struct {
	billy.Filesystem
	Budget int  // remaining units; <0 = unlimited
	Used   int  // units consumed so far (for the counting run)
	Dead   bool // set once the budget ran out
	Log    []string
}

func New(inner billy.Filesystem, budget int) *FS {
	return &FS{Filesystem: inner, Budget: budget}
}

func (f *FS) spend(what string) error {
	if f.Dead {
		return ErrCrashed
	}
	if f.Budget == 0 {
		f.Dead = true
		return ErrCrashed
	}
	if f.Budget > 0 {
		f.Budget--
	}
	f.Used++
	f.Log = append(f.Log, what)
	return nil
}

func (f *FS) Create(filename string) (billy.File, error) {
	return f.OpenFile(filename, os.O_RDWR|os.O_CREATE|os.O_TRUNC, 0666)
}

func (f *FS) OpenFile(filename string, flag int, perm os.FileMode) (billy.File, error) {
	if flag&(os.O_WRONLY|os.O_RDWR|os.O_CREATE|os.O_TRUNC|os.O_APPEND) != 0 {
		if err := f.spend("open-for-write " + filename); err != nil {
			return nil, err
		}
	} else if f.Dead {
		return nil, ErrCrashed
	}
	inner, err := f.Filesystem.OpenFile(filename, flag, perm)
	if err != nil {
		return nil, err
	}
	return &file{File: inner, fs: f}, nil
}

func (f *FS) Open(filename string) (billy.File, error) {
	if f.Dead {
		return nil, ErrCrashed
	}
	return f.Filesystem.Open(filename)
}

func (f *FS) Rename(oldpath, newpath string) error {
	if err := f.spend("rename " + oldpath + " -> " + newpath); err != nil {
		return err
	}
	return f.Filesystem.Rename(oldpath, newpath)
}

func (f *FS) Remove(filename string) error {
	if err := f.spend("remove " + filename); err != nil {
		return err
	}
	return f.Filesystem.Remove(filename)
}

func (f *FS) MkdirAll(filename string, perm os.FileMode) error {
	if f.Dead {
		return ErrCrashed
	}
	return f.Filesystem.MkdirAll(filename, perm)
}

func (f *FS) TempFile(dir, prefix string) (billy.File, error) {
	if err := f.spend("tempfile " + dir + "/" + prefix); err != nil {
		return nil, err
	}
	inner, err := f.Filesystem.TempFile(dir, prefix)
	if err != nil {
		return nil, err
	}
	return &file{File: inner, fs: f}, nil
}

type file struct {
	billy.File
	fs *FS
}

func (fl *file) Write(p []byte) (int, error) {
	if fl.fs.Dead {
		return 0, ErrCrashed
	}
	n := len(p)
	crashed := false
	if fl.fs.Budget >= 0 && fl.fs.Budget < n {
		n = fl.fs.Budget
		crashed = true
	}
	if n > 0 {
		w, err := fl.File.Write(p[:n])
		if fl.fs.Budget > 0 {
			fl.fs.Budget -= w
		}
		fl.fs.Used += w
		if err != nil {
			return w, err
		}
	}
	if crashed {
		fl.fs.Dead = true
		_ = fl.File.Close() // the descriptor of a dead process is closed by the kernel
		return n, ErrCrashed
	}
	return n, nil
}

func (fl *file) Close() error {
	if fl.fs.Dead {
		return ErrCrashed
	}
	return fl.File.Close()
}

func (fl *file) Truncate(size int64) error {
	if err := fl.fs.spend("truncate"); err != nil {
		return err
	}
	return fl.File.Truncate(size)
}
