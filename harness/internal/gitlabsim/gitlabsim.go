// Package gitlabsim is a small simulated GitLab REST API (v4): project issues,
// issue notes, resource label and state events, users; pagination headers; a
// request log keyed by (method, path, page, occurrence) and fault injection per key.
package gitlabsim

import (
	"encoding/json"
	"fmt"
	"net/http"
	"net/http/httptest"
	"regexp"
	"sort"
	"strconv"
	"strings"
	"sync"
	"time"
)

type User struct {
	ID       int    `json:"id"`
	Name     string `json:"name"`
	Username string `json:"username"`
	Email    string `json:"public_email"`
	Deleted  bool   `json:"-"`
}

type Note struct {
	ID        int
	Body      string
	AuthorID  int
	System    bool
	CreatedAt time.Time
	UpdatedAt time.Time
}

type LabelEvent struct {
	ID        int
	UserID    int
	Action    string
	Label     string
	CreatedAt time.Time
}

type StateEvent struct {
	ID        int
	UserID    int
	State     string
	CreatedAt time.Time
}

type Issue struct {
	IID         int
	Title       string
	Description string
	AuthorID    int
	State       string
	CreatedAt   time.Time
	UpdatedAt   time.Time
	Notes       []Note
	Labels      []LabelEvent
	States      []StateEvent
}

type Fault struct {
	Status int
	Times  int // how many times the key answers with Status (-1 = always)
}

type Server struct {
	mu        sync.Mutex
	ProjectID int
	PerPage   int
	Users     map[int]*User
	Issues    []*Issue
	Faults    map[string]*Fault
	Log       []string
	// OnRequest, when set, is called with the request key before the request is served (outside the server's
	// lock): a test can let the tracker change, or time pass, in the middle of an import
	OnRequest func(key string)
	seen      map[string]int
	nextID    int
	HTTP      *httptest.Server
}

func New() *Server {
	s := &Server{ProjectID: 42, PerPage: 2, Users: map[int]*User{}, Faults: map[string]*Fault{}, seen: map[string]int{}, nextID: 1000}
	s.HTTP = httptest.NewServer(http.HandlerFunc(s.serve))
	return s
}

func (s *Server) Close() { s.HTTP.Close() }

// Reset empties the tracker (same URL): a new history can be served.
func (s *Server) Reset() {
	s.mu.Lock()
	defer s.mu.Unlock()
	s.Users = map[int]*User{}
	s.Issues = nil
	s.Faults = map[string]*Fault{}
	s.Log = nil
	s.seen = map[string]int{}
	s.nextID = 1000
}

func (s *Server) URL() string { return s.HTTP.URL + "/" }

// Locked runs f while holding the server's lock (to change the tracker while requests are being served).
func (s *Server) Locked(f func()) {
	s.mu.Lock()
	defer s.mu.Unlock()
	f()
}

// NextID hands out ids for notes and events (unique across kinds, like GitLab's are per kind; uniqueness across kinds keeps the oracle simple).
func (s *Server) NextID() int {
	s.nextID++
	return s.nextID
}

// ResetLog starts a new round: occurrence counters restart.
func (s *Server) ResetLog() {
	s.mu.Lock()
	defer s.mu.Unlock()
	s.Log = nil
	s.seen = map[string]int{}
}

func (s *Server) SetFaults(f map[string]*Fault) {
	s.mu.Lock()
	defer s.mu.Unlock()
	s.Faults = f
}

// Keys returns the sorted list of request keys of the round.
func (s *Server) Keys() []string {
	s.mu.Lock()
	defer s.mu.Unlock()
	out := append([]string(nil), s.Log...)
	sort.Strings(out)
	return out
}

var (
	reIssues = regexp.MustCompile(`^/api/v4/projects/(\d+)/issues$`)
	reNotes  = regexp.MustCompile(`^/api/v4/projects/(\d+)/issues/(\d+)/notes$`)
	reLabels = regexp.MustCompile(`^/api/v4/projects/(\d+)/issues/(\d+)/resource_label_events$`)
	reStates = regexp.MustCompile(`^/api/v4/projects/(\d+)/issues/(\d+)/resource_state_events$`)
	reUser   = regexp.MustCompile(`^/api/v4/users/(\d+)$`)
)

func userRef(u *User) map[string]any {
	if u == nil {
		return map[string]any{"id": 0}
	}
	return map[string]any{"id": u.ID, "name": u.Name, "username": u.Username}
}

func (s *Server) serve(w http.ResponseWriter, r *http.Request) {
	s.mu.Lock()
	page, _ := strconv.Atoi(r.URL.Query().Get("page"))
	if page == 0 {
		page = 1
	}
	base := fmt.Sprintf("%s %s page=%d", r.Method, r.URL.Path, page)
	s.seen[base]++
	key := fmt.Sprintf("%s #%d", base, s.seen[base])
	s.Log = append(s.Log, key)
	if hook := s.OnRequest; hook != nil {
		s.mu.Unlock()
		hook(key)
		s.mu.Lock()
	}
	if f, ok := s.Faults[key]; ok && f.Times != 0 {
		if f.Times > 0 {
			f.Times--
		}
		s.mu.Unlock()
		w.Header().Set("Content-Type", "application/json")
		w.WriteHeader(f.Status)
		_, _ = w.Write([]byte(`{"message":"injected fault"}`))
		return
	}
	defer s.mu.Unlock()

	paginate := func(n int) (lo, hi int) {
		total := (n + s.PerPage - 1) / s.PerPage
		if total == 0 {
			total = 1
		}
		w.Header().Set("X-Page", strconv.Itoa(page))
		w.Header().Set("X-Per-Page", strconv.Itoa(s.PerPage))
		w.Header().Set("X-Total", strconv.Itoa(n))
		w.Header().Set("X-Total-Pages", strconv.Itoa(total))
		if page < total {
			w.Header().Set("X-Next-Page", strconv.Itoa(page+1))
		}
		lo = (page - 1) * s.PerPage
		hi = lo + s.PerPage
		if lo > n {
			lo = n
		}
		if hi > n {
			hi = n
		}
		return
	}
	writeJSON := func(v any) {
		w.Header().Set("Content-Type", "application/json")
		_ = json.NewEncoder(w).Encode(v)
	}
	findIssue := func(iid string) *Issue {
		n, _ := strconv.Atoi(iid)
		for _, i := range s.Issues {
			if i.IID == n {
				return i
			}
		}
		return nil
	}
	ts := func(t time.Time) string { return t.UTC().Format("2006-01-02T15:04:05.000Z") }

	switch {
	case reIssues.MatchString(r.URL.Path):
		var since time.Time
		if v := r.URL.Query().Get("updated_after"); v != "" {
			since, _ = time.Parse(time.RFC3339, v)
		}
		var sel []*Issue
		for _, i := range s.Issues {
			if since.IsZero() || i.UpdatedAt.After(since) {
				sel = append(sel, i)
			}
		}
		sort.SliceStable(sel, func(a, b int) bool { return sel[a].CreatedAt.Before(sel[b].CreatedAt) })
		lo, hi := paginate(len(sel))
		out := []map[string]any{}
		for _, i := range sel[lo:hi] {
			// the labels the issue carries now (a real GitLab always sends the field)
			set := map[string]bool{}
			for _, e := range i.Labels {
				if e.Action == "add" {
					set[e.Label] = true
				} else {
					delete(set, e.Label)
				}
			}
			cur := []string{}
			for l := range set {
				cur = append(cur, l)
			}
			sort.Strings(cur)
			out = append(out, map[string]any{
				"id": 5000 + i.IID, "iid": i.IID, "project_id": s.ProjectID, "title": i.Title, "description": i.Description, "state": i.State, "labels": cur,
				"author": userRef(s.Users[i.AuthorID]), "created_at": ts(i.CreatedAt), "updated_at": ts(i.UpdatedAt),
				"web_url": fmt.Sprintf("%sgroup/project/-/issues/%d", s.HTTP.URL+"/", i.IID),
			})
		}
		writeJSON(out)
	case reNotes.MatchString(r.URL.Path):
		i := findIssue(reNotes.FindStringSubmatch(r.URL.Path)[2])
		if i == nil {
			http.Error(w, `{"message":"404 Not found"}`, 404)
			return
		}
		notes := append([]Note(nil), i.Notes...)
		sort.SliceStable(notes, func(a, b int) bool { return notes[a].CreatedAt.Before(notes[b].CreatedAt) })
		lo, hi := paginate(len(notes))
		out := []map[string]any{}
		for _, n := range notes[lo:hi] {
			out = append(out, map[string]any{"id": n.ID, "body": n.Body, "author": userRef(s.Users[n.AuthorID]), "system": n.System,
				"created_at": ts(n.CreatedAt), "updated_at": ts(n.UpdatedAt), "noteable_iid": i.IID, "noteable_type": "Issue"})
		}
		writeJSON(out)
	case reLabels.MatchString(r.URL.Path):
		i := findIssue(reLabels.FindStringSubmatch(r.URL.Path)[2])
		if i == nil {
			http.Error(w, `{"message":"404 Not found"}`, 404)
			return
		}
		lo, hi := paginate(len(i.Labels))
		out := []map[string]any{}
		for _, e := range i.Labels[lo:hi] {
			out = append(out, map[string]any{"id": e.ID, "action": e.Action, "created_at": ts(e.CreatedAt), "user": userRef(s.Users[e.UserID]),
				"resource_type": "Issue", "resource_id": 5000 + i.IID, "label": map[string]any{"id": 1, "name": e.Label}})
		}
		writeJSON(out)
	case reStates.MatchString(r.URL.Path):
		i := findIssue(reStates.FindStringSubmatch(r.URL.Path)[2])
		if i == nil {
			http.Error(w, `{"message":"404 Not found"}`, 404)
			return
		}
		lo, hi := paginate(len(i.States))
		out := []map[string]any{}
		for _, e := range i.States[lo:hi] {
			out = append(out, map[string]any{"id": e.ID, "state": e.State, "created_at": ts(e.CreatedAt), "user": userRef(s.Users[e.UserID]),
				"resource_type": "Issue", "resource_id": 5000 + i.IID})
		}
		writeJSON(out)
	case reUser.MatchString(r.URL.Path):
		id, _ := strconv.Atoi(reUser.FindStringSubmatch(r.URL.Path)[1])
		u := s.Users[id]
		if u == nil || u.Deleted {
			http.Error(w, `{"message":"404 User Not Found"}`, 404)
			return
		}
		writeJSON(map[string]any{"id": u.ID, "name": u.Name, "username": u.Username, "public_email": u.Email, "avatar_url": "", "state": "active"})
	default:
		if strings.HasPrefix(r.URL.Path, "/api/v4/") {
			http.Error(w, `{"message":"404 Not found (endpoint not simulated)"}`, 404)
			return
		}
		http.NotFound(w, r)
	}
}
