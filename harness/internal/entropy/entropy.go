// Package entropy replaces crypto/rand.Reader by a deterministic stream so
// that operation nonces (hence operation, bug and pack ids) are a function of
// the case seed.
package entropy

import (
	"crypto/rand"
	"crypto/sha256"
	"encoding/binary"
	"io"
	"sync"
)

type stream struct {
	mu   sync.Mutex
	seed uint64
	ctr  uint64
	buf  []byte
}

func (s *stream) Read(p []byte) (int, error) {
	s.mu.Lock()
	defer s.mu.Unlock()
	n := 0
	for n < len(p) {
		if len(s.buf) == 0 {
			var in [16]byte
			binary.LittleEndian.PutUint64(in[:8], s.seed)
			binary.LittleEndian.PutUint64(in[8:], s.ctr)
			s.ctr++
			h := sha256.Sum256(in[:])
			s.buf = h[:]
		}
		c := copy(p[n:], s.buf)
		s.buf = s.buf[c:]
		n += c
	}
	return n, nil
}

var (
	mu       sync.Mutex
	original io.Reader
	current  *stream
)

// Seed installs (or re-seeds) the deterministic reader.
func Seed(seed uint64) {
	mu.Lock()
	defer mu.Unlock()
	if original == nil {
		original = rand.Reader
	}
	current = &stream{seed: seed}
	rand.Reader = current
}

// Restore puts the operating system's source back.
func Restore() {
	mu.Lock()
	defer mu.Unlock()
	if original != nil {
		rand.Reader = original
	}
}
