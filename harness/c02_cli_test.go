package harness

import (
	"fmt"
	"os"
	"path/filepath"
	"strings"
	"testing"

	"pgregory.net/rapid"

	"github.com/MichaelMure/git-bug/repository"

	"verif/harness/internal/report"
)

// ---------------------------------------------------------------- C02 through the command

// TestC02CLIPull: "pull" as the user runs it. The statement's clauses are about what a pull leaves behind: whatever
// the remote holds for an entity is part of the local entity afterwards (created, fast-forwarded or merged under
// the local operations), whoever brought the remote-tracking references up to date: this command, an earlier pull
// that could not merge (no user identity yet), stock git, or a command killed between its fetch and its merge.

type c02CLIStep struct {
	Kind string `json:"kind"` // peernew peercomment peerpush gitfetch pull comment new push usernew
	Bug  int    `json:"bug"`
}

type c02CLICase struct {
	Seed       uint64       `json:"seed"`
	NoIdentity bool         `json:"no_identity"` // the host creates its identity only after its first pull
	Steps      []c02CLIStep `json:"steps"`
}

func genC02CLI(t *rapid.T) c02CLICase {
	c := c02CLICase{Seed: rapid.Uint64().Draw(t, "seed"), NoIdentity: rapid.Bool().Draw(t, "noIdentity")}
	one := rapid.Custom(func(t *rapid.T) c02CLIStep {
		return c02CLIStep{Kind: rapid.SampledFrom([]string{"peernew", "peercomment", "peercomment", "peerpush", "gitfetch", "pull", "pull", "comment", "new", "push"}).Draw(t, "kind"),
			Bug: rapid.IntRange(0, 5).Draw(t, "bug")}
	})
	c.Steps = []c02CLIStep{{Kind: "peernew"}, {Kind: "peercomment"}, {Kind: "peerpush"}}
	if c.NoIdentity {
		c.Steps = append(c.Steps, c02CLIStep{Kind: "pull"}, c02CLIStep{Kind: "usernew"}, c02CLIStep{Kind: "pull"})
	}
	c.Steps = append(c.Steps, rapid.SliceOfN(one, 2, 10).Draw(t, "steps")...)
	// the shape of interest: the references arrive by another road, then the command runs
	c.Steps = append(c.Steps, c02CLIStep{Kind: "peercomment", Bug: rapid.IntRange(0, 5).Draw(t, "b1")}, c02CLIStep{Kind: "peernew"}, c02CLIStep{Kind: "peerpush"})
	if rapid.Bool().Draw(t, "localEdit") {
		c.Steps = append(c.Steps, c02CLIStep{Kind: "comment", Bug: rapid.IntRange(0, 5).Draw(t, "b2")})
	}
	if rapid.Bool().Draw(t, "fetchFirst") {
		c.Steps = append(c.Steps, c02CLIStep{Kind: "gitfetch"})
	}
	c.Steps = append(c.Steps, c02CLIStep{Kind: "pull"})
	return c
}

func runC02CLI(tb report.TB, rep *report.Reporter, c c02CLICase) {
	root := mkdirTemp("c02cli-")
	defer os.RemoveAll(root)
	host, peerDir, remote := filepath.Join(root, "host"), filepath.Join(root, "peer"), filepath.Join(root, "remote.git")
	for _, args := range [][]string{{"init", "-q", host}, {"init", "-q", peerDir}, {"init", "-q", "--bare", remote}} {
		if res := RunGit(root, args...); res.Code != 0 {
			tb.Fatalf("harness: %s", res.Out)
		}
	}
	RunGit(host, "remote", "add", "origin", remote)
	RunGit(peerDir, "remote", "add", "origin", remote)
	userNew := func(dir, name string) {
		if res := RunCLI(dir, "user", "new", "-n", name, "-e", name+"@example.org", "--non-interactive"); res.Code != 0 {
			tb.Fatalf("harness: user new: %s", res.Out)
		}
	}
	userNew(peerDir, "peer")
	hasIdentity := !c.NoIdentity
	if hasIdentity {
		userNew(host, "host")
	}
	fail := func(sig, detail string) bool { return rep.Fail(tb, "C02/cli/"+sig, detail, c) }
	ids := func(dir string) []string { return strings.Fields(RunCLI(dir, "bug", "-f", "id").Out) }
	refs := func() (local, tracking map[string]string) {
		repo, err := repository.OpenGoGitRepo(host, "git-bug", nil)
		if err != nil {
			tb.Fatalf("harness: %v", err)
		}
		defer repo.Close()
		local, tracking = map[string]string{}, map[string]string{}
		for _, ns := range []string{"bugs", "identities"} {
			for ref, h := range refsUnder(repo, "refs/"+ns+"/") {
				local[ref] = h
			}
			for ref, h := range refsUnder(repo, "refs/remotes/origin/"+ns+"/") {
				tracking["refs/"+strings.TrimPrefix(ref, "refs/remotes/origin/")] = h
			}
		}
		return
	}
	var kinds []string
	pulls, pullsWithPending, pullsDiverged := 0, 0, 0
	for i, s := range c.Steps {
		kinds = append(kinds, s.Kind)
		where := fmt.Sprintf("step #%d %s", i, s.Kind)
		switch s.Kind {
		case "peernew":
			RunCLI(peerDir, "bug", "new", "-t", fmt.Sprintf("peer bug %d", i), "-m", "m", "--non-interactive")
		case "peercomment":
			if l := ids(peerDir); len(l) > 0 {
				RunCLI(peerDir, "bug", "comment", "new", l[s.Bug%len(l)], "-m", fmt.Sprintf("peer comment %d", i), "--non-interactive")
			}
		case "peerpush":
			RunCLI(peerDir, "pull", "origin")
			if res := RunCLI(peerDir, "push", "origin"); res.Code != 0 {
				tb.Fatalf("harness: peer push: %s", res.Out)
			}
		case "usernew":
			if !hasIdentity {
				userNew(host, "host")
				hasIdentity = true
			}
		case "new":
			if hasIdentity {
				RunCLI(host, "bug", "new", "-t", fmt.Sprintf("host bug %d", i), "-m", "m", "--non-interactive")
			}
		case "comment":
			if l := ids(host); hasIdentity && len(l) > 0 {
				RunCLI(host, "bug", "comment", "new", l[s.Bug%len(l)], "-m", fmt.Sprintf("host comment %d", i), "--non-interactive")
			}
		case "push":
			if hasIdentity {
				RunCLI(host, "push", "origin") // may be rejected (not a fast-forward): legal
			}
		case "gitfetch":
			if res := RunGit(host, "fetch", "-q", "origin", "+refs/bugs/*:refs/remotes/origin/bugs/*", "+refs/identities/*:refs/remotes/origin/identities/*"); res.Code != 0 {
				tb.Fatalf("harness: git fetch: %s", res.Out)
			}
		case "pull":
			localPre, trackingPre := refs()
			res := RunCLI(host, "pull", "origin")
			if strings.Contains(res.Out, "panic:") || strings.Contains(res.Out, "fatal error:") {
				if fail("pull-crashes", where+": "+res.Out) {
					return
				}
			}
			if !hasIdentity {
				continue // the merge is refused for want of an author of merge commits: whatever it says is fine
			}
			pulls++
			if res.Code != 0 {
				if fail("pull-fails/"+Normalize(lastLine(res.Out)), where+": "+res.Out) {
					return
				}
			}
			pending, diverged := false, false
			for ref, h := range trackingPre {
				if lh, ok := localPre[ref]; !ok || (lh != h && RunGit(host, "merge-base", "--is-ancestor", h, lh).Code != 0) {
					pending = true
				}
			}
			local, tracking := refs()
			for ref, h := range tracking {
				lh, ok := local[ref]
				if !ok {
					if fail("remote-entity-not-created", fmt.Sprintf("%s: the remote holds %s (%s), fetched, and after the pull there is no local %s\noutput: %s", where, ref, h[:8], ref, res.Out)) {
						return
					}
					continue
				}
				if lh != h && RunGit(host, "merge-base", "--is-ancestor", h, lh).Code != 0 {
					if fail("remote-operations-not-merged", fmt.Sprintf("%s: the remote holds %s at %s, fetched, and after the pull the local reference %s does not contain it\noutput: %s", where, ref, h[:8], lh[:8], res.Out)) {
						return
					}
				}
				if pre, ok := localPre[ref]; ok && pre != lh && lh != h {
					diverged = true
					// what was there locally stays under the merge
					if RunGit(host, "merge-base", "--is-ancestor", pre, lh).Code != 0 {
						if fail("local-operations-dropped", fmt.Sprintf("%s: %s was at %s before the pull, is at %s now, and the old head is not an ancestor", where, ref, pre[:8], lh[:8])) {
							return
						}
					}
				}
			}
			if pending {
				pullsWithPending++
			}
			if diverged {
				pullsDiverged++
			}
			if out := RunCLI(host, "bug"); out.Code != 0 {
				if fail("cannot-read-after-pull/"+Normalize(lastLine(out.Out)), out.Out) {
					return
				}
			}
		}
	}
	rep.Class("cli-pulls-monitored", pulls)
	classes := []string{"cli"}
	if pullsWithPending > 0 {
		classes = append(classes, "pull-with-references-fetched-earlier")
	}
	if pullsDiverged > 0 {
		classes = append(classes, "pull-merges-diverged")
	}
	if c.NoIdentity {
		classes = append(classes, "first-pull-without-identity")
	}
	rep.Case("cli|"+strings.Join(kinds, ","), pullsWithPending > 0, classes, c)
}

func TestC02CLIPull(t *testing.T) {
	Drive(t, "C02", genC02CLI, runC02CLI)
}
