//go:build verif

package harness

import (
	"fmt"
	"os"
	"strings"
	"sync"
	"sync/atomic"
	"testing"
	"time"

	"pgregory.net/rapid"

	"github.com/MichaelMure/git-bug/cache"
	"github.com/MichaelMure/git-bug/entities/bug"
	"github.com/MichaelMure/git-bug/entities/identity"
	"github.com/MichaelMure/git-bug/entity"

	"verif/harness/internal/report"
)

// TestC18Preemption: two calls on one cache with the harness owning the schedule. Call A (an edit + commit of an
// identity or a bug) is stopped just before its K-th acquisition of a cache mutex (hook of /repo, build tag verif),
// whatever it holds at that point; call B (resolving other entities with a cache size that forces the eviction of
// A's entity, creating one, listing, reading A's entity) runs meanwhile; then A is released. Every generated
// (A, K, B, cache size) is one schedule with one preemption, the ones a random scheduler almost never picks.
// Oracle: "no call deadlocks or panics": both calls return; a call of A that returned success is stored.

type c18PreCase struct {
	Seed   uint64 `json:"seed"`
	Target string `json:"target"` // identity | bug
	OpA    string `json:"op_a"`   // commit | commitasneeded
	K      int    `json:"k"`
	OpB    string `json:"op_b"` // resolve-others new list same user
	Size   int    `json:"size"`
	Reopen bool   `json:"reopen"` // the cache is closed and loaded from its files before the calls (entities enter the LRU when resolved)
}

func genC18Pre(t *rapid.T) c18PreCase {
	return c18PreCase{Seed: rapid.Uint64().Draw(t, "seed"), Target: rapid.SampledFrom([]string{"identity", "bug"}).Draw(t, "target"),
		OpA: rapid.SampledFrom([]string{"commit", "commitasneeded"}).Draw(t, "opA"), K: rapid.IntRange(0, 14).Draw(t, "k"),
		OpB:  rapid.SampledFrom([]string{"resolve-others", "resolve-others", "resolve-identities", "new", "list", "same", "user"}).Draw(t, "opB"),
		Size: rapid.IntRange(1, 3).Draw(t, "size"), Reopen: rapid.Bool().Draw(t, "reopen")}
}

func runC18Pre(tb report.TB, rep *report.Reporter, c c18PreCase) {
	w, err := NewCWorld(1, c.Seed)
	if err != nil {
		tb.Fatalf("harness: %v", err)
	}
	leaked := false
	defer func() {
		if leaked {
			_ = os.RemoveAll(w.Dir) // the blocked goroutines cannot be cancelled
		} else {
			w.Close()
		}
	}()
	r := w.R[0]
	me, err := r.Cache.GetUserIdentity()
	if err != nil {
		tb.Fatalf("harness: %v", err)
	}
	var identIds, bugIds []entity.Id
	for i := 0; i < 4; i++ {
		ic, err := r.Cache.Identities().New(fmt.Sprintf("person %d", i), fmt.Sprintf("p%d@example.org", i))
		if err != nil {
			tb.Fatalf("harness: %v", err)
		}
		identIds = append(identIds, ic.Id())
		bc, _, err := r.Cache.Bugs().NewRaw(me, int64(1000+i), fmt.Sprintf("bug %d", i), "m", nil, nil)
		if err != nil {
			tb.Fatalf("harness: %v", err)
		}
		bugIds = append(bugIds, bc.Id())
	}
	if c.Reopen {
		if err := w.Reopen(r); err != nil {
			tb.Fatalf("harness: %v", err)
		}
		if me, err = r.Cache.GetUserIdentity(); err != nil {
			tb.Fatalf("harness: %v", err)
		}
	}
	rc := r.Cache
	rc.Identities().SetCacheSize(c.Size)
	rc.Bugs().SetCacheSize(c.Size)
	// A's entity is resolved last before the calls: it is loaded, and the first to go when others are resolved
	var targetI *cache.IdentityCache
	var targetB *cache.BugCache
	if c.Target == "identity" {
		if targetI, err = rc.Identities().Resolve(identIds[0]); err != nil {
			tb.Fatalf("harness: %v", err)
		}
	} else {
		if targetB, err = rc.Bugs().Resolve(bugIds[0]); err != nil {
			tb.Fatalf("harness: %v", err)
		}
	}

	var aId atomic.Value
	aId.Store("")
	var mu sync.Mutex
	seen, paused := 0, false
	gate := make(chan struct{})
	atGate := make(chan struct{})
	cache.VerifLockHook = func(op string) {
		if id, _ := aId.Load().(string); id == "" || id != goid() {
			return
		}
		mu.Lock()
		k := seen
		seen++
		stop := k == c.K && !paused
		if stop {
			paused = true
		}
		mu.Unlock()
		if stop {
			close(atGate)
			<-gate
		}
	}
	defer func() { cache.VerifLockHook = nil }()

	newName := fmt.Sprintf("renamed %d", c.Seed%1000)
	aDone := make(chan error, 1)
	go func() {
		defer func() {
			if rcv := recover(); rcv != nil {
				aDone <- fmt.Errorf("PANIC: %v\n%s", rcv, PanicSite(allGoroutines()))
			}
		}()
		aId.Store(goid())
		var err error
		if targetI != nil {
			err = targetI.Mutate(r.Repo, func(m *identity.Mutator) { m.Name = newName })
			if err == nil && c.OpA == "commit" {
				err = targetI.Commit()
			} else if err == nil {
				err = targetI.CommitAsNeeded()
			}
		} else {
			_, _, err = targetB.AddCommentRaw(me, 5000, newName, nil, nil)
			if err == nil && c.OpA == "commit" {
				err = targetB.Commit()
			} else if err == nil {
				err = targetB.CommitAsNeeded()
			}
		}
		aDone <- err
	}()
	var aErr error
	aFinished := false
	select {
	case <-atGate:
	case aErr = <-aDone:
		aFinished = true
	case <-time.After(20 * time.Second):
		tb.Fatalf("harness: call A neither finished nor reached its acquisition #%d", c.K)
	}
	bDone := make(chan error, 1)
	go func() {
		defer func() {
			if rcv := recover(); rcv != nil {
				bDone <- fmt.Errorf("PANIC: %v\n%s", rcv, PanicSite(allGoroutines()))
			}
		}()
		var err error
		switch c.OpB {
		case "resolve-others":
			for i := 1; i < 4 && err == nil; i++ {
				if targetI != nil {
					_, err = rc.Identities().Resolve(identIds[i])
				} else {
					_, err = rc.Bugs().Resolve(bugIds[i])
				}
			}
		case "resolve-identities":
			// the people who wrote the loaded bugs are entities of their own cache, with their own eviction
			for i := 1; i < 4 && err == nil; i++ {
				_, err = rc.Identities().Resolve(identIds[i])
			}
		case "new":
			if targetI != nil {
				_, err = rc.Identities().New("late comer", "late@example.org")
			} else {
				_, _, err = rc.Bugs().NewRaw(me, 6000, "late bug", "m", nil, nil)
			}
		case "list":
			if targetI != nil {
				for _, id := range rc.Identities().AllIds() {
					_, _ = rc.Identities().ResolveExcerpt(id)
				}
			} else {
				for _, id := range rc.Bugs().AllIds() {
					_, _ = rc.Bugs().ResolveExcerpt(id)
				}
			}
		case "same":
			if targetI != nil {
				var ic *cache.IdentityCache
				if ic, err = rc.Identities().Resolve(identIds[0]); err == nil {
					_ = ic.Name()
				}
			} else {
				var bc *cache.BugCache
				if bc, err = rc.Bugs().Resolve(bugIds[0]); err == nil {
					_ = bc.Snapshot().Title
				}
			}
		case "user":
			_, err = rc.GetUserIdentity()
		}
		bDone <- err
	}()
	// B may legitimately wait for a lock A holds while stopped: give it a moment, then let A go on
	var bErr error
	bFinished := false
	select {
	case bErr = <-bDone:
		bFinished = true
	case <-time.After(150 * time.Millisecond):
	}
	if !aFinished {
		close(gate)
	}
	deadline := time.After(10 * time.Second)
	for !aFinished || !bFinished {
		select {
		case aErr = <-aDone:
			aFinished = true
		case bErr = <-bDone:
			bFinished = true
		case <-deadline:
			dump := allGoroutines()
			leaked = true
			sig := "deadlock/handle-used-after-eviction" // the eviction took the entity lock for good, A's handle waits for it
			if strings.Contains(dump, "evictIfNeeded") {
				sig = "deadlock/eviction-and-update-wait-for-each-other"
			} else if targetB != nil && strings.Contains(dump, "cache.(*IdentityCache).") {
				sig = "deadlock/bug-edit-waits-for-an-evicted-identity" // the bug was never evicted: its author was
			} else if aFinished {
				sig = "deadlock/second-call-never-returns"
			}
			rep.Case(fmt.Sprintf("pre|%s|%s|k%d|%s|size%d|reopen=%v|blocked", c.Target, c.OpA, c.K, c.OpB, c.Size, c.Reopen), true, []string{"schedule-blocks"}, c)
			rep.Fail(tb, "C18/"+sig, fmt.Sprintf("A = %s on the %s, stopped before its lock acquisition #%d; B = %s; cache size %d; A returned: %v, B returned: %v\n%s",
				c.OpA, c.Target, c.K, c.OpB, c.Size, aFinished, bFinished, truncate(dump, 5000)), c)
			return
		}
	}
	mu.Lock()
	reached := paused
	mu.Unlock()
	rep.Case(fmt.Sprintf("pre|%s|%s|k%d|%s|size%d|reopen=%v", c.Target, c.OpA, c.K, c.OpB, c.Size, c.Reopen), reached,
		[]string{"target:" + c.Target, "b:" + c.OpB, fmt.Sprintf("a-stopped-at-a-lock:%v", reached), fmt.Sprintf("a-succeeds:%v", aErr == nil)}, c)
	for _, e := range []error{aErr, bErr} {
		if e != nil && strings.HasPrefix(e.Error(), "PANIC") {
			if rep.Fail(tb, "C18/preempt/panic/"+Normalize(e.Error()), e.Error(), c) {
				return
			}
		}
	}
	cache.VerifLockHook = nil
	if aErr == nil {
		// stored: read from git, not from the cache
		if targetI != nil {
			i, err := identity.ReadLocal(r.Repo, identIds[0])
			if err != nil || i.Name() != newName {
				rep.Fail(tb, "C18/preempt/successful-identity-commit-not-stored", fmt.Sprintf("Commit returned success; stored name %v (%v), committed %q", i, err, newName), c)
			}
		} else {
			found := 0
			if ops, err := storedComments(r, string(bugIds[0])); err == nil {
				for _, m := range ops {
					if m == newName {
						found++
					}
				}
			}
			if found != 1 {
				rep.Fail(tb, "C18/preempt/successful-comment-not-stored-once", fmt.Sprintf("Commit returned success; the comment is stored %d times", found), c)
			}
		}
	}
}

func TestC18Preemption(t *testing.T) {
	Drive(t, "C18", genC18Pre, runC18Pre)
}

// storedComments reads the bug from git with the dag-level reader and returns its comment texts.
func storedComments(r *CReplica, id string) ([]string, error) {
	b, err := bug.Read(r.Repo, entity.Id(id))
	if err != nil {
		return nil, err
	}
	var out []string
	for _, cm := range b.Compile().Comments {
		out = append(out, cm.Message)
	}
	return out, nil
}
