package harness

import (
	"crypto/sha256"
	"encoding/binary"
	"encoding/hex"
	"fmt"

	"pgregory.net/rapid"

	"github.com/MichaelMure/git-bug/entities/bug"
	"github.com/MichaelMure/git-bug/entities/common"
	"github.com/MichaelMure/git-bug/entities/identity"
	"github.com/MichaelMure/git-bug/entity"
	"github.com/MichaelMure/git-bug/entity/dag"
	"github.com/MichaelMure/git-bug/repository"

	"verif/harness/internal/refmodel"
)

// OpSpec is one generated operation as plain data. Everything that depends on
// the state (which comment, which operation) is an index resolved modulo the
// current population, so every generated list is executable.
type OpSpec struct {
	Kind       string            `json:"kind"`
	Author     int               `json:"author"`
	Time       int64             `json:"time"`
	Title      string            `json:"title,omitempty"`
	Message    string            `json:"message,omitempty"`
	Files      []int             `json:"files,omitempty"`
	TargetMode int               `json:"target_mode,omitempty"` // 0 comment, 1 any earlier op, 2 unknown id
	TargetIdx  int               `json:"target_idx,omitempty"`
	Added      []string          `json:"added,omitempty"`
	Removed    []string          `json:"removed,omitempty"`
	Status     int               `json:"status,omitempty"`
	Meta       map[string]string `json:"meta,omitempty"`
	NewMeta    map[string]string `json:"new_meta,omitempty"`
}

// Built remembers what an already constructed operation was.
type Built struct {
	Id   string
	Kind string
}

// GenOpSpec draws a non-create operation.
func GenOpSpec(nAuthors, nFiles int) *rapid.Generator[OpSpec] {
	return rapid.Custom(func(t *rapid.T) OpSpec {
		kind := rapid.SampledFrom([]string{
			refmodel.KComment, refmodel.KComment, refmodel.KEdit, refmodel.KEdit, refmodel.KEdit,
			refmodel.KTitle, refmodel.KStatus, refmodel.KLabel, refmodel.KLabel, refmodel.KLabel,
			refmodel.KMeta, refmodel.KMeta, refmodel.KNoop,
		}).Draw(t, "kind")
		s := OpSpec{Kind: kind}
		s.Author = rapid.IntRange(0, nAuthors-1).Draw(t, "author")
		s.Time = rapid.Int64Range(1, 2_000_000_000).Draw(t, "time")
		if rapid.IntRange(0, 3).Draw(t, "hasMeta") == 0 {
			s.Meta = GenMeta(3).Draw(t, "meta")
		}
		files := func() []int {
			if nFiles == 0 {
				return nil
			}
			return rapid.SliceOfN(rapid.IntRange(0, nFiles-1), 0, 3).Draw(t, "files")
		}
		switch kind {
		case refmodel.KComment:
			s.Message = GenMessage().Draw(t, "message")
			s.Files = files()
		case refmodel.KEdit:
			s.Message = GenMessage().Draw(t, "message")
			s.Files = files()
			s.TargetMode = rapid.SampledFrom([]int{0, 0, 0, 1, 2}).Draw(t, "targetMode")
			s.TargetIdx = rapid.IntRange(0, 1000).Draw(t, "targetIdx")
		case refmodel.KTitle:
			s.Title = GenTitle().Draw(t, "title")
		case refmodel.KStatus:
			s.Status = rapid.IntRange(1, 2).Draw(t, "status")
		case refmodel.KLabel:
			s.Added = rapid.SliceOfN(GenLabel(), 0, 3).Draw(t, "added")
			s.Removed = rapid.SliceOfN(GenLabel(), 0, 3).Draw(t, "removed")
			if len(s.Added)+len(s.Removed) == 0 {
				s.Added = []string{GenLabel().Draw(t, "label")}
			}
		case refmodel.KMeta:
			s.TargetMode = rapid.SampledFrom([]int{1, 1, 1, 2}).Draw(t, "targetMode")
			s.TargetIdx = rapid.IntRange(0, 1000).Draw(t, "targetIdx")
			s.NewMeta = GenMeta(3).Draw(t, "newMeta")
		}
		return s
	})
}

// GenCreateSpec draws the creating operation.
func GenCreateSpec(nAuthors, nFiles int) *rapid.Generator[OpSpec] {
	return rapid.Custom(func(t *rapid.T) OpSpec {
		s := OpSpec{Kind: refmodel.KCreate}
		s.Author = rapid.IntRange(0, nAuthors-1).Draw(t, "author")
		s.Time = rapid.Int64Range(1, 2_000_000_000).Draw(t, "time")
		s.Title = GenTitle().Draw(t, "title")
		s.Message = GenMessage().Draw(t, "message")
		if nFiles > 0 {
			s.Files = rapid.SliceOfN(rapid.IntRange(0, nFiles-1), 0, 3).Draw(t, "files")
		}
		if rapid.IntRange(0, 2).Draw(t, "hasMeta") == 0 {
			s.Meta = GenMeta(4).Draw(t, "meta")
		}
		return s
	})
}

// NonceFor gives a 20-byte nonce that depends only on (seed, index), so that an
// operation keeps its id when other operations of the list are removed.
func NonceFor(seed uint64, idx int) []byte {
	var in [16]byte
	binary.LittleEndian.PutUint64(in[:8], seed)
	binary.LittleEndian.PutUint64(in[8:], uint64(idx))
	h := sha256.Sum256(in[:])
	return h[:20]
}

// UnknownId is a well-formed id that designates nothing.
func UnknownId(idx int) entity.Id {
	h := sha256.Sum256([]byte(fmt.Sprintf("unknown-%d", idx)))
	return entity.Id(hex.EncodeToString(h[:]))
}

// FakeFile is a well-formed git hash for in-memory use.
func FakeFile(i int) repository.Hash {
	h := sha256.Sum256([]byte(fmt.Sprintf("file-%d", i)))
	return repository.Hash(hex.EncodeToString(h[:20]))
}

// ResolveTarget picks the operation id a spec targets among the earlier ones.
func ResolveTarget(s OpSpec, prev []Built) entity.Id {
	switch s.TargetMode {
	case 0:
		var cands []string
		for _, p := range prev {
			if p.Kind == refmodel.KCreate || p.Kind == refmodel.KComment {
				cands = append(cands, p.Id)
			}
		}
		if len(cands) == 0 {
			return UnknownId(s.TargetIdx)
		}
		return entity.Id(cands[s.TargetIdx%len(cands)])
	case 1:
		if len(prev) == 0 {
			return UnknownId(s.TargetIdx)
		}
		return entity.Id(prev[s.TargetIdx%len(prev)].Id)
	default:
		return UnknownId(s.TargetIdx)
	}
}

// BuildOp constructs the real operation with the exported constructors and the
// equivalent plain value for the reference interpreter. nonce may be nil (the
// constructor's random nonce is kept).
func BuildOp(s OpSpec, authors []identity.Interface, prev []Built, files []repository.Hash, nonce []byte) (bug.Operation, refmodel.ROp) {
	author := authors[s.Author%len(authors)]
	var fl []repository.Hash
	var flS []string
	for _, f := range s.Files {
		h := files[f%len(files)]
		fl = append(fl, h)
		flS = append(flS, string(h))
	}
	r := refmodel.ROp{Kind: s.Kind, Author: string(author.Id()), Time: s.Time, Meta: s.Meta}
	var op bug.Operation
	var base *dag.OpBase
	switch s.Kind {
	case refmodel.KCreate:
		o := bug.NewCreateOp(author, s.Time, s.Title, s.Message, fl)
		op, base = o, &o.OpBase
		r.Title, r.Message, r.Files = s.Title, s.Message, flS
	case refmodel.KComment:
		o := bug.NewAddCommentOp(author, s.Time, s.Message, fl)
		op, base = o, &o.OpBase
		r.Message, r.Files = s.Message, flS
	case refmodel.KEdit:
		target := ResolveTarget(s, prev)
		o := bug.NewEditCommentOp(author, s.Time, target, s.Message, fl)
		op, base = o, &o.OpBase
		r.Target, r.Message, r.Files = string(target), s.Message, flS
	case refmodel.KTitle:
		was := ""
		o := bug.NewSetTitleOp(author, s.Time, s.Title, was)
		op, base = o, &o.OpBase
		r.Title, r.Was = s.Title, was
	case refmodel.KStatus:
		o := bug.NewSetStatusOp(author, s.Time, common.Status(s.Status))
		op, base = o, &o.OpBase
		r.Status = s.Status
	case refmodel.KLabel:
		var added, removed []bug.Label
		for _, l := range s.Added {
			added = append(added, bug.Label(l))
		}
		for _, l := range s.Removed {
			removed = append(removed, bug.Label(l))
		}
		o := bug.NewLabelChangeOperation(author, s.Time, added, removed)
		op, base = o, &o.OpBase
		r.Added, r.Removed = s.Added, s.Removed
	case refmodel.KMeta:
		target := ResolveTarget(s, prev)
		o := dag.NewSetMetadataOp[*bug.Snapshot](bug.SetMetadataOp, author, s.Time, target, s.NewMeta)
		op, base = o, &o.OpBase
		r.Target, r.NewMeta = string(target), s.NewMeta
	case refmodel.KNoop:
		o := dag.NewNoOpOp[*bug.Snapshot](bug.NoOpOp, author, s.Time)
		op, base = o, &o.OpBase
	default:
		panic("unknown kind " + s.Kind)
	}
	if nonce != nil {
		base.Nonce = nonce
	}
	for k, v := range s.Meta {
		op.SetMetadata(k, v)
	}
	return op, r
}
