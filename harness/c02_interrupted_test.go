package harness

import (
	"fmt"
	"strings"
	"testing"
	"time"

	"pgregory.net/rapid"

	"github.com/MichaelMure/git-bug/cache"
	"github.com/MichaelMure/git-bug/entity"
	"github.com/MichaelMure/git-bug/repository"

	"verif/harness/internal/report"
)

// TestC02InterruptedPull: a pull that is killed half-way, then the next run. The remote holds N bugs the second user
// does not have. The second user's process fetches, starts merging and dies after it has seen the K-th merge result
// (nothing is closed; its lock and whatever it had written stay behind). The next run opens the repository again.
// Whatever the first pull created locally (a local reference exists and reads as a valid bug) is a bug of that
// repository for every later run: listed, resolvable by id and by prefix; and a complete pull brings the rest.

type c02IntCase struct {
	Seed uint64 `json:"seed"`
	N    int    `json:"n"`
	K    int    `json:"k"` // the process dies after this many merge results of bugs (1..N)
}

func genC02Int(t *rapid.T) c02IntCase {
	n := rapid.IntRange(1, 6).Draw(t, "n")
	return c02IntCase{Seed: rapid.Uint64().Draw(t, "seed"), N: n, K: rapid.IntRange(1, n).Draw(t, "k")}
}

func runC02Int(tb report.TB, rep *report.Reporter, c c02IntCase) {
	w, err := NewCWorld(2, c.Seed)
	if err != nil {
		tb.Fatalf("harness: %v", err)
	}
	defer w.Close()
	r0, r1 := w.R[0], w.R[1]
	me, err := r0.Cache.GetUserIdentity()
	if err != nil {
		tb.Fatalf("harness: %v", err)
	}
	var ids []string
	for k := 0; k < c.N; k++ {
		bc, _, err := r0.Cache.Bugs().NewRaw(me, int64(1000+k), fmt.Sprintf("published bug %d", k), "m", nil, nil)
		if err != nil {
			tb.Fatalf("harness: %v", err)
		}
		ids = append(ids, string(bc.Id()))
	}
	if _, err := r0.Cache.Push("origin"); err != nil {
		tb.Fatalf("harness: push: %v", err)
	}
	fail := func(sig, detail string) bool { return rep.Fail(tb, "C02/interrupted/"+sig, detail, c) }

	if _, err := r1.Cache.Fetch("origin"); err != nil {
		tb.Fatalf("harness: fetch: %v", err)
	}
	seen := 0
	for res := range r1.Cache.MergeAll("origin") {
		if res.Err != nil {
			tb.Fatalf("harness: merge: %v", res.Err)
		}
		isBug := false
		for _, id := range ids {
			isBug = isBug || id == string(res.Id)
		}
		if isBug && res.Status == entity.MergeStatusNew {
			seen++
			if seen == c.K {
				break // killed here: nobody reads the rest, nothing is closed
			}
		}
	}
	time.Sleep(30 * time.Millisecond) // what the dying process was in the middle of writing for that result
	created := refsUnder(r1.Repo, "refs/bugs/")
	rep.Case(fmt.Sprintf("interrupted|n%d|k%d|created%d", c.N, c.K, len(created)), c.K < c.N,
		[]string{fmt.Sprintf("bugs-created-before-the-process-died:%d", len(created)), fmt.Sprintf("died-before-the-last-result:%v", c.K < c.N)}, c)
	// the next run (the handles of the dead process are gone, its lock file is not)
	_ = r1.Repo.Close()
	DeadenLock(r1.Path)
	repo2, err := repository.OpenGoGitRepo(r1.Path, "git-bug", nil)
	if err != nil {
		tb.Fatalf("harness: %v", err)
	}
	defer repo2.Close()
	rc2, err := cache.NewRepoCacheNoEvents(repo2)
	if err != nil {
		fail("repository-does-not-open-after-a-killed-pull/"+Normalize(err.Error()), err.Error())
		return
	}
	defer rc2.Close()
	check := func(when string, must []string) bool {
		listed := map[string]bool{}
		for _, id := range rc2.Bugs().AllIds() {
			listed[string(id)] = true
		}
		for _, id := range must {
			if !listed[id] {
				return fail("bug-created-by-the-pull-is-not-listed/"+when, fmt.Sprintf("%s: refs/bugs/%s exists locally since the pull that was killed after %d of %d bugs; the cache of the next run lists %d bugs without it", when, id[:8], c.K, c.N, len(listed)))
			}
			if _, err := rc2.Bugs().Resolve(entity.Id(id)); err != nil {
				return fail("bug-created-by-the-pull-does-not-resolve/"+when, id[:8]+": "+err.Error())
			}
			if _, err := rc2.Bugs().ResolveExcerptPrefix(id[:16]); err != nil {
				return fail("bug-created-by-the-pull-does-not-resolve-by-prefix/"+when, id[:8]+": "+err.Error())
			}
		}
		return false
	}
	var must []string
	for ref := range created {
		must = append(must, strings.TrimPrefix(ref, "refs/bugs/"))
	}
	if check("next-run", must) {
		return
	}
	if err := rc2.Pull("origin"); err != nil {
		if fail("pull-fails-in-the-next-run/"+Normalize(err.Error()), err.Error()) {
			return
		}
	}
	check("after-a-complete-pull", ids)
}

func TestC02InterruptedPull(t *testing.T) {
	Drive(t, "C02", genC02Int, runC02Int)
}
