package harness

import (
	"strings"
	"unicode"

	"pgregory.net/rapid"
)

// Alphabets for generated text. Valid UTF-8 only (DESIGN §7).
var (
	asciiLetters = []rune("abcdefghijklmnopqrstuvwxyzABCDEFGHIJKLMNOPQRSTUVWXYZ0123456789")
	punct        = []rune(" -_.,:;!?'\"()[]{}<>/\\|@#$%^&*+=~`")
	exotic       = []rune{
		'é', 'ß', 'ø', 'Ж', 'я', 'ç', '中', '文', '日', '本', 'ع', 'ר', 'ש', // multi-byte letters, RTL
		0x0301, 0x0308, // combining marks
		0x200B, 0x200D, 0xFEFF, // zero-width
		0x2028, 0x2029, // line/paragraph separators
		0x00A0, 0x3000, // non-ASCII spaces
		0x1F600, 0x1F4A9, 0x1F1EB, // emoji, regional indicator
		0xFFFD,
	}
)

func runeGen(multiline bool) *rapid.Generator[rune] {
	gens := []*rapid.Generator[rune]{
		rapid.SampledFrom(asciiLetters), rapid.SampledFrom(asciiLetters),
		rapid.SampledFrom(punct), rapid.SampledFrom(exotic),
	}
	if multiline {
		gens = append(gens, rapid.SampledFrom([]rune{'\n', '\t', '\r', ' '}))
	}
	return rapid.OneOf(gens...)
}

func textFromRunes(g *rapid.Generator[rune], minLen, maxLen int) *rapid.Generator[string] {
	return rapid.Custom(func(t *rapid.T) string {
		rs := rapid.SliceOfN(g, minLen, maxLen).Draw(t, "runes")
		return string(rs)
	})
}

func isEmptyText(s string) bool {
	trim := strings.TrimFunc(s, func(r rune) bool {
		return unicode.IsSpace(r) || !unicode.IsGraphic(r)
	})
	return trim == ""
}

// GenTitle: one-line, not blank by the code's own definition of blank
// (util/text.Empty: only spaces / non-graphic runes), otherwise arbitrary.
func GenTitle() *rapid.Generator[string] {
	return rapid.Custom(func(t *rapid.T) string {
		s := textFromRunes(runeGen(false), 0, 24).Draw(t, "title")
		if isEmptyText(s) {
			s += string(rapid.SampledFrom(asciiLetters).Draw(t, "pad"))
		}
		return s
	})
}

// GenMessage: multi-line text, may be empty, may have leading/trailing blanks.
func GenMessage() *rapid.Generator[string] {
	return rapid.OneOf(
		rapid.Just(""),
		textFromRunes(runeGen(true), 0, 40),
		textFromRunes(runeGen(true), 0, 40),
		textFromRunes(runeGen(true), 100, 400),
	)
}

// GenLabel: small pool so that re-additions and removals collide, plus exotic ones.
func GenLabel() *rapid.Generator[string] {
	return rapid.OneOf(
		rapid.SampledFrom([]string{"bug", "feature", "a", "b", "c", "Bug", "wont fix", "é", "日本"}),
		rapid.SampledFrom([]string{"bug", "feature", "a", "b", "c"}),
		GenTitle(),
	)
}

func GenMetaKey() *rapid.Generator[string] {
	return rapid.OneOf(
		rapid.SampledFrom([]string{"k1", "k2", "k3", "origin", "github-id", "gitlab-id", "é"}),
		rapid.SampledFrom([]string{"k1", "k2", "k3"}),
		GenTitle(),
	)
}

func GenMeta(maxKeys int) *rapid.Generator[map[string]string] {
	return rapid.MapOfN(GenMetaKey(), rapid.OneOf(rapid.SampledFrom([]string{"v1", "v2", "", "https://x/y"}), GenMessage()), 0, maxKeys)
}

// TextClass classifies a text for fingerprints.
func TextClass(s string) string {
	c := "ascii"
	for _, r := range s {
		if r > 127 {
			c = "unicode"
			break
		}
	}
	if s == "" {
		return "empty"
	}
	if strings.TrimSpace(s) != s {
		c += "+edgews"
	}
	if len(s) > 100 {
		c += "+long"
	}
	return c
}
