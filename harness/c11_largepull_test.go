package harness

import (
	"fmt"
	"os"
	"strings"
	"testing"

	"pgregory.net/rapid"

	"github.com/MichaelMure/git-bug/cache"
	"github.com/MichaelMure/git-bug/entities/bug"
	"github.com/MichaelMure/git-bug/entities/identity"
	"github.com/MichaelMure/git-bug/entity"
	"github.com/MichaelMure/git-bug/query"
	"github.com/MichaelMure/git-bug/repository"

	"verif/harness/internal/entropy"
	"verif/harness/internal/ondisk"
	"verif/harness/internal/report"
)

// TestC11LargePull: cache = rebuild after a pull that brings many entities at once (a first pull of a project, a
// pull after a long absence). N bugs exist in another repository, each with a word of its own; an open cache pulls
// them; then every bug gets a comment with a second word there, and the cache pulls again. After each pull the live
// cache answers the search for every word exactly like a cache rebuilt from the same git data: with that one bug.

type c11PullCase struct {
	Seed uint64 `json:"seed"`
	N    int    `json:"n"`
}

func genC11Pull(t *rapid.T) c11PullCase {
	return c11PullCase{Seed: rapid.Uint64().Draw(t, "seed"),
		N: rapid.OneOf(rapid.IntRange(1, 170), rapid.SampledFrom([]int{74, 75, 76, 77, 149, 150, 151, 152})).Draw(t, "n")}
}

func runC11Pull(tb report.TB, rep *report.Reporter, c c11PullCase) {
	entropy.Seed(c.Seed)
	defer entropy.Restore()
	root := mkdirTemp("c11p-")
	defer os.RemoveAll(root)
	src, err := repository.InitGoGitRepo(root+"/src", "git-bug")
	if err != nil {
		tb.Fatalf("harness: %v", err)
	}
	defer src.Close()
	id, _, _, err := ondisk.WriteIdentity(src, "", []ondisk.IdentityVersion{{Version: 2, UnixTime: 1600000000, Name: "project", Nonce: NonceFor(c.Seed, 11_000_000)}})
	if err != nil {
		tb.Fatalf("harness: %v", err)
	}
	author, err := identity.ReadLocal(src, entity.Id(id))
	if err != nil {
		tb.Fatalf("harness: %v", err)
	}
	var bugs []*bug.Bug
	first, second := map[string]string{}, map[string]string{}
	for k := 0; k < c.N; k++ {
		tok := fmt.Sprintf("alpha%dq%d", k, c.Seed%89)
		create := bug.NewCreateOp(author, int64(1000+k), "about "+tok, "body", nil)
		create.Nonce = NonceFor(c.Seed, 11_100_000+k)
		b := bug.NewBug()
		b.Append(create)
		if err := b.Commit(src); err != nil {
			tb.Fatalf("harness: %v", err)
		}
		bugs = append(bugs, b)
		first[tok] = string(b.Id())
	}
	host, err := repository.InitGoGitRepo(root+"/host", "git-bug")
	if err != nil {
		tb.Fatalf("harness: %v", err)
	}
	defer host.Close()
	if err := host.AddRemote("origin", root+"/src"); err != nil {
		tb.Fatalf("harness: %v", err)
	}
	rc, err := cache.NewRepoCacheNoEvents(host)
	if err != nil {
		tb.Fatalf("harness: %v", err)
	}
	defer rc.Close()
	me, err := rc.Identities().New("puller", "p@example.org")
	if err == nil {
		err = rc.SetUserIdentity(me)
	}
	if err != nil {
		tb.Fatalf("harness: %v", err)
	}
	rep.Case(fmt.Sprintf("largepull|n%d", c.N/25), c.N > 75, []string{fmt.Sprintf("bugs-per-pull:%d..", (c.N/75)*75)}, c)
	fail := func(sig, detail string) bool { return rep.Fail(tb, "C11/large-pull/"+sig, detail, c) }
	search := func(rc *cache.RepoCache, tok string) (string, error) {
		q, err := query.Parse(tok)
		if err != nil {
			tb.Fatalf("harness: %v", err)
		}
		got, err := rc.Bugs().Query(q)
		var ids []string
		for _, g := range got {
			ids = append(ids, string(g))
		}
		return strings.Join(ids, ","), err
	}
	compare := func(phase string, want map[string]string) bool {
		for tok, id := range want {
			got, err := search(rc, tok)
			if err != nil {
				if fail("query-fails/"+Normalize(err.Error()), phase+" "+tok+": "+err.Error()) {
					return true
				}
				continue
			}
			if got != id {
				if fail("live-cache-search-differs-from-rebuild/"+phase, fmt.Sprintf("%s of %d bugs: searching %q in the cache that pulled returns [%s]; git holds bug %s with that word (a cache rebuilt from git finds it)", phase, c.N, tok, got, id)) {
					return true
				}
			}
		}
		return false
	}
	if err := rc.Pull("origin"); err != nil {
		fail("pull-fails/"+Normalize(err.Error()), err.Error())
		return
	}
	if compare("first-pull", first) {
		return
	}
	for k, b := range bugs {
		tok := fmt.Sprintf("beta%dq%d", k, c.Seed%89)
		if _, _, err := bug.AddComment(b, author, int64(5000+k), "later: "+tok, nil, nil); err != nil {
			tb.Fatalf("harness: %v", err)
		}
		if err := b.Commit(src); err != nil {
			tb.Fatalf("harness: %v", err)
		}
		second[tok] = string(b.Id())
	}
	if err := rc.Pull("origin"); err != nil {
		fail("pull-fails/"+Normalize(err.Error()), err.Error())
		return
	}
	if compare("update-pull", second) {
		return
	}
	// the rebuilt cache, for the record: the reference the statement names
	if c.N <= 20 {
		_ = rc.Close()
		_ = os.RemoveAll(root + "/host/.git/git-bug/cache")
		_ = os.RemoveAll(root + "/host/.git/git-bug/indexes")
		rb, err := cache.NewRepoCacheNoEvents(host)
		if err != nil {
			tb.Fatalf("harness: rebuild: %v", err)
		}
		defer rb.Close()
		for tok, id := range second {
			if got, _ := search(rb, tok); got != id {
				tb.Fatalf("harness: the rebuilt cache does not find %q: [%s]", tok, got)
			}
		}
	}
}

func TestC11LargePull(t *testing.T) {
	Drive(t, "C11", genC11Pull, runC11Pull)
}
