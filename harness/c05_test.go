package harness

import (
	"fmt"
	"os"
	"path/filepath"
	"strings"
	"testing"

	"pgregory.net/rapid"

	"github.com/MichaelMure/git-bug/entities/bug"
	"github.com/MichaelMure/git-bug/entities/identity"
	"github.com/MichaelMure/git-bug/entity"
	"github.com/MichaelMure/git-bug/repository"
	"github.com/MichaelMure/git-bug/util/lamport"

	"verif/harness/internal/ondisk"
	"verif/harness/internal/refmodel"
	"verif/harness/internal/report"
)

// C05: logical clocks only move forward and dominate everything seen.

type c05Action struct {
	Kind  string   `json:"kind"` // inc wit new edit read peerjump peeredit pull reopen delclocks
	Clock int      `json:"clock,omitempty"`
	Value uint64   `json:"value,omitempty"`
	Bug   int      `json:"bug,omitempty"`
	Ops   []OpSpec `json:"ops,omitempty"`
}

type c05Case struct {
	Seed    uint64      `json:"seed"`
	Backend string      `json:"backend"` // gogit | mock
	Actions []c05Action `json:"actions"`
}

var c05Clocks = []string{"bugs-edit", "bugs-create", "other-clock"}

func genC05(t *rapid.T) c05Case {
	c := c05Case{Seed: rapid.Uint64().Draw(t, "seed")}
	c.Backend = rapid.SampledFrom([]string{"gogit", "gogit", "gogit", "mock"}).Draw(t, "backend")
	kinds := []string{"inc", "wit", "new", "edit", "edit", "read", "peerjump", "peeredit", "peeredit", "pull", "pull", "reopen", "delclocks", "push", "peersync"}
	if c.Backend == "mock" {
		kinds = []string{"inc", "wit", "wit", "new", "edit", "edit", "read"}
	}
	one := rapid.Custom(func(t *rapid.T) c05Action {
		a := c05Action{Kind: rapid.SampledFrom(kinds).Draw(t, "kind")}
		switch a.Kind {
		case "inc":
			a.Clock = rapid.IntRange(0, len(c05Clocks)-1).Draw(t, "clock")
		case "wit":
			a.Clock = rapid.IntRange(0, len(c05Clocks)-1).Draw(t, "clock")
			a.Value = rapid.OneOf(rapid.Uint64Range(0, 30), rapid.Uint64Range(0, 30), rapid.Uint64Range(1000, 100000)).Draw(t, "value")
		case "peerjump":
			a.Value = rapid.Uint64Range(5, 5000).Draw(t, "value")
		case "new":
			a.Ops = []OpSpec{GenCreateSpec(3, 0).Draw(t, "create")}
		case "edit", "peeredit":
			a.Bug = rapid.IntRange(0, 5).Draw(t, "bug")
			a.Ops = rapid.SliceOfN(GenOpSpec(3, 0), 1, 3).Draw(t, "ops")
		case "delclocks":
			a.Clock = rapid.IntRange(-1, 1).Draw(t, "which") // -1 = all
		}
		return a
	})
	c.Actions = rapid.SliceOfN(one, 3, 30).Draw(t, "actions")
	if c.Backend == "gogit" && rapid.IntRange(0, 3).Draw(t, "scenario") > 0 {
		// the interesting shape: a peer far ahead is merged, then the clocks are lost or the repository re-opened, then a write
		at := rapid.IntRange(0, len(c.Actions)).Draw(t, "at")
		mid := []c05Action{
			{Kind: "peerjump", Value: rapid.Uint64Range(5, 5000).Draw(t, "jump")},
			{Kind: "peeredit", Bug: rapid.IntRange(0, 5).Draw(t, "pbug"), Ops: rapid.SliceOfN(GenOpSpec(3, 0), 1, 3).Draw(t, "pops")},
			{Kind: "pull"},
		}
		tail := []c05Action{
			{Kind: rapid.SampledFrom([]string{"reopen", "delclocks", "delclocks"}).Draw(t, "loss"), Clock: rapid.IntRange(-1, 1).Draw(t, "which")},
			{Kind: rapid.SampledFrom([]string{"edit", "new"}).Draw(t, "write"), Bug: rapid.IntRange(0, 5).Draw(t, "wbug"),
				Ops: []OpSpec{GenCreateSpec(3, 0).Draw(t, "wcreate")}},
		}
		if tail[1].Kind == "edit" {
			tail[1].Ops = rapid.SliceOfN(GenOpSpec(3, 0), 1, 2).Draw(t, "wops")
		}
		if rapid.Bool().Draw(t, "foreignMerge") {
			// the subject fast-forwards to a merge commit made by the peer (the highest time of the bug sits on a
			// commit without operations), then writes
			k := rapid.IntRange(0, 5).Draw(t, "mbug")
			mid = append(mid,
				c05Action{Kind: "edit", Bug: k, Ops: rapid.SliceOfN(GenOpSpec(3, 0), 1, 2).Draw(t, "mops1")},
				c05Action{Kind: "push"},
				c05Action{Kind: "peeredit", Bug: k, Ops: rapid.SliceOfN(GenOpSpec(3, 0), 1, 2).Draw(t, "mops2")},
				c05Action{Kind: "peersync"},
				c05Action{Kind: "pull"},
				c05Action{Kind: "edit", Bug: k, Ops: rapid.SliceOfN(GenOpSpec(3, 0), 1, 2).Draw(t, "mops3")})
		}
		out := append([]c05Action(nil), c.Actions[:at]...)
		out = append(out, mid...)
		out = append(out, c.Actions[at:]...)
		c.Actions = append(out, tail...)
	}
	return c
}

// storedMax scans every local bug with the independent reader.
func storedMax(repo repository.ClockedRepo) (edit, create uint64) {
	for _, id := range localBugIds(repo) {
		if d, err := ondisk.ReadDAG(repo, "refs/bugs/"+id); err == nil {
			e, c := d.MaxClocks()
			if e > edit {
				edit = e
			}
			if c > create {
				create = c
			}
		}
	}
	return
}

func runC05(tb report.TB, rep *report.Reporter, c c05Case) {
	fail := func(sig, detail string) bool { return rep.Fail(tb, "C05/"+c.Backend+"/"+sig, detail, c) }

	var w *World
	var repo repository.ClockedRepo
	var subject *Replica
	var mockAuthors []identity.Interface
	if c.Backend == "gogit" {
		var err error
		w, err = NewWorld(2, c.Seed)
		if err != nil {
			tb.Fatalf("harness: world: %v", err)
		}
		defer w.Close()
		subject = w.Replicas[0]
		repo = subject.Repo
	} else {
		mock := repository.NewMockRepo()
		repo = mock
		for i := 0; i < 3; i++ {
			id, _, _, err := ondisk.WriteIdentity(mock, "", []ondisk.IdentityVersion{{Version: 2, UnixTime: 1600000000 + int64(i),
				Name: fmt.Sprintf("user%d", i), Nonce: NonceFor(c.Seed, 1_000_000+i)}})
			if err != nil {
				tb.Fatalf("harness: %v", err)
			}
			a, err := identity.ReadLocal(mock, entity.Id(id))
			if err != nil {
				tb.Fatalf("harness: %v", err)
			}
			mockAuthors = append(mockAuthors, a)
		}
	}

	low := map[string]uint64{} // lower bound of each clock's Time()
	bump := func(name string, v uint64) {
		if v > low[name] {
			low[name] = v
		}
	}
	mockBugs := []*bug.Bug{}
	seq := 0
	var kinds []string
	peerMerged, reopenAfterMerge := false, false

	checkClocks := func(when string) bool {
		clocks, err := repo.AllClocks()
		if err != nil {
			return fail("clocks-unusable/"+Normalize(err.Error()), when+": "+err.Error())
		}
		for name, lo := range low {
			cl, ok := clocks[name]
			if !ok {
				if lo > 0 {
					// a clock that was used must still exist (unless its file was deleted: then low was reset)
					return fail("clock-vanished", fmt.Sprintf("%s: clock %s (>= %d) no longer exists", when, name, lo))
				}
				continue
			}
			if uint64(cl.Time()) < lo {
				return fail("clock-went-backwards/"+when0(when), fmt.Sprintf("%s: clock %s shows %d, it was at least %d before", when, name, cl.Time(), lo))
			}
			bump(name, uint64(cl.Time()))
		}
		return false
	}

	// commitAndCheck commits b and checks the edit time law against everything stored/seen before.
	commitAndCheck := func(b *bug.Bug, isNew bool) bool {
		storedEdit, _ := storedMax(repo)
		before := low["bugs-edit"]
		if storedEdit > before {
			// a time stored in a local commit that the clock does not dominate will be caught below too
		}
		var prevHead string
		if !isNew {
			if h, err := repo.ResolveRef("refs/bugs/" + string(b.Id())); err == nil {
				prevHead = string(h)
			}
		}
		if err := b.Commit(repo); err != nil {
			return fail("commit-failed/"+Normalize(err.Error()), err.Error())
		}
		id := string(b.Id())
		d, err := ondisk.ReadDAG(repo, "refs/bugs/"+id)
		if err != nil {
			return fail("written-commit-unparsable", err.Error())
		}
		// new commits = those not reachable from prevHead
		old := map[string]bool{}
		if prevHead != "" {
			if od, err := ondisk.ReadDAGAt(repo, prevHead); err == nil {
				for h := range od.Packs {
					old[h] = true
				}
			}
		}
		for h, p := range d.Packs {
			if old[h] {
				continue
			}
			if !p.HasEdit {
				return fail("commit-without-edit-time", h)
			}
			if p.EditClock <= before {
				return fail("edit-time-not-above-clock", fmt.Sprintf("new commit %s has edit time %d; the bugs-edit clock had already reached %d", h[:8], p.EditClock, before))
			}
			if p.EditClock <= storedEdit {
				return fail("edit-time-not-above-stored-commits", fmt.Sprintf("new commit %s has edit time %d; a local commit already carries %d", h[:8], p.EditClock, storedEdit))
			}
			bump("bugs-edit", p.EditClock)
			if p.HasCreate {
				bump("bugs-create", p.CreateClock)
			}
		}
		// it can read back what it wrote
		if _, err := bug.Read(repo, entity.Id(id)); err != nil {
			return fail("cannot-read-back-own-write/"+Normalize(err.Error()), err.Error())
		}
		return false
	}

	build := func(b *bug.Bug, specs []OpSpec, authorsRepo *Replica) int {
		var prev []Built
		for _, op := range b.Operations() {
			prev = append(prev, Built{Id: string(op.Id()), Kind: refmodel.TypeToKind[int(op.Type())]})
		}
		n := 0
		for _, s := range specs {
			seq++
			var op bug.Operation
			if authorsRepo != nil {
				op, _ = BuildOp(s, authorsRepo.Authors, prev, nil, NonceFor(c.Seed, 3_000_000+seq))
			} else {
				op, _ = BuildOp(s, mockAuthors, prev, nil, NonceFor(c.Seed, 3_000_000+seq))
			}
			if op.Validate() != nil {
				continue
			}
			b.Append(op)
			prev = append(prev, Built{Id: string(op.Id()), Kind: s.Kind})
			n++
		}
		return n
	}

	for i, a := range c.Actions {
		kinds = append(kinds, a.Kind)
		when := fmt.Sprintf("action #%d %s", i, a.Kind)
		switch a.Kind {
		case "inc":
			name := c05Clocks[a.Clock]
			v, err := repo.Increment(name)
			if err != nil {
				if fail("increment-failed/"+Normalize(err.Error()), err.Error()) {
					return
				}
			}
			if uint64(v) <= low[name] && low[name] > 0 {
				if fail("increment-not-above-previous", fmt.Sprintf("%s: Increment(%s) returned %d, clock was at least %d", when, name, v, low[name])) {
					return
				}
			}
			bump(name, uint64(v))
		case "wit":
			name := c05Clocks[a.Clock]
			if err := repo.Witness(name, lamport.Time(a.Value)); err != nil {
				if fail("witness-failed/"+Normalize(err.Error()), err.Error()) {
					return
				}
			}
			bump(name, a.Value)
			if low[name] == 0 {
				bump(name, 1)
			}
		case "new":
			b := bug.NewBug()
			if build(b, a.Ops, subject) == 0 {
				continue
			}
			if commitAndCheck(b, true) {
				return
			}
			if subject == nil {
				mockBugs = append(mockBugs, b)
			}
		case "edit":
			var b *bug.Bug
			if subject != nil {
				ids := localBugIds(repo)
				if len(ids) == 0 {
					continue
				}
				var err error
				b, err = bug.Read(repo, entity.Id(ids[a.Bug%len(ids)]))
				if err != nil {
					if fail("local-bug-unreadable/"+Normalize(err.Error()), err.Error()) {
						return
					}
				}
			} else {
				if len(mockBugs) == 0 {
					continue
				}
				b = mockBugs[a.Bug%len(mockBugs)]
			}
			if build(b, a.Ops, subject) == 0 {
				continue
			}
			if commitAndCheck(b, false) {
				return
			}
		case "read":
			for _, id := range localBugIds(repo) {
				if _, err := bug.Read(repo, entity.Id(id)); err != nil {
					if fail("local-bug-unreadable/"+Normalize(err.Error()), err.Error()) {
						return
					}
				}
			}
			e, cr := storedMax(repo)
			if e > 0 {
				bump("bugs-edit", e) // reading witnesses what is stored
				bump("bugs-create", cr)
			}
		case "peerjump":
			peer := w.Replicas[1]
			_ = peer.Repo.Witness("bugs-edit", lamport.Time(a.Value))
		case "peeredit":
			peer := w.Replicas[1]
			ids := localBugIds(peer.Repo)
			var err error
			if len(ids) == 0 {
				err = w.execEdit(peer, nil, []OpSpec{{Kind: refmodel.KCreate, Author: 1, Time: 5, Title: "peer bug"}})
			} else {
				id := ids[a.Bug%len(ids)]
				err = w.execEdit(peer, &id, a.Ops)
			}
			if err == nil {
				err = w.Push(peer)
			}
			if err != nil {
				tb.Fatalf("harness: peer: %v", err)
			}
		case "push":
			if err := w.Push(subject); err != nil {
				if ee, ok := err.(*ExecError); ok {
					if fail("push/"+ee.Sig, ee.Detail) {
						return
					}
				}
				tb.Fatalf("harness: %v", err)
			}
		case "peersync":
			// the peer merges what the subject published (a merge commit when both edited the same bug) and publishes the result
			peer := w.Replicas[1]
			if _, err := w.Pull(peer); err != nil {
				if ee, ok := err.(*ExecError); ok {
					if fail("peer-pull/"+ee.Sig, ee.Detail) {
						return
					}
				}
				tb.Fatalf("harness: %v", err)
			}
			if err := w.Push(peer); err != nil {
				tb.Fatalf("harness: peer push: %v", err)
			}
		case "pull":
			if _, err := w.Pull(subject); err != nil {
				if ee, ok := err.(*ExecError); ok {
					if fail("pull/"+ee.Sig, ee.Detail) {
						return
					}
				}
				tb.Fatalf("harness: %v", err)
			}
			e, cr := storedMax(repo)
			if e > low["bugs-edit"] {
				peerMerged = true
			}
			if e > 0 {
				bump("bugs-edit", e) // merged entities were read: their times are witnessed
				bump("bugs-create", cr)
			}
		case "reopen", "delclocks":
			if a.Kind == "delclocks" {
				dir := filepath.Join(subject.Path, ".git", "git-bug", "clocks")
				if a.Clock < 0 {
					_ = os.RemoveAll(dir)
					low = map[string]uint64{}
				} else {
					name := c05Clocks[a.Clock]
					_ = os.Remove(filepath.Join(dir, name))
					delete(low, name)
				}
				// what must be rebuilt: at least the maximum stored in local entities
				e, cr := storedMax(repo)
				if e > 0 {
					if _, ok := low["bugs-edit"]; !ok {
						low["bugs-edit"] = e
					}
					if _, ok := low["bugs-create"]; !ok {
						low["bugs-create"] = cr
					}
				}
			}
			if peerMerged {
				reopenAfterMerge = true
			}
			_ = subject.Repo.Close()
			re, err := repository.OpenGoGitRepo(subject.Path, "git-bug", []repository.ClockLoader{bug.ClockLoader})
			if err != nil {
				if fail("reopen-failed/"+Normalize(err.Error()), err.Error()) {
					return
				}
			}
			subject.Repo = re
			subject.Handles = map[string]*bug.Bug{}
			repo = re
		}
		if checkClocks(when) {
			return
		}
	}
	classes := dedup(kinds)
	if reopenAfterMerge {
		classes = append(classes, "reopen-or-delete-after-peer-merge")
	}
	classes = append(classes, "backend:"+c.Backend)
	rep.Case(c.Backend+"|"+strings.Join(kinds, ","), reopenAfterMerge || (c.Backend == "mock" && len(kinds) > 5), classes, c)
}

func when0(s string) string {
	f := strings.Fields(s)
	return f[len(f)-1]
}

func TestC05Clocks(t *testing.T) {
	Drive(t, "C05", genC05, runC05)
}

// ---------------------------------------------------------------- CLI level: the real binary, with clock files lost between commands

type c05CLIStep struct {
	Kind  string `json:"kind"` // new comment pull peeredit delclocks close
	Bug   int    `json:"bug,omitempty"`
	Which int    `json:"which,omitempty"` // delclocks: -1 all, 0 bugs-edit, 1 bugs-create
	Jump  int    `json:"jump,omitempty"`
}

type c05CLICase struct {
	Seed  uint64       `json:"seed"`
	Steps []c05CLIStep `json:"steps"`
}

func genC05CLI(t *rapid.T) c05CLICase {
	c := c05CLICase{Seed: rapid.Uint64().Draw(t, "seed")}
	one := rapid.Custom(func(t *rapid.T) c05CLIStep {
		return c05CLIStep{Kind: rapid.SampledFrom([]string{"new", "comment", "comment", "close", "pull", "peeredit", "delclocks", "delclocks"}).Draw(t, "kind"),
			Bug: rapid.IntRange(0, 4).Draw(t, "bug"), Which: rapid.IntRange(-1, 1).Draw(t, "which"), Jump: rapid.IntRange(3, 400).Draw(t, "jump")}
	})
	c.Steps = append([]c05CLIStep{{Kind: "new"}, {Kind: "comment"}, {Kind: "comment"}}, rapid.SliceOfN(one, 2, 10).Draw(t, "steps")...)
	// the shape of interest: times above the clock are stored locally, the clock files disappear, a write follows
	c.Steps = append(c.Steps, c05CLIStep{Kind: "peeredit", Jump: rapid.IntRange(3, 400).Draw(t, "pjump")}, c05CLIStep{Kind: "pull"})
	if rapid.IntRange(0, 2).Draw(t, "stockFetch") == 0 {
		// the peer's bugs reach the local references through stock git (a script, a mirror job), then git-bug pulls
		// the same commits: nothing to merge, but the times stored in them are now stored locally
		c.Steps = append(c.Steps, c05CLIStep{Kind: "peeredit", Jump: rapid.IntRange(3, 400).Draw(t, "sjump")}, c05CLIStep{Kind: "gitfetchlocal"}, c05CLIStep{Kind: "pull"},
			c05CLIStep{Kind: rapid.SampledFrom([]string{"new", "comment"}).Draw(t, "sWrite"), Bug: rapid.IntRange(0, 4).Draw(t, "sBug")})
	}
	if rapid.IntRange(0, 2).Draw(t, "packRefs") == 0 {
		// what `git gc` does between two commands: every reference moves into .git/packed-refs
		c.Steps = append(c.Steps, c05CLIStep{Kind: "packrefs"})
	}
	if rapid.IntRange(0, 2).Draw(t, "badRef") == 0 {
		// a reference under refs/bugs/ that is not a bug (damaged, or written by something else), listed first or last
		c.Steps = append(c.Steps, c05CLIStep{Kind: "badref", Which: rapid.IntRange(0, 1).Draw(t, "badWhere")})
	}
	c.Steps = append(c.Steps,
		c05CLIStep{Kind: "delclocks", Which: rapid.IntRange(-1, 1).Draw(t, "lastWhich")},
		c05CLIStep{Kind: rapid.SampledFrom([]string{"new", "comment"}).Draw(t, "lastWrite"), Bug: rapid.IntRange(0, 4).Draw(t, "lastBug")})
	return c
}

func runC05CLI(tb report.TB, rep *report.Reporter, c c05CLICase) {
	root := mkdirTemp("c05cli-")
	defer os.RemoveAll(root)
	host, peerDir, remote := filepath.Join(root, "host"), filepath.Join(root, "peer"), filepath.Join(root, "remote.git")
	for _, args := range [][]string{{"init", "-q", host}, {"init", "-q", peerDir}, {"init", "-q", "--bare", remote}} {
		if res := RunGit(root, args...); res.Code != 0 {
			tb.Fatalf("harness: %s", res.Out)
		}
	}
	RunGit(host, "remote", "add", "origin", remote)
	RunGit(peerDir, "remote", "add", "origin", remote)
	for _, d := range []string{host, peerDir} {
		if res := RunCLI(d, "user", "new", "-n", "clock user", "-e", "c@example.org", "--non-interactive"); res.Code != 0 {
			tb.Fatalf("harness: user new: %s", res.Out)
		}
	}
	fail := func(sig, detail string) bool { return rep.Fail(tb, "C05/cli/"+sig, detail, c) }
	stored := func() (edit, create uint64, heads map[string]string) {
		repo, err := repository.OpenGoGitRepo(host, "git-bug", nil)
		if err != nil {
			tb.Fatalf("harness: %v", err)
		}
		defer repo.Close()
		heads = refsUnder(repo, "refs/bugs/")
		for ref := range heads {
			if d, err := ondisk.ReadDAG(repo, ref); err == nil {
				e, cr := d.MaxClocks()
				if e > edit {
					edit = e
				}
				if cr > create {
					create = cr
				}
			}
		}
		return
	}
	ids := func(dir string) []string { return strings.Fields(RunCLI(dir, "bug", "-f", "id").Out) }
	var kinds []string
	lossAfterMerge, merged, badRef, packed, stockFetched := false, false, false, false, false
	for i, s := range c.Steps {
		kinds = append(kinds, s.Kind)
		switch s.Kind {
		case "peeredit":
			// the peer's clock is far ahead
			pr, err := repository.OpenGoGitRepo(peerDir, "git-bug", nil)
			if err != nil {
				tb.Fatalf("harness: %v", err)
			}
			cur := uint64(1)
			if cl, err := pr.AllClocks(); err == nil {
				if x, ok := cl["bugs-edit"]; ok {
					cur = uint64(x.Time())
				}
			}
			_ = pr.Witness("bugs-edit", lamport.Time(cur+uint64(s.Jump)))
			_ = pr.Close()
			RunCLI(peerDir, "pull", "origin")
			if l := ids(peerDir); len(l) > 0 {
				RunCLI(peerDir, "bug", "comment", "new", l[s.Bug%len(l)], "-m", "peer comment", "--non-interactive")
			} else {
				RunCLI(peerDir, "bug", "new", "-t", "peer bug", "-m", "m", "--non-interactive")
			}
			RunCLI(peerDir, "push", "origin")
			continue
		case "gitfetchlocal":
			if res := RunGit(host, "fetch", "-q", "origin", "refs/bugs/*:refs/bugs/*", "refs/identities/*:refs/identities/*"); res.Code != 0 {
				continue // not a fast-forward for some reference: stock git refuses, nothing happened
			}
			stockFetched = true
			continue
		case "packrefs":
			if res := RunGit(host, "pack-refs", "--all", "--prune"); res.Code != 0 {
				tb.Fatalf("harness: pack-refs: %s", res.Out)
			}
			packed = true
			continue
		case "badref":
			tree := strings.TrimSpace(RunGit(host, "hash-object", "-t", "tree", "-w", "--stdin").Out)
			cm := RunGit(host, "-c", "user.name=x", "-c", "user.email=x@example.org", "commit-tree", tree, "-m", "not a bug")
			name := strings.Repeat("0", 64)
			if s.Which == 1 {
				name = strings.Repeat("f", 64)
			}
			if res := RunGit(host, "update-ref", "refs/bugs/"+name, strings.TrimSpace(cm.Out)); cm.Code != 0 || res.Code != 0 {
				tb.Fatalf("harness: bad ref: %s %s", cm.Out, res.Out)
			}
			badRef = true
			continue
		case "delclocks":
			dir := filepath.Join(host, ".git", "git-bug", "clocks")
			switch s.Which {
			case -1:
				_ = os.RemoveAll(dir)
			case 0:
				_ = os.Remove(filepath.Join(dir, "bugs-edit"))
			default:
				_ = os.Remove(filepath.Join(dir, "bugs-create"))
			}
			if merged {
				lossAfterMerge = true
			}
			continue
		}
		maxEdit, maxCreate, headsBefore := stored()
		var res CLIResult
		l := ids(host)
		switch s.Kind {
		case "new":
			res = RunCLI(host, "bug", "new", "-t", fmt.Sprintf("bug %d", i), "-m", "m", "--non-interactive")
		case "comment":
			if len(l) == 0 {
				continue
			}
			res = RunCLI(host, "bug", "comment", "new", l[s.Bug%len(l)], "-m", fmt.Sprintf("comment %d", i), "--non-interactive")
		case "close":
			if len(l) == 0 {
				continue
			}
			res = RunCLI(host, "bug", "status", "close", l[s.Bug%len(l)])
		case "pull":
			res = RunCLI(host, "pull", "origin")
			if e2, _, _ := stored(); e2 > maxEdit {
				merged = true
			}
		}
		where := fmt.Sprintf("step #%d %s", i, s.Kind)
		// with a reference that cannot be read under refs/bugs/ a command may refuse to run (lost clocks cannot be
		// rebuilt): refusing is fine, writing below the stored times is not
		if res.Code != 0 && (s.Kind == "new" || s.Kind == "comment") && !badRef {
			if fail("command-fails/"+s.Kind+"/"+Normalize(lastLine(res.Out)), where+": "+res.Out) {
				return
			}
		}
		// every commit this command wrote carries times above everything stored before it
		repo, err := repository.OpenGoGitRepo(host, "git-bug", nil)
		if err != nil {
			tb.Fatalf("harness: %v", err)
		}
		for ref, head := range refsUnder(repo, "refs/bugs/") {
			if headsBefore[ref] == head || s.Kind == "pull" {
				continue
			}
			d, err := ondisk.ReadDAG(repo, ref)
			if err != nil {
				continue
			}
			old := map[string]bool{}
			if h, ok := headsBefore[ref]; ok {
				if od, err := ondisk.ReadDAGAt(repo, h); err == nil {
					for k := range od.Packs {
						old[k] = true
					}
				}
			}
			for h, p := range d.Packs {
				if old[h] {
					continue
				}
				if p.EditClock <= maxEdit {
					_ = repo.Close()
					if fail("edit-time-not-above-stored-commits", fmt.Sprintf("%s wrote commit %s with edit time %d although a local commit already stores %d", where, h[:8], p.EditClock, maxEdit)) {
						return
					}
				}
				if p.HasCreate && p.CreateClock <= maxCreate {
					_ = repo.Close()
					if fail("create-time-not-above-stored-commits", fmt.Sprintf("%s wrote commit %s with create time %d although a local bug already stores %d", where, h[:8], p.CreateClock, maxCreate)) {
						return
					}
				}
			}
		}
		_ = repo.Close()
		// and the repository can read back what it wrote
		if out := RunCLI(host, "bug"); out.Code != 0 && !badRef {
			if fail("cannot-read-back/"+Normalize(lastLine(out.Out)), out.Out) {
				return
			}
		}
	}
	rep.Case("cli|"+strings.Join(kinds, ","), lossAfterMerge, []string{"cli", fmt.Sprintf("clock-loss-after-merge:%v", lossAfterMerge), fmt.Sprintf("unreadable-reference-among-the-bugs:%v", badRef), fmt.Sprintf("references-packed:%v", packed), fmt.Sprintf("local-references-moved-by-stock-git:%v", stockFetched)}, c)
}

func TestC05CLI(t *testing.T) {
	Drive(t, "C05", genC05CLI, runC05CLI)
}
