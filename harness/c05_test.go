package harness

import (
	"fmt"
	"os"
	"path/filepath"
	"strings"
	"testing"

	"pgregory.net/rapid"

	"github.com/MichaelMure/git-bug/entities/bug"
	"github.com/MichaelMure/git-bug/entities/identity"
	"github.com/MichaelMure/git-bug/entity"
	"github.com/MichaelMure/git-bug/repository"
	"github.com/MichaelMure/git-bug/util/lamport"

	"verif/harness/internal/ondisk"
	"verif/harness/internal/refmodel"
	"verif/harness/internal/report"
)

// C05: logical clocks only move forward and dominate everything seen.

type c05Action struct {
	Kind  string   `json:"kind"` // inc wit new edit read peerjump peeredit pull reopen delclocks
	Clock int      `json:"clock,omitempty"`
	Value uint64   `json:"value,omitempty"`
	Bug   int      `json:"bug,omitempty"`
	Ops   []OpSpec `json:"ops,omitempty"`
}

type c05Case struct {
	Seed    uint64      `json:"seed"`
	Backend string      `json:"backend"` // gogit | mock
	Actions []c05Action `json:"actions"`
}

var c05Clocks = []string{"bugs-edit", "bugs-create", "other-clock"}

func genC05(t *rapid.T) c05Case {
	c := c05Case{Seed: rapid.Uint64().Draw(t, "seed")}
	c.Backend = rapid.SampledFrom([]string{"gogit", "gogit", "gogit", "mock"}).Draw(t, "backend")
	kinds := []string{"inc", "wit", "new", "edit", "edit", "read", "peerjump", "peeredit", "peeredit", "pull", "pull", "reopen", "delclocks"}
	if c.Backend == "mock" {
		kinds = []string{"inc", "wit", "wit", "new", "edit", "edit", "read"}
	}
	one := rapid.Custom(func(t *rapid.T) c05Action {
		a := c05Action{Kind: rapid.SampledFrom(kinds).Draw(t, "kind")}
		switch a.Kind {
		case "inc":
			a.Clock = rapid.IntRange(0, len(c05Clocks)-1).Draw(t, "clock")
		case "wit":
			a.Clock = rapid.IntRange(0, len(c05Clocks)-1).Draw(t, "clock")
			a.Value = rapid.OneOf(rapid.Uint64Range(0, 30), rapid.Uint64Range(0, 30), rapid.Uint64Range(1000, 100000)).Draw(t, "value")
		case "peerjump":
			a.Value = rapid.Uint64Range(5, 5000).Draw(t, "value")
		case "new":
			a.Ops = []OpSpec{GenCreateSpec(3, 0).Draw(t, "create")}
		case "edit", "peeredit":
			a.Bug = rapid.IntRange(0, 5).Draw(t, "bug")
			a.Ops = rapid.SliceOfN(GenOpSpec(3, 0), 1, 3).Draw(t, "ops")
		case "delclocks":
			a.Clock = rapid.IntRange(-1, 1).Draw(t, "which") // -1 = all
		}
		return a
	})
	c.Actions = rapid.SliceOfN(one, 3, 30).Draw(t, "actions")
	if c.Backend == "gogit" && rapid.IntRange(0, 3).Draw(t, "scenario") > 0 {
		// the interesting shape: a peer far ahead is merged, then the clocks are lost or the repository re-opened, then a write
		at := rapid.IntRange(0, len(c.Actions)).Draw(t, "at")
		mid := []c05Action{
			{Kind: "peerjump", Value: rapid.Uint64Range(5, 5000).Draw(t, "jump")},
			{Kind: "peeredit", Bug: rapid.IntRange(0, 5).Draw(t, "pbug"), Ops: rapid.SliceOfN(GenOpSpec(3, 0), 1, 3).Draw(t, "pops")},
			{Kind: "pull"},
		}
		tail := []c05Action{
			{Kind: rapid.SampledFrom([]string{"reopen", "delclocks", "delclocks"}).Draw(t, "loss"), Clock: rapid.IntRange(-1, 1).Draw(t, "which")},
			{Kind: rapid.SampledFrom([]string{"edit", "new"}).Draw(t, "write"), Bug: rapid.IntRange(0, 5).Draw(t, "wbug"),
				Ops: []OpSpec{GenCreateSpec(3, 0).Draw(t, "wcreate")}},
		}
		if tail[1].Kind == "edit" {
			tail[1].Ops = rapid.SliceOfN(GenOpSpec(3, 0), 1, 2).Draw(t, "wops")
		}
		out := append([]c05Action(nil), c.Actions[:at]...)
		out = append(out, mid...)
		out = append(out, c.Actions[at:]...)
		c.Actions = append(out, tail...)
	}
	return c
}

// storedMax scans every local bug with the independent reader.
func storedMax(repo repository.ClockedRepo) (edit, create uint64) {
	for _, id := range localBugIds(repo) {
		if d, err := ondisk.ReadDAG(repo, "refs/bugs/"+id); err == nil {
			e, c := d.MaxClocks()
			if e > edit {
				edit = e
			}
			if c > create {
				create = c
			}
		}
	}
	return
}

func runC05(tb report.TB, rep *report.Reporter, c c05Case) {
	fail := func(sig, detail string) bool { return rep.Fail(tb, "C05/"+c.Backend+"/"+sig, detail, c) }

	var w *World
	var repo repository.ClockedRepo
	var subject *Replica
	var mockAuthors []identity.Interface
	if c.Backend == "gogit" {
		var err error
		w, err = NewWorld(2, c.Seed)
		if err != nil {
			tb.Fatalf("harness: world: %v", err)
		}
		defer w.Close()
		subject = w.Replicas[0]
		repo = subject.Repo
	} else {
		mock := repository.NewMockRepo()
		repo = mock
		for i := 0; i < 3; i++ {
			id, _, _, err := ondisk.WriteIdentity(mock, "", []ondisk.IdentityVersion{{Version: 2, UnixTime: 1600000000 + int64(i),
				Name: fmt.Sprintf("user%d", i), Nonce: NonceFor(c.Seed, 1_000_000+i)}})
			if err != nil {
				tb.Fatalf("harness: %v", err)
			}
			a, err := identity.ReadLocal(mock, entity.Id(id))
			if err != nil {
				tb.Fatalf("harness: %v", err)
			}
			mockAuthors = append(mockAuthors, a)
		}
	}

	low := map[string]uint64{} // lower bound of each clock's Time()
	bump := func(name string, v uint64) {
		if v > low[name] {
			low[name] = v
		}
	}
	mockBugs := []*bug.Bug{}
	seq := 0
	var kinds []string
	peerMerged, reopenAfterMerge := false, false

	checkClocks := func(when string) bool {
		clocks, err := repo.AllClocks()
		if err != nil {
			return fail("clocks-unusable/"+Normalize(err.Error()), when+": "+err.Error())
		}
		for name, lo := range low {
			cl, ok := clocks[name]
			if !ok {
				if lo > 0 {
					// a clock that was used must still exist (unless its file was deleted: then low was reset)
					return fail("clock-vanished", fmt.Sprintf("%s: clock %s (>= %d) no longer exists", when, name, lo))
				}
				continue
			}
			if uint64(cl.Time()) < lo {
				return fail("clock-went-backwards/"+when0(when), fmt.Sprintf("%s: clock %s shows %d, it was at least %d before", when, name, cl.Time(), lo))
			}
			bump(name, uint64(cl.Time()))
		}
		return false
	}

	// commitAndCheck commits b and checks the edit time law against everything stored/seen before.
	commitAndCheck := func(b *bug.Bug, isNew bool) bool {
		storedEdit, _ := storedMax(repo)
		before := low["bugs-edit"]
		if storedEdit > before {
			// a time stored in a local commit that the clock does not dominate will be caught below too
		}
		var prevHead string
		if !isNew {
			if h, err := repo.ResolveRef("refs/bugs/" + string(b.Id())); err == nil {
				prevHead = string(h)
			}
		}
		if err := b.Commit(repo); err != nil {
			return fail("commit-failed/"+Normalize(err.Error()), err.Error())
		}
		id := string(b.Id())
		d, err := ondisk.ReadDAG(repo, "refs/bugs/"+id)
		if err != nil {
			return fail("written-commit-unparsable", err.Error())
		}
		// new commits = those not reachable from prevHead
		old := map[string]bool{}
		if prevHead != "" {
			if od, err := ondisk.ReadDAGAt(repo, prevHead); err == nil {
				for h := range od.Packs {
					old[h] = true
				}
			}
		}
		for h, p := range d.Packs {
			if old[h] {
				continue
			}
			if !p.HasEdit {
				return fail("commit-without-edit-time", h)
			}
			if p.EditClock <= before {
				return fail("edit-time-not-above-clock", fmt.Sprintf("new commit %s has edit time %d; the bugs-edit clock had already reached %d", h[:8], p.EditClock, before))
			}
			if p.EditClock <= storedEdit {
				return fail("edit-time-not-above-stored-commits", fmt.Sprintf("new commit %s has edit time %d; a local commit already carries %d", h[:8], p.EditClock, storedEdit))
			}
			bump("bugs-edit", p.EditClock)
			if p.HasCreate {
				bump("bugs-create", p.CreateClock)
			}
		}
		// it can read back what it wrote
		if _, err := bug.Read(repo, entity.Id(id)); err != nil {
			return fail("cannot-read-back-own-write/"+Normalize(err.Error()), err.Error())
		}
		return false
	}

	build := func(b *bug.Bug, specs []OpSpec, authorsRepo *Replica) int {
		var prev []Built
		for _, op := range b.Operations() {
			prev = append(prev, Built{Id: string(op.Id()), Kind: refmodel.TypeToKind[int(op.Type())]})
		}
		n := 0
		for _, s := range specs {
			seq++
			var op bug.Operation
			if authorsRepo != nil {
				op, _ = BuildOp(s, authorsRepo.Authors, prev, nil, NonceFor(c.Seed, 3_000_000+seq))
			} else {
				op, _ = BuildOp(s, mockAuthors, prev, nil, NonceFor(c.Seed, 3_000_000+seq))
			}
			if op.Validate() != nil {
				continue
			}
			b.Append(op)
			prev = append(prev, Built{Id: string(op.Id()), Kind: s.Kind})
			n++
		}
		return n
	}

	for i, a := range c.Actions {
		kinds = append(kinds, a.Kind)
		when := fmt.Sprintf("action #%d %s", i, a.Kind)
		switch a.Kind {
		case "inc":
			name := c05Clocks[a.Clock]
			v, err := repo.Increment(name)
			if err != nil {
				if fail("increment-failed/"+Normalize(err.Error()), err.Error()) {
					return
				}
			}
			if uint64(v) <= low[name] && low[name] > 0 {
				if fail("increment-not-above-previous", fmt.Sprintf("%s: Increment(%s) returned %d, clock was at least %d", when, name, v, low[name])) {
					return
				}
			}
			bump(name, uint64(v))
		case "wit":
			name := c05Clocks[a.Clock]
			if err := repo.Witness(name, lamport.Time(a.Value)); err != nil {
				if fail("witness-failed/"+Normalize(err.Error()), err.Error()) {
					return
				}
			}
			bump(name, a.Value)
			if low[name] == 0 {
				bump(name, 1)
			}
		case "new":
			b := bug.NewBug()
			if build(b, a.Ops, subject) == 0 {
				continue
			}
			if commitAndCheck(b, true) {
				return
			}
			if subject == nil {
				mockBugs = append(mockBugs, b)
			}
		case "edit":
			var b *bug.Bug
			if subject != nil {
				ids := localBugIds(repo)
				if len(ids) == 0 {
					continue
				}
				var err error
				b, err = bug.Read(repo, entity.Id(ids[a.Bug%len(ids)]))
				if err != nil {
					if fail("local-bug-unreadable/"+Normalize(err.Error()), err.Error()) {
						return
					}
				}
			} else {
				if len(mockBugs) == 0 {
					continue
				}
				b = mockBugs[a.Bug%len(mockBugs)]
			}
			if build(b, a.Ops, subject) == 0 {
				continue
			}
			if commitAndCheck(b, false) {
				return
			}
		case "read":
			for _, id := range localBugIds(repo) {
				if _, err := bug.Read(repo, entity.Id(id)); err != nil {
					if fail("local-bug-unreadable/"+Normalize(err.Error()), err.Error()) {
						return
					}
				}
			}
			e, cr := storedMax(repo)
			if e > 0 {
				bump("bugs-edit", e) // reading witnesses what is stored
				bump("bugs-create", cr)
			}
		case "peerjump":
			peer := w.Replicas[1]
			_ = peer.Repo.Witness("bugs-edit", lamport.Time(a.Value))
		case "peeredit":
			peer := w.Replicas[1]
			ids := localBugIds(peer.Repo)
			var err error
			if len(ids) == 0 {
				err = w.execEdit(peer, nil, []OpSpec{{Kind: refmodel.KCreate, Author: 1, Time: 5, Title: "peer bug"}})
			} else {
				id := ids[a.Bug%len(ids)]
				err = w.execEdit(peer, &id, a.Ops)
			}
			if err == nil {
				err = w.Push(peer)
			}
			if err != nil {
				tb.Fatalf("harness: peer: %v", err)
			}
		case "pull":
			if _, err := w.Pull(subject); err != nil {
				if ee, ok := err.(*ExecError); ok {
					if fail("pull/"+ee.Sig, ee.Detail) {
						return
					}
				}
				tb.Fatalf("harness: %v", err)
			}
			e, cr := storedMax(repo)
			if e > low["bugs-edit"] {
				peerMerged = true
			}
			if e > 0 {
				bump("bugs-edit", e) // merged entities were read: their times are witnessed
				bump("bugs-create", cr)
			}
		case "reopen", "delclocks":
			if a.Kind == "delclocks" {
				dir := filepath.Join(subject.Path, ".git", "git-bug", "clocks")
				if a.Clock < 0 {
					_ = os.RemoveAll(dir)
					low = map[string]uint64{}
				} else {
					name := c05Clocks[a.Clock]
					_ = os.Remove(filepath.Join(dir, name))
					delete(low, name)
				}
				// what must be rebuilt: at least the maximum stored in local entities
				e, cr := storedMax(repo)
				if e > 0 {
					if _, ok := low["bugs-edit"]; !ok {
						low["bugs-edit"] = e
					}
					if _, ok := low["bugs-create"]; !ok {
						low["bugs-create"] = cr
					}
				}
			}
			if peerMerged {
				reopenAfterMerge = true
			}
			_ = subject.Repo.Close()
			re, err := repository.OpenGoGitRepo(subject.Path, "git-bug", []repository.ClockLoader{bug.ClockLoader})
			if err != nil {
				if fail("reopen-failed/"+Normalize(err.Error()), err.Error()) {
					return
				}
			}
			subject.Repo = re
			subject.Handles = map[string]*bug.Bug{}
			repo = re
		}
		if checkClocks(when) {
			return
		}
	}
	classes := dedup(kinds)
	if reopenAfterMerge {
		classes = append(classes, "reopen-or-delete-after-peer-merge")
	}
	classes = append(classes, "backend:"+c.Backend)
	rep.Case(c.Backend+"|"+strings.Join(kinds, ","), reopenAfterMerge || (c.Backend == "mock" && len(kinds) > 5), classes, c)
}

func when0(s string) string {
	f := strings.Fields(s)
	return f[len(f)-1]
}

func TestC05Clocks(t *testing.T) {
	Drive(t, "C05", genC05, runC05)
}
