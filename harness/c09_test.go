package harness

import (
	"fmt"
	"os"
	"path/filepath"
	"strings"
	"testing"

	"pgregory.net/rapid"

	"github.com/MichaelMure/git-bug/cache"
	"github.com/MichaelMure/git-bug/entities/identity"
	"github.com/MichaelMure/git-bug/entity"
	"github.com/MichaelMure/git-bug/repository"
	"github.com/MichaelMure/git-bug/util/lamport"

	"verif/harness/internal/entropy"
	"verif/harness/internal/ondisk"
	"verif/harness/internal/report"
)

// C09: identity histories are append-only and merged fast-forward only.

type c09Action struct {
	Kind     string `json:"kind"` // mutate push pull
	R        int    `json:"r"`
	Ident    int    `json:"ident"`
	Field    string `json:"field,omitempty"` // name login email avatar
	Value    string `json:"value,omitempty"`
	UseCache bool   `json:"use_cache,omitempty"`
}

type c09Case struct {
	Seed    uint64      `json:"seed"`
	NIdent  int         `json:"n_ident"`
	Actions []c09Action `json:"actions"`
}

func genC09(t *rapid.T) c09Case {
	c := c09Case{Seed: rapid.Uint64().Draw(t, "seed"), NIdent: rapid.IntRange(1, 3).Draw(t, "nIdent")}
	valid := rapid.OneOf(GenTitle(), rapid.SampledFrom([]string{"alice", "bob", "René D", "x"}))
	invalid := rapid.SampledFrom([]string{"bad\x00name", "two\nlines", "bell\x07", "esc\x1b[31m"})
	one := rapid.Custom(func(t *rapid.T) c09Action {
		a := c09Action{Kind: rapid.SampledFrom([]string{"mutate", "mutate", "mutate", "mutate", "mutate", "push", "pull", "pull", "clock", "packrefs"}).Draw(t, "kind"),
			R: rapid.IntRange(0, 1).Draw(t, "r"), Ident: rapid.IntRange(0, c.NIdent-1).Draw(t, "ident")}
		if a.Kind == "mutate" {
			a.Field = rapid.SampledFrom([]string{"name", "name", "login", "email", "avatar"}).Draw(t, "field")
			switch {
			case a.Field == "avatar":
				a.Value = rapid.SampledFrom([]string{"https://example.org/a.png", "http://x/y", "not a url", "", "https://example.org/\nb"}).Draw(t, "value")
			case rapid.IntRange(0, 9).Draw(t, "bad") == 0:
				a.Value = invalid.Draw(t, "value")
			case a.Field == "name" && rapid.IntRange(0, 12).Draw(t, "blank") == 0:
				a.Value = rapid.SampledFrom([]string{"", "  ", "​"}).Draw(t, "value")
			default:
				a.Value = valid.Draw(t, "value")
			}
		}
		if a.Kind == "pull" {
			a.UseCache = rapid.IntRange(0, 2).Draw(t, "cache") == 0
		}
		if a.Kind == "clock" {
			// bug activity in that repository: its logical clocks move (or come into existence)
			a.Field = rapid.SampledFrom([]string{"bugs-edit", "bugs-create", "bugs-edit"}).Draw(t, "clockName")
			a.Value = fmt.Sprint(rapid.IntRange(1, 40).Draw(t, "clockValue"))
		}
		return a
	})
	// the planned part reaches a chosen (prefix p, local suffix a, remote suffix b) on identity 0, the rest is free
	p := rapid.IntRange(1, 4).Draw(t, "p")
	la := rapid.IntRange(0, 3).Draw(t, "a")
	rb := rapid.IntRange(0, 3).Draw(t, "b")
	k := 0
	mut := func(r int) c09Action {
		k++
		return c09Action{Kind: "mutate", R: r, Ident: 0, Field: "name", Value: fmt.Sprintf("planned name %d", k)}
	}
	var plan []c09Action
	for i := 1; i < p; i++ {
		plan = append(plan, mut(0))
	}
	plan = append(plan, c09Action{Kind: "push", R: 0}, c09Action{Kind: "pull", R: 1})
	for i := 0; i < rb; i++ {
		plan = append(plan, mut(1))
	}
	plan = append(plan, c09Action{Kind: "push", R: 1})
	for i := 0; i < la; i++ {
		plan = append(plan, mut(0))
	}
	if rapid.IntRange(0, 2).Draw(t, "planPack") == 0 {
		// the references of r0 are packed, then the other identities are edited there: loose references next to packed ones
		plan = append(plan, c09Action{Kind: "packrefs", R: 0})
		for i := 1; i < c.NIdent; i++ {
			plan = append(plan, c09Action{Kind: "mutate", R: 0, Ident: i, Field: "email", Value: fmt.Sprintf("after-gc-%d@example.org", i)})
		}
	}
	plan = append(plan, c09Action{Kind: "pull", R: 0, UseCache: rapid.Bool().Draw(t, "planCache")})
	c.Actions = append(plan, rapid.SliceOfN(one, 0, 16).Draw(t, "actions")...)
	if rapid.IntRange(0, 3).Draw(t, "clocksBehind") == 0 {
		// one repository has bug activity (its clocks exist and move) before it edits an identity; the other one,
		// which only synchronised identities, then edits the same identity with clocks that are behind or absent
		x := rapid.IntRange(0, 1).Draw(t, "busy")
		c.Actions = append(c.Actions,
			c09Action{Kind: "pull", R: x}, // in step with the remote first, so that its own edit can be published
			c09Action{Kind: "clock", R: x, Field: "bugs-edit", Value: fmt.Sprint(rapid.IntRange(5, 60).Draw(t, "editClock"))},
			c09Action{Kind: "clock", R: x, Field: "bugs-create", Value: fmt.Sprint(rapid.IntRange(2, 20).Draw(t, "createClock"))},
			mut(x), c09Action{Kind: "push", R: x}, c09Action{Kind: "pull", R: 1 - x}, mut(1-x),
			c09Action{Kind: "push", R: 1 - x}, c09Action{Kind: "pull", R: x})
	}
	return c
}

func chainOf(repo repository.RepoData, ref string) []string {
	c, err := ondisk.ReadIdentityChain(repo, ref)
	if err != nil {
		return nil
	}
	return c
}

func isPrefix(a, b []string) bool {
	if len(a) > len(b) {
		return false
	}
	for i := range a {
		if a[i] != b[i] {
			return false
		}
	}
	return true
}

func runC09(tb report.TB, rep *report.Reporter, c c09Case) {
	entropy.Seed(c.Seed)
	defer entropy.Restore()
	dir := mkdirTemp("c09-")
	defer os.RemoveAll(dir)
	remotePath := filepath.Join(dir, "remote")
	if _, err := repository.InitBareGoGitRepo(remotePath, "git-bug"); err != nil {
		tb.Fatalf("harness: %v", err)
	}
	var repos []*repository.GoGitRepo
	for i := 0; i < 2; i++ {
		r, err := repository.InitGoGitRepo(filepath.Join(dir, fmt.Sprintf("r%d", i)), "git-bug")
		if err != nil {
			tb.Fatalf("harness: %v", err)
		}
		if err := r.AddRemote("origin", remotePath); err != nil {
			tb.Fatalf("harness: %v", err)
		}
		repos = append(repos, r)
		defer r.Close()
	}
	fail := func(sig, detail string) bool { return rep.Fail(tb, "C09/"+sig, detail, c) }

	// identities are born on r0 through the real API, then shared
	var ids []string
	for i := 0; i < c.NIdent; i++ {
		ident, err := identity.NewIdentity(repos[0], fmt.Sprintf("ident%d", i), fmt.Sprintf("i%d@example.org", i))
		if err != nil {
			tb.Fatalf("harness: %v", err)
		}
		if err := ident.Commit(repos[0]); err != nil {
			tb.Fatalf("harness: %v", err)
		}
		ids = append(ids, string(ident.Id()))
	}
	if _, err := identity.Push(repos[0], "origin"); err != nil {
		tb.Fatalf("harness: %v", err)
	}
	if err := identity.Pull(repos[1], "origin"); err != nil {
		tb.Fatalf("harness: initial pull: %v", err)
	}
	// a user identity is needed by the cache's MergeAll
	for ri, r := range repos {
		me, err := identity.ReadLocal(r, entity.Id(ids[0]))
		if err != nil {
			tb.Fatalf("harness: %v", err)
		}
		if err := identity.SetUserIdentity(r, me); err != nil {
			tb.Fatalf("harness: %d %v", ri, err)
		}
	}

	history := map[string][][]string{} // per (replica,id): chains over time, to check prefix monotony
	note := func(r int, id string) bool {
		key := fmt.Sprintf("%d/%s", r, id)
		ch := chainOf(repos[r], "refs/identities/"+id)
		if ch == nil {
			return fail("identity-unreadable-layout", key)
		}
		if ch[0] != id {
			return fail("identity-id-changed", fmt.Sprintf("%s: first version is %s", key, ch[0]))
		}
		if h := history[key]; len(h) > 0 && !isPrefix(h[len(h)-1], ch) {
			return fail("history-not-append-only", fmt.Sprintf("%s\nbefore %v\nnow    %v", key, h[len(h)-1], ch))
		}
		history[key] = append(history[key], ch)
		return false
	}

	var shapes []string
	rejected, accepted := 0, 0
	clockMoves, clocksBehind, packs, fullCachePulls := 0, 0, 0, 0
	for ai, a := range c.Actions {
		r := repos[a.R]
		id := ids[a.Ident%len(ids)]
		where := fmt.Sprintf("action #%d %s r%d ident%d", ai, a.Kind, a.R, a.Ident%len(ids))
		switch a.Kind {
		case "packrefs":
			// what `git gc` does in that repository between two commands
			if res := RunGit(filepath.Join(dir, fmt.Sprintf("r%d", a.R)), "pack-refs", "--all", "--prune"); res.Code != 0 {
				tb.Fatalf("harness: pack-refs: %s", res.Out)
			}
			packs++
		case "clock":
			var v uint64
			fmt.Sscan(a.Value, &v)
			if err := r.Witness(a.Field, lamport.Time(v)); err != nil {
				tb.Fatalf("harness: witness: %v", err)
			}
			clockMoves++
		case "mutate":
			ident, err := identity.ReadLocal(r, entity.Id(id))
			if err != nil {
				if fail("local-identity-unreadable/"+Normalize(err.Error()), where+": "+err.Error()) {
					return
				}
			}
			before := chainOf(r, "refs/identities/"+id)
			prevTimes := ident.LastModificationLamports()
			_ = ident.Mutate(r, func(m *identity.Mutator) {
				switch a.Field {
				case "name":
					m.Name = a.Value
				case "login":
					m.Login = a.Value
				case "email":
					m.Email = a.Value
				case "avatar":
					m.AvatarUrl = a.Value
				}
			})
			if !ident.NeedCommit() {
				continue
			}
			// reference validity of the resulting field values (from the statement)
			name, login := ident.Name(), ident.Login()
			wantOK := !(isEmptyText(name) && isEmptyText(login)) && !hasControl(name) && !hasControl(login) && !hasControl(ident.Email())
			// the new version records this repository's clocks: it is only acceptable when none of the clocks of the
			// previous version decreased or disappeared (the statement's "decreasing or dropped logical clocks")
			clocksOK := true
			if cur, err := r.AllClocks(); err == nil {
				for cn, prevT := range prevTimes {
					if c, ok := cur[cn]; !ok || c.Time() < prevT {
						clocksOK = false
					}
				}
			}
			if !clocksOK {
				clocksBehind++
			}
			wantOK = wantOK && clocksOK
			assertValidity := a.Field != "avatar" // the statement lists name, login and unsafe characters; avatar rules are the code's own
			err = ident.Commit(r)
			after := chainOf(r, "refs/identities/"+id)
			if err != nil {
				rejected++
				if wantOK && assertValidity {
					if fail("valid-identity-refused/"+Normalize(err.Error()), fmt.Sprintf("%s %s=%q: %v", where, a.Field, a.Value, err)) {
						return
					}
				}
				if strings.Join(before, ",") != strings.Join(after, ",") {
					if fail("refused-commit-changed-history", where) {
						return
					}
				}
				continue
			}
			accepted++
			if !wantOK && assertValidity {
				kind := a.Field
				if !clocksOK {
					kind = "clocks-behind-the-previous-version"
				}
				if fail("invalid-identity-accepted/"+kind, fmt.Sprintf("%s %s=%q was committed", where, a.Field, a.Value)) {
					return
				}
			}
			if len(after) != len(before)+1 || !isPrefix(before, after) {
				if fail("commit-did-not-append-one-version", fmt.Sprintf("%s\nbefore %v\nafter %v", where, before, after)) {
					return
				}
			}
			// round trip of the accepted values
			back, err := identity.ReadLocal(r, entity.Id(id))
			if err != nil || back.Name() != ident.Name() || back.Login() != ident.Login() || back.Email() != ident.Email() || back.AvatarUrl() != ident.AvatarUrl() {
				if fail("identity-does-not-round-trip", fmt.Sprintf("%s: %v", where, err)) {
					return
				}
			}
			if note(a.R, id) {
				return
			}
		case "push":
			if _, err := identity.Push(r, "origin"); err != nil && !isPushRejection(err) {
				if fail("push/"+Normalize(err.Error()), err.Error()) {
					return
				}
			}
		case "pull":
			if _, err := identity.Fetch(r, "origin"); err != nil {
				if fail("fetch/"+Normalize(err.Error()), err.Error()) {
					return
				}
			}
			pre := map[string][]string{}
			rem := map[string][]string{}
			for _, x := range ids {
				pre[x] = chainOf(r, "refs/identities/"+x)
				rem[x] = chainOf(r, "refs/remotes/origin/identities/"+x)
			}
			results := map[string]entity.MergeResult{}
			var rc *cache.RepoCache
			if a.UseCache {
				var err error
				// the dag-level mutations above were made behind the cache's back: start from a cache built from git
				_ = os.RemoveAll(filepath.Join(dir, fmt.Sprintf("r%d", a.R), ".git", "git-bug", "cache"))
				rc, err = cache.NewRepoCacheNoEvents(r)
				if err != nil {
					tb.Fatalf("harness: cache: %v", err)
				}
				if (c.Seed+uint64(ai))%2 == 0 {
					// a session that found its cache files, has every identity in use, and keeps no more in memory than that
					_ = rc.Close()
					if rc, err = cache.NewRepoCacheNoEvents(r); err != nil {
						tb.Fatalf("harness: cache: %v", err)
					}
					loaded := 0
					for _, x := range rc.Identities().AllIds() {
						if _, err := rc.Identities().Resolve(x); err == nil {
							loaded++
						}
					}
					if loaded > 0 {
						rc.Identities().SetCacheSize(loaded)
						fullCachePulls++
					}
				}
				for res := range rc.Identities().MergeAll("origin") {
					if res.Id != "" {
						results[string(res.Id)] = res
					}
				}
			} else {
				for res := range identity.MergeAll(r, "origin") {
					results[string(res.Id)] = res
				}
			}
			for _, x := range ids {
				post := chainOf(r, "refs/identities/"+x)
				res, reported := results[x]
				p, q := pre[x], rem[x]
				var rel string
				switch {
				case q == nil:
					rel = "remote-absent"
				case len(q) > len(p) && isPrefix(p, q):
					rel = "remote-extends"
				case isPrefix(q, p):
					rel = "local-equal-or-ahead"
				default:
					rel = "diverged"
				}
				shapes = append(shapes, fmt.Sprintf("%s:p%d", rel, commonPrefix(p, q)))
				detail := fmt.Sprintf("%s identity %s relation %s\nlocal before %v\nremote       %v\nlocal after  %v\nreport %v", where, x[:8], rel, p, q, post, res)
				if !reported && rel != "remote-absent" {
					if fail("no-report-for-remote-identity", detail) {
						return
					}
				}
				switch rel {
				case "remote-absent":
					continue
				case "remote-extends":
					if strings.Join(post, ",") != strings.Join(q, ",") {
						if fail("fast-forward-not-applied", detail) {
							return
						}
					}
					if !reported || res.Status != entity.MergeStatusUpdated {
						if fail("extension-not-reported-updated", detail) {
							return
						}
					}
				case "local-equal-or-ahead":
					if strings.Join(post, ",") != strings.Join(p, ",") {
						if fail("local-changed-though-equal-or-ahead", detail) {
							return
						}
					}
					if !reported || res.Status != entity.MergeStatusNothing {
						if fail("equal-or-ahead-not-reported-nothing", detail) {
							return
						}
					}
				case "diverged":
					if strings.Join(post, ",") != strings.Join(p, ",") {
						if fail("diverged-remote-not-refused", detail) {
							return
						}
					}
					if !reported || res.Status != entity.MergeStatusInvalid {
						if fail("divergence-not-reported-invalid", detail) {
							return
						}
					}
				}
				if note(a.R, x) {
					return
				}
				if a.UseCache && rel != "diverged" {
					// the cache view equals the git view after the merge
					git, err := identity.ReadLocal(r, entity.Id(x))
					if err != nil {
						if fail("local-identity-unreadable/"+Normalize(err.Error()), err.Error()) {
							return
						}
					}
					ic, err := rc.Identities().Resolve(entity.Id(x))
					ex, err2 := rc.Identities().ResolveExcerpt(entity.Id(x))
					if err != nil || err2 != nil {
						if fail("cache-identity-unresolvable", fmt.Sprint(err, err2)) {
							return
						}
					} else if ic.Name() != git.Name() || ic.Login() != git.Login() || ex.Name != git.Name() || ex.Login != git.Login() {
						if fail("cache-serves-stale-identity", fmt.Sprintf("%s\ngit name/login %q/%q, cache %q/%q, excerpt %q/%q", detail, git.Name(), git.Login(), ic.Name(), ic.Login(), ex.Name, ex.Login)) {
							return
						}
					}
				}
			}
			if rc != nil {
				_ = rc.Close()
			}
		}
	}
	shapes = dedup(shapes)
	nontrivial := false
	for _, s := range shapes {
		if strings.HasPrefix(s, "remote-extends") || strings.HasPrefix(s, "diverged") || (strings.HasPrefix(s, "local-equal-or-ahead") && !strings.HasSuffix(s, ":p1")) {
			nontrivial = true
		}
	}
	classes := append([]string{}, shapes...)
	if rejected > 0 {
		classes = append(classes, "has-rejected-mutation")
	}
	if clockMoves > 0 {
		classes = append(classes, "clocks-moved-by-bug-activity")
	}
	if clocksBehind > 0 {
		classes = append(classes, "edit-with-clocks-behind-the-previous-version")
	}
	if packs > 0 {
		classes = append(classes, "references-packed-between-actions")
	}
	if fullCachePulls > 0 {
		classes = append(classes, "pulled-through-a-cache-that-is-exactly-full")
	}
	rep.Case(fmt.Sprintf("%d|%s|rej%v", c.NIdent, strings.Join(shapes, " "), rejected > 0), nontrivial, classes, c)
}

func commonPrefix(a, b []string) int {
	n := 0
	for n < len(a) && n < len(b) && a[n] == b[n] {
		n++
	}
	return n
}

func hasControl(s string) bool {
	for _, r := range s {
		if r < 0x20 || (r >= 0x7f && r < 0xa0) {
			return true
		}
	}
	return false
}

func TestC09Identities(t *testing.T) {
	Drive(t, "C09", genC09, runC09)
}
