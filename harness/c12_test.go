package harness

import (
	"fmt"
	"os"
	"path/filepath"
	"reflect"
	"sort"
	"strings"
	"testing"
	"time"
	"unicode"

	"pgregory.net/rapid"

	"github.com/MichaelMure/git-bug/cache"
	"github.com/MichaelMure/git-bug/entities/bug"
	"github.com/MichaelMure/git-bug/entities/identity"
	"github.com/MichaelMure/git-bug/entity"
	"github.com/MichaelMure/git-bug/query"
	"github.com/MichaelMure/git-bug/repository"

	"verif/harness/internal/entropy"
	"verif/harness/internal/ondisk"
	"verif/harness/internal/report"
)

// C12: queries parse as documented and return exactly the matching bugs, ordered.

// ---------------------------------------------------------------- 1. robustness

func safeParse(s string) (q *query.Query, err error, panicked string) {
	defer func() {
		if r := recover(); r != nil {
			panicked = fmt.Sprint(r)
		}
	}()
	q, err = query.Parse(s)
	return
}

func TestC12ParseRobust(t *testing.T) {
	alphabet := []rune{'"', '\'', ':', ' ', '\t', '\n', 'a', 'b', 's', 't', 'u', 'o', 'r', '1', '-', 'é', '日', 0x00A0, 0x2028, 0x1F600}
	words := []string{"status", "author", "label", "sort", "no", "metadata", "title", "open", "closed", "id-desc", "edit", "creation-asc", "actor", "participant"}
	gen := rapid.Custom(func(t *rapid.T) string {
		parts := rapid.SliceOfN(rapid.OneOf(
			rapid.Map(rapid.SampledFrom(alphabet), func(r rune) string { return string(r) }),
			rapid.SampledFrom(words),
		), 0, 40).Draw(t, "parts")
		return strings.Join(parts, "")
	})
	Drive(t, "C12", func(t *rapid.T) string { return gen.Draw(t, "query") }, func(tb report.TB, rep *report.Reporter, s string) {
		q, err, panicked := safeParse(s)
		cls := "rejected"
		if err == nil {
			cls = "parsed"
		}
		rep.Case("robust|"+abstractQuery(s), strings.ContainsAny(s, `"':`), []string{"robust:" + cls}, s)
		if panicked != "" {
			rep.Fail(tb, "C12/parse-panics/"+Normalize(panicked), fmt.Sprintf("query.Parse(%q) panicked: %s", s, panicked), s)
			return
		}
		if err == nil && q == nil {
			rep.Fail(tb, "C12/parse-returns-nil", fmt.Sprintf("%q", s), s)
		}
		if err == nil {
			// a second parse gives the same value
			q2, _, _ := safeParse(s)
			if !reflect.DeepEqual(q, q2) {
				rep.Fail(tb, "C12/parse-not-deterministic", fmt.Sprintf("%q", s), s)
			}
		}
	})
}

func abstractQuery(s string) string {
	var sb strings.Builder
	for _, r := range s {
		switch {
		case r == '"' || r == '\'' || r == ':':
			sb.WriteRune(r)
		case unicode.IsSpace(r):
			sb.WriteRune('_')
		default:
			if sb.Len() == 0 || !strings.HasSuffix(sb.String(), "w") {
				sb.WriteRune('w')
			}
		}
	}
	return sb.String()
}

// ---------------------------------------------------------------- 2. round trip

type sQuery struct {
	Status      []string    `json:"status,omitempty"` // "open" / "closed" in some letter case
	Author      []string    `json:"author,omitempty"`
	Actor       []string    `json:"actor,omitempty"`
	Participant []string    `json:"participant,omitempty"`
	Label       []string    `json:"label,omitempty"`
	Title       []string    `json:"title,omitempty"`
	Metadata    [][2]string `json:"metadata,omitempty"`
	NoLabel     bool        `json:"no_label,omitempty"`
	Search      []string    `json:"search,omitempty"`
	Sort        string      `json:"sort,omitempty"`
	Order       []int       `json:"order"` // permutation seed for the order of tokens
	QuoteAll    bool        `json:"quote_all,omitempty"`
}

var sortSpellings = map[string][2]int{ // -> (OrderBy, Direction)
	"id": {int(query.OrderById), int(query.OrderAscending)}, "id-asc": {int(query.OrderById), int(query.OrderAscending)},
	"id-desc":  {int(query.OrderById), int(query.OrderDescending)},
	"creation": {int(query.OrderByCreation), int(query.OrderDescending)}, "creation-desc": {int(query.OrderByCreation), int(query.OrderDescending)},
	"creation-asc": {int(query.OrderByCreation), int(query.OrderAscending)},
	"edit":         {int(query.OrderByEdit), int(query.OrderDescending)}, "edit-desc": {int(query.OrderByEdit), int(query.OrderDescending)},
	"edit-asc": {int(query.OrderByEdit), int(query.OrderAscending)},
}

// genValue: a value a user can express: it does not contain both kinds of quote and is not empty.
func genValue() *rapid.Generator[string] {
	base := rapid.OneOf(
		rapid.SampledFrom([]string{"alice", "René Descartes", "Good first issue", "foo:bar", "https://www.example.com/", "it's", `say "hi"`, "a b  c", "日本 語", "x"}),
		textFromRunes(rapid.OneOf(rapid.SampledFrom(asciiLetters), rapid.SampledFrom(asciiLetters), rapid.SampledFrom([]rune{' ', ':', '-', '.', '/', 'é', '日', 0x00A0, '\t'})), 1, 12),
		textFromRunes(rapid.OneOf(rapid.SampledFrom(asciiLetters), rapid.SampledFrom([]rune{' ', ':', '\''})), 1, 10),
		textFromRunes(rapid.OneOf(rapid.SampledFrom(asciiLetters), rapid.SampledFrom([]rune{' ', ':', '"'})), 1, 10),
	)
	return base.Filter(func(s string) bool {
		return s != "" && !(strings.Contains(s, `"`) && strings.Contains(s, `'`))
	})
}

// renderValue quotes the way a user has to.
func renderValue(v string, quoteAll bool) string {
	need := quoteAll
	for _, r := range v {
		if unicode.IsSpace(r) || r == ':' || r == '"' || r == '\'' {
			need = true
		}
	}
	if !need {
		return v
	}
	if strings.Contains(v, `"`) {
		return `'` + v + `'`
	}
	return `"` + v + `"`
}

func genSQuery(t *rapid.T) sQuery {
	vals := func(label string, max int) []string { return rapid.SliceOfN(genValue(), 0, max).Draw(t, label) }
	q := sQuery{
		Status:      rapid.SliceOfN(rapid.SampledFrom([]string{"open", "closed", "OPEN", "Closed"}), 0, 2).Draw(t, "status"),
		Author:      vals("author", 2),
		Actor:       vals("actor", 2),
		Participant: vals("participant", 2),
		Label:       vals("label", 2),
		Title:       vals("title", 2),
		NoLabel:     rapid.IntRange(0, 4).Draw(t, "noLabel") == 0,
		QuoteAll:    rapid.IntRange(0, 3).Draw(t, "quoteAll") == 0,
	}
	nMeta := rapid.IntRange(0, 2).Draw(t, "nMeta")
	for i := 0; i < nMeta; i++ {
		q.Metadata = append(q.Metadata, [2]string{genValue().Draw(t, "mkey"), genValue().Draw(t, "mval")})
	}
	// search terms must not look like a qualifier: no colon unless quoted (renderValue quotes them)
	q.Search = vals("search", 2)
	if rapid.IntRange(0, 2).Draw(t, "hasSort") > 0 {
		keys := make([]string, 0, len(sortSpellings))
		for k := range sortSpellings {
			keys = append(keys, k)
		}
		sort.Strings(keys)
		q.Sort = rapid.SampledFrom(keys).Draw(t, "sort")
	}
	q.Order = rapid.SliceOfN(rapid.IntRange(0, 1000), 24, 24).Draw(t, "order")
	return q
}

// render produces the query string: tokens of different kinds are interleaved in a generated order,
// tokens of one kind keep their relative order (that order is observable in the parsed value).
func (q sQuery) render() string {
	type tok struct {
		kind string
		text string
	}
	var lists [][]tok
	add := func(kind string, vals []string, f func(v string) string) {
		var l []tok
		for _, v := range vals {
			l = append(l, tok{kind, f(v)})
		}
		if len(l) > 0 {
			lists = append(lists, l)
		}
	}
	add("status", q.Status, func(v string) string { return "status:" + v })
	add("author", q.Author, func(v string) string { return "author:" + renderValue(v, q.QuoteAll) })
	add("actor", q.Actor, func(v string) string { return "actor:" + renderValue(v, q.QuoteAll) })
	add("participant", q.Participant, func(v string) string { return "participant:" + renderValue(v, q.QuoteAll) })
	add("label", q.Label, func(v string) string { return "label:" + renderValue(v, q.QuoteAll) })
	add("title", q.Title, func(v string) string { return "title:" + renderValue(v, q.QuoteAll) })
	var metas []string
	for _, m := range q.Metadata {
		metas = append(metas, "metadata:"+renderValue(m[0], q.QuoteAll)+":"+renderValue(m[1], q.QuoteAll))
	}
	add("metadata", metas, func(v string) string { return v })
	add("search", q.Search, func(v string) string { return renderValue(v, q.QuoteAll || strings.Contains(v, ":")) })
	if q.NoLabel {
		lists = append(lists, []tok{{"no", "no:label"}})
	}
	if q.Sort != "" {
		lists = append(lists, []tok{{"sort", "sort:" + q.Sort}})
	}
	var out []string
	k := 0
	for len(lists) > 0 {
		pick := 0
		if len(q.Order) > 0 {
			pick = q.Order[k%len(q.Order)] % len(lists)
		}
		k++
		out = append(out, lists[pick][0].text)
		lists[pick] = lists[pick][1:]
		if len(lists[pick]) == 0 {
			lists = append(lists[:pick], lists[pick+1:]...)
		}
	}
	seps := []string{" ", "  ", "\t", " \n"}
	var sb strings.Builder
	for i, o := range out {
		if i > 0 {
			sep := " "
			if len(q.Order) > 0 {
				sep = seps[q.Order[(i+7)%len(q.Order)]%len(seps)]
			}
			sb.WriteString(sep)
		}
		sb.WriteString(o)
	}
	return sb.String()
}

func nilIfEmpty(s []string) []string {
	if len(s) == 0 {
		return nil
	}
	return s
}

func TestC12RoundTrip(t *testing.T) {
	Drive(t, "C12", genSQuery, func(tb report.TB, rep *report.Reporter, sq sQuery) {
		text := sq.render()
		kinds := 0
		for _, l := range [][]string{sq.Status, sq.Author, sq.Actor, sq.Participant, sq.Label, sq.Title, sq.Search} {
			if len(l) > 0 {
				kinds++
			}
		}
		if len(sq.Metadata) > 0 {
			kinds++
		}
		rep.Case("rt|"+abstractQuery(text), kinds >= 2 || strings.ContainsAny(text, `"'`) || sq.Sort != "", []string{"roundtrip"}, map[string]any{"query": text})
		q, err, panicked := safeParse(text)
		if panicked != "" {
			rep.Fail(tb, "C12/parse-panics/"+Normalize(panicked), fmt.Sprintf("%q", text), sq)
			return
		}
		if err != nil {
			rep.Fail(tb, "C12/documented-query-refused/"+Normalize(err.Error()), fmt.Sprintf("query %q: %v", text, err), sq)
			return
		}
		bad := func(what string, want, got any) {
			rep.Fail(tb, "C12/roundtrip/"+what, fmt.Sprintf("query %q\nwant %q\ngot  %q", text, want, got), sq)
		}
		var wantStatus []int
		for _, s := range sq.Status {
			if strings.EqualFold(s, "open") {
				wantStatus = append(wantStatus, 1)
			} else {
				wantStatus = append(wantStatus, 2)
			}
		}
		var gotStatus []int
		for _, s := range q.Status {
			gotStatus = append(gotStatus, int(s))
		}
		switch {
		case !reflect.DeepEqual(wantStatus, gotStatus):
			bad("status", wantStatus, gotStatus)
		case !reflect.DeepEqual(nilIfEmpty(sq.Author), nilIfEmpty(q.Author)):
			bad("author", sq.Author, q.Author)
		case !reflect.DeepEqual(nilIfEmpty(sq.Actor), nilIfEmpty(q.Actor)):
			bad("actor", sq.Actor, q.Actor)
		case !reflect.DeepEqual(nilIfEmpty(sq.Participant), nilIfEmpty(q.Participant)):
			bad("participant", sq.Participant, q.Participant)
		case !reflect.DeepEqual(nilIfEmpty(sq.Label), nilIfEmpty(q.Label)):
			bad("label", sq.Label, q.Label)
		case !reflect.DeepEqual(nilIfEmpty(sq.Title), nilIfEmpty(q.Title)):
			bad("title", sq.Title, q.Title)
		case !reflect.DeepEqual(nilIfEmpty(sq.Search), nilIfEmpty([]string(q.Search))):
			bad("search", sq.Search, q.Search)
		case sq.NoLabel != q.NoLabel:
			bad("no-label", sq.NoLabel, q.NoLabel)
		}
		if len(sq.Metadata) != len(q.Metadata) {
			bad("metadata", sq.Metadata, q.Metadata)
			return
		}
		for i, m := range sq.Metadata {
			if q.Metadata[i].Key != m[0] || q.Metadata[i].Value != m[1] {
				bad("metadata", sq.Metadata, q.Metadata)
				return
			}
		}
		wantOrder := [2]int{int(query.OrderByCreation), int(query.OrderDescending)}
		if sq.Sort != "" {
			wantOrder = sortSpellings[sq.Sort]
		}
		if int(q.OrderBy) != wantOrder[0] || int(q.OrderDirection) != wantOrder[1] {
			bad("sort", wantOrder, [2]int{int(q.OrderBy), int(q.OrderDirection)})
			return
		}
		// malformed variants of the same query are errors
		for _, m := range []struct{ name, text string }{
			{"two-sorts", text + " sort:id sort:edit"},
			{"unknown-qualifier", text + " colour:red"},
			{"unknown-sort", text + " sort:size"},
			{"unknown-no", text + " no:title"},
			{"unknown-status", text + " status:pending"},
			{"empty-value", text + " label:"},
			{"empty-qualifier", text + " :value"},
			{"unmatched-quote", text + ` title:"never closed`},
			{"unknown-sub-qualifier", text + " label:a:b"},
			{"too-many-separators", text + " metadata:a:b:c"},
		} {
			if _, err, panicked := safeParse(m.text); err == nil || panicked != "" {
				rep.Fail(tb, "C12/malformed-accepted/"+m.name, fmt.Sprintf("%q parsed without error (panic %q)", m.text, panicked), sq)
				return
			}
		}
	})
}

// ---------------------------------------------------------------- 3. evaluation

type popBug struct {
	Author   int               `json:"author"`
	Title    string            `json:"title"`
	Labels   []string          `json:"labels,omitempty"`
	Closed   bool              `json:"closed,omitempty"`
	Comments []int             `json:"comments,omitempty"` // authors of comments
	Editors  []int             `json:"editors,omitempty"`  // authors of a title change (actors, not participants)
	Meta     map[string]string `json:"meta,omitempty"`
	// LateMeta: the metadata is attached to the create operation after the bug was stored (what an exporting
	// bridge does), not given at creation
	LateMeta bool `json:"late_meta,omitempty"`
}

type c12EvalCase struct {
	Seed      uint64   `json:"seed"`
	NIdent    int      `json:"n_ident"`
	Bugs      []popBug `json:"bugs"`
	LateEdits []int    `json:"late_edits"` // bugs edited again once all exist: edit order differs from creation order
	Queries   []sQuery `json:"queries"`
}

var popNames = [][2]string{{"Alice Anderson", "aanderson"}, {"alice cooper", "AC"}, {"Bob", "BobTheBuilder"}, {"René Descartes", "rene"}}
var popTitleWords = []string{"Crash", "crash", "on", "start", "Exit", "typo", "DOCS", "in", "parser"}
var popLabels = []string{"bug", "ui", "Good first issue", "prod"}

func genC12Eval(t *rapid.T) c12EvalCase {
	c := c12EvalCase{Seed: rapid.Uint64().Draw(t, "seed"), NIdent: rapid.IntRange(1, 4).Draw(t, "nIdent")}
	nb := rapid.IntRange(2, 14).Draw(t, "nBugs")
	for i := 0; i < nb; i++ {
		b := popBug{Author: rapid.IntRange(0, c.NIdent-1).Draw(t, "author"),
			Title:    strings.Join(rapid.SliceOfN(rapid.SampledFrom(popTitleWords), 1, 4).Draw(t, "title"), " "),
			Labels:   rapid.SliceOfNDistinct(rapid.SampledFrom(popLabels), 0, 3, func(s string) string { return s }).Draw(t, "labels"),
			Closed:   rapid.Bool().Draw(t, "closed"),
			Comments: rapid.SliceOfN(rapid.IntRange(0, c.NIdent-1), 0, 3).Draw(t, "comments"),
			Editors:  rapid.SliceOfN(rapid.IntRange(0, c.NIdent-1), 0, 2).Draw(t, "editors"),
		}
		if rapid.IntRange(0, 2).Draw(t, "hasMeta") == 0 {
			b.Meta = map[string]string{"origin": rapid.SampledFrom([]string{"github", "gitlab"}).Draw(t, "origin")}
			b.LateMeta = rapid.Bool().Draw(t, "lateMeta")
		}
		c.Bugs = append(c.Bugs, b)
	}
	c.LateEdits = rapid.SliceOfN(rapid.IntRange(0, nb-1), 0, 6).Draw(t, "lateEdits")
	qgen := rapid.Custom(func(t *rapid.T) sQuery {
		// "#id<k>" / "#ID<k>" stand for a prefix of the id of identity k as typed in lower / upper case (ids are hex,
		// the documentation says person values match id prefixes case-insensitively); resolved when the case runs
		person := rapid.SampledFrom([]string{"alice", "ALICE", "Anderson", "bob", "rené", "descartes", "ac", "builder", "nobody", "e", "#id0", "#ID0", "#ID1", "#id2", "#ID2"})
		q := sQuery{Order: []int{0}}
		// one to three qualifier kinds per query, so that results are neither always empty nor always everything
		kinds := rapid.SliceOfNDistinct(rapid.IntRange(0, 8), 1, 3, func(x int) int { return x }).Draw(t, "kinds")
		for _, k := range kinds {
			switch k {
			case 0:
				q.Status = rapid.SliceOfN(rapid.SampledFrom([]string{"open", "closed"}), 1, 2).Draw(t, "status")
			case 1:
				q.Author = rapid.SliceOfN(person, 1, 2).Draw(t, "author")
			case 2:
				q.Actor = rapid.SliceOfN(person, 1, 2).Draw(t, "actor")
			case 3:
				q.Participant = rapid.SliceOfN(person, 1, 2).Draw(t, "participant")
			case 4:
				q.Label = rapid.SliceOfN(rapid.SampledFrom(append([]string{"Bug", "none"}, popLabels...)), 1, 2).Draw(t, "label")
			case 5:
				q.Title = rapid.SliceOfN(rapid.SampledFrom([]string{"crash", "CRASH", "start", "crash on", "zzz", "o"}), 1, 2).Draw(t, "title")
			case 6:
				q.NoLabel = true
			case 7:
				q.Metadata = [][2]string{{"origin", rapid.SampledFrom([]string{"github", "gitlab", "jira"}).Draw(t, "mv")}}
				if rapid.Bool().Draw(t, "meta2") {
					q.Metadata = append(q.Metadata, [2]string{"origin", "gitlab"})
				}
			case 8:
				q.Search = []string{rapid.SampledFrom([]string{"crash", "parser", "typo"}).Draw(t, "term")}
			}
		}
		keys := []string{"", "id", "id-desc", "creation", "creation-asc", "edit", "edit-asc", "edit-desc", "creation-desc", "id-asc"}
		q.Sort = rapid.SampledFrom(keys).Draw(t, "sort")
		return q
	})
	c.Queries = rapid.SliceOfN(qgen, 12, 20).Draw(t, "queries")
	return c
}

type refBug struct {
	id           string
	status       int
	title        string
	labels       []string
	author       string
	actors       []string
	participants []string
	meta         map[string]string
	createL      uint64
	editL        uint64
}

type refIdent struct{ id, name, login string }

func (i refIdent) match(q string) bool {
	q = strings.ToLower(q)
	return strings.HasPrefix(i.id, q) || strings.Contains(strings.ToLower(i.name), q) || strings.Contains(strings.ToLower(i.login), q)
}

func refEval(q sQuery, bugs []refBug, idents map[string]refIdent) map[string]bool {
	out := map[string]bool{}
	anyPerson := func(qs []string, ids []string) bool {
		if len(qs) == 0 {
			return true
		}
		for _, qq := range qs {
			for _, id := range ids {
				if idents[id].match(qq) {
					return true
				}
			}
		}
		return false
	}
	for _, b := range bugs {
		ok := true
		if len(q.Status) > 0 {
			m := false
			for _, s := range q.Status {
				if (strings.EqualFold(s, "open") && b.status == 1) || (strings.EqualFold(s, "closed") && b.status == 2) {
					m = true
				}
			}
			ok = ok && m
		}
		ok = ok && anyPerson(q.Author, []string{b.author}) && anyPerson(q.Actor, b.actors) && anyPerson(q.Participant, b.participants)
		if len(q.Metadata) > 0 {
			m := false
			for _, kv := range q.Metadata {
				if v, has := b.meta[kv[0]]; has && v == kv[1] {
					m = true
				}
			}
			ok = ok && m
		}
		for _, l := range q.Label {
			has := false
			for _, bl := range b.labels {
				if bl == l {
					has = true
				}
			}
			ok = ok && has
		}
		for _, tt := range q.Title {
			ok = ok && strings.Contains(strings.ToLower(b.title), strings.ToLower(tt))
		}
		if q.NoLabel {
			ok = ok && len(b.labels) == 0
		}
		if ok {
			out[b.id] = true
		}
	}
	return out
}

func runC12Eval(tb report.TB, rep *report.Reporter, c c12EvalCase) {
	w, err := NewCWorld(1, c.Seed)
	if err != nil {
		tb.Fatalf("harness: %v", err)
	}
	defer w.Close()
	r := w.R[0]
	rc := r.Cache
	var authors []*cache.IdentityCache
	for i := 0; i < c.NIdent; i++ {
		ic, err := rc.Identities().NewRaw(popNames[i][0], "p@example.org", popNames[i][1], "", nil, nil)
		if err != nil {
			tb.Fatalf("harness: %v", err)
		}
		authors = append(authors, ic)
	}
	fail := func(sig, detail string) bool { return rep.Fail(tb, "C12/"+sig, detail, c) }
	tokenOf := map[string]string{}
	for i, pb := range c.Bugs {
		tok := fmt.Sprintf("uniq%dz%d", i, c.Seed%997)
		createMeta := pb.Meta
		if pb.LateMeta {
			createMeta = nil
		}
		bc, createOp, err := rc.Bugs().NewRaw(authors[pb.Author], int64(1000+i), pb.Title+" "+tok, "body text", nil, createMeta)
		if err != nil {
			tb.Fatalf("harness: %v", err)
		}
		tokenOf[string(bc.Id())] = tok
		if len(pb.Labels) > 0 {
			if _, _, err := bc.ChangeLabelsRaw(authors[pb.Author], int64(2000+i), pb.Labels, nil, nil); err != nil {
				tb.Fatalf("harness: %v", err)
			}
		}
		for k, a := range pb.Comments {
			if _, _, err := bc.AddCommentRaw(authors[a], int64(3000+i*10+k), "a comment about the parser", nil, nil); err != nil {
				tb.Fatalf("harness: %v", err)
			}
		}
		for k, a := range pb.Editors {
			if _, err := bc.SetTitleRaw(authors[a], int64(4000+i*10+k), pb.Title+" "+tok, nil); err != nil {
				tb.Fatalf("harness: %v", err)
			}
		}
		if pb.Closed {
			if _, err := bc.CloseRaw(authors[pb.Author], int64(5000+i), nil); err != nil {
				tb.Fatalf("harness: %v", err)
			}
		}
		if err := bc.CommitAsNeeded(); err != nil {
			tb.Fatalf("harness: %v", err)
		}
		if pb.LateMeta && len(pb.Meta) > 0 {
			// last thing that happens to the bug in this session: no later edit refreshes anything
			if _, err := bc.SetMetadataRaw(authors[pb.Author], int64(5500+i), createOp.Id(), pb.Meta); err != nil {
				tb.Fatalf("harness: %v", err)
			}
			if err := bc.Commit(); err != nil {
				tb.Fatalf("harness: %v", err)
			}
		}
	}
	allIds := sortedIds(rc.Bugs().AllIds())
	for k, idx := range c.LateEdits {
		bc, err := rc.Bugs().Resolve(entity.Id(allIds[idx%len(allIds)]))
		if err != nil {
			tb.Fatalf("harness: %v", err)
		}
		if _, _, err := bc.AddCommentRaw(authors[k%len(authors)], int64(6000+k), "late remark", nil, nil); err != nil {
			tb.Fatalf("harness: %v", err)
		}
		if err := bc.Commit(); err != nil {
			tb.Fatalf("harness: %v", err)
		}
	}
	// ---- two requests at once on the same bug (the web UI): one closes or re-opens it, the other comments. Both
	// are acknowledged; what the queries use afterwards describes the bug after both.
	if c.Seed%2 == 0 {
		for round := 0; round < 8; round++ {
			id := allIds[(int(c.Seed%7)+round)%len(allIds)]
			// the schedule is owned: the first request is parked before its K-th acquisition of a cache mutex while
			// the second one runs (or waits for a lock the first holds), then goes on
			mark, parked, release, stop := parkAt((int(c.Seed%25) + round*3) % 25)
			first, second := make(chan struct{}), make(chan struct{})
			go func() {
				defer close(first)
				mark()
				bc, err := rc.Bugs().Resolve(entity.Id(id))
				if err != nil {
					return
				}
				if bc.Snapshot().Status.String() == "open" {
					_, _ = bc.CloseRaw(authors[0], int64(7000+round), nil)
				} else {
					_, _ = bc.OpenRaw(authors[0], int64(7000+round), nil)
				}
				_ = bc.CommitAsNeeded()
			}()
			select {
			case <-parked:
			case <-first:
			case <-time.After(20 * time.Second):
			}
			go func() {
				defer close(second)
				bc, err := rc.Bugs().Resolve(entity.Id(id))
				if err != nil {
					return
				}
				_, _, _ = bc.AddCommentRaw(authors[len(authors)-1], int64(7100+round), "said at the same moment", nil, nil)
				_ = bc.CommitAsNeeded()
			}()
			select {
			case <-second:
			case <-time.After(150 * time.Millisecond):
			}
			release()
			for _, ch := range []chan struct{}{first, second} {
				select {
				case <-ch:
				case <-time.After(30 * time.Second):
					stop()
					fail("simultaneous-requests-never-return", fmt.Sprintf("round %d on bug %s", round, id))
					return
				}
			}
			stop()
		}
	}
	// ---- reference population, read from git without the cache
	idents := map[string]refIdent{}
	ids, _ := identity.ListLocalIds(r.Repo)
	for _, id := range ids {
		i, err := identity.ReadLocal(r.Repo, id)
		if err != nil {
			tb.Fatalf("harness: %v", err)
		}
		idents[string(id)] = refIdent{string(id), i.Name(), i.Login()}
	}
	var pop []refBug
	for _, id := range localBugIds(r.Repo) {
		b, err := bug.Read(r.Repo, entity.Id(id))
		if err != nil {
			tb.Fatalf("harness: %v", err)
		}
		st := ProjectSnapshot(b.Compile())
		d, err := ondisk.ReadDAG(r.Repo, "refs/bugs/"+id)
		if err != nil {
			tb.Fatalf("harness: %v", err)
		}
		e, cr := d.MaxClocks()
		pop = append(pop, refBug{id: id, status: st.Status, title: st.Title, labels: st.Labels, author: st.Author, actors: st.Actors,
			participants: st.Participants, meta: st.Meta[id], createL: cr, editL: e})
	}
	byId := map[string]refBug{}
	for _, b := range pop {
		byId[b.id] = b
	}

	run := func(text string) ([]string, error) {
		q, err := query.Parse(text)
		if err != nil {
			return nil, err
		}
		res, err := safeQuery(rc, q)
		if err != nil {
			return nil, err
		}
		out := make([]string, len(res))
		for i, x := range res {
			out[i] = string(x)
		}
		return out, nil
	}
	partial := 0
	resolvePerson := func(vals []string) []string {
		out := append([]string(nil), vals...)
		for k, v := range out {
			if strings.HasPrefix(v, "#id") || strings.HasPrefix(v, "#ID") {
				var n int
				fmt.Sscan(v[3:], &n)
				// a prefix that holds at least one hex letter, so that the two spellings differ
				id := string(authors[n%len(authors)].Id())
				l := 8
				for l < 20 && strings.ToUpper(id[:l]) == id[:l] {
					l++
				}
				if strings.HasPrefix(v, "#ID") {
					out[k] = strings.ToUpper(id[:l])
				} else {
					out[k] = id[:l]
				}
			}
		}
		return out
	}
	queries := c.Queries
	if c.Seed%2 == 0 {
		// what the two simultaneous requests changed is asked for explicitly
		last := popNames[(len(authors)-1)%len(popNames)][0]
		queries = append([]sQuery{{Status: []string{"open"}, Order: []int{0}}, {Status: []string{"closed"}, Order: []int{0}},
			{Participant: []string{last}, Order: []int{0}}, {Actor: []string{last}, Status: []string{"closed"}, Order: []int{0, 1}}}, queries...)
	}
	for qi, sq := range queries {
		sq.Author, sq.Actor, sq.Participant = resolvePerson(sq.Author), resolvePerson(sq.Actor), resolvePerson(sq.Participant)
		text := sq.render()
		got, err := run(text)
		if err != nil {
			if fail("query-fails/"+Normalize(err.Error()), fmt.Sprintf("query %q: %v", text, err)) {
				return
			}
		}
		where := fmt.Sprintf("query #%d %q over %d bugs", qi, text, len(pop))
		seen := map[string]bool{}
		for _, id := range got {
			if seen[id] {
				if fail("duplicate-in-result", where+": "+id) {
					return
				}
			}
			seen[id] = true
		}
		nosearch := sq
		nosearch.Search = nil
		want := refEval(nosearch, pop, idents)
		if len(sq.Search) == 0 {
			if len(want) != len(seen) || !subsetMap(want, seen) {
				kind := "wrong-result-set"
				if fail(kind+"/"+queryKinds(sq), fmt.Sprintf("%s\nreference %v\ngot       %v", where, keysOf(want), got)) {
					return
				}
			}
			if len(want) > 0 && len(want) < len(pop) {
				partial++
			}
		} else {
			// result(search AND filters) = result(search) INTERSECT result(filters)
			onlySearch, err := run(renderValue(sq.Search[0], false))
			if err != nil {
				if fail("query-fails/"+Normalize(err.Error()), err.Error()) {
					return
				}
			}
			inter := map[string]bool{}
			for _, id := range onlySearch {
				if want[id] {
					inter[id] = true
				}
			}
			if len(inter) != len(seen) || !subsetMap(inter, seen) {
				if fail("search-and-filters-is-not-intersection", fmt.Sprintf("%s\nsearch alone %v\nfilters alone (reference) %v\ngot %v", where, onlySearch, keysOf(want), got)) {
					return
				}
			}
		}
		// order: monotone in the primary key and direction
		ord := [2]int{int(query.OrderByCreation), int(query.OrderDescending)}
		if sq.Sort != "" {
			ord = sortSpellings[sq.Sort]
		}
		for i := 1; i < len(got); i++ {
			a, b := byId[got[i-1]], byId[got[i]]
			var cmp int
			switch ord[0] {
			case int(query.OrderById):
				cmp = strings.Compare(a.id, b.id)
			case int(query.OrderByCreation):
				cmp = cmpU(a.createL, b.createL)
			default:
				cmp = cmpU(a.editL, b.editL)
			}
			if (ord[1] == int(query.OrderAscending) && cmp > 0) || (ord[1] == int(query.OrderDescending) && cmp < 0) {
				if fail("result-not-sorted/"+sq.Sort, fmt.Sprintf("%s\nposition %d and %d are out of order\n%v", where, i-1, i, got)) {
					return
				}
			}
		}
	}
	// a planted unique token is found by the full-text search, alone
	for id, tok := range tokenOf {
		got, err := run(tok)
		if err != nil || len(got) != 1 || got[0] != id {
			if fail("planted-token-not-found", fmt.Sprintf("search %q: got %v (%v), want [%s]", tok, got, err, id)) {
				return
			}
		}
	}
	rep.Case(fmt.Sprintf("eval|b%d|i%d|p%d", len(pop), c.NIdent, partial), partial > 0, []string{fmt.Sprintf("bugs:%d", len(pop)/4*4), fmt.Sprintf("queries-with-partial-result:%d", partial)}, c)
}

func cmpU(a, b uint64) int {
	switch {
	case a < b:
		return -1
	case a > b:
		return 1
	}
	return 0
}

func subsetMap(a, b map[string]bool) bool {
	for k := range a {
		if !b[k] {
			return false
		}
	}
	return true
}

func keysOf(m map[string]bool) []string {
	out := make([]string, 0, len(m))
	for k := range m {
		out = append(out, k)
	}
	sort.Strings(out)
	return out
}

func queryKinds(q sQuery) string {
	var ks []string
	add := func(n string, l int) {
		if l > 0 {
			ks = append(ks, fmt.Sprintf("%s%d", n, min(l, 2)))
		}
	}
	add("status", len(q.Status))
	add("author", len(q.Author))
	add("actor", len(q.Actor))
	add("participant", len(q.Participant))
	add("label", len(q.Label))
	add("title", len(q.Title))
	add("metadata", len(q.Metadata))
	if q.NoLabel {
		ks = append(ks, "nolabel")
	}
	return strings.Join(ks, "+")
}

func TestC12Evaluate(t *testing.T) {
	Drive(t, "C12", genC12Eval, runC12Eval)
}

func FuzzQueryParse(f *testing.F) {
	for _, s := range []string{`status:open sort:edit`, `author:"René Descartes" label:"foo:bar"`, `metadata:key:"https://www.example.com/"`, `a 'b c' "d`, `::`, `no:label`, `sort:id sort:id`, "\" '"} {
		f.Add(s)
	}
	f.Fuzz(func(t *testing.T, s string) {
		q, err := query.Parse(s)
		if err == nil && q == nil {
			t.Fatalf("nil query without error")
		}
	})
}

// ---------------------------------------------------------------- full-text search over a cache built from git

type c12BuildCase struct {
	Seed uint64 `json:"seed"`
	N    int    `json:"n"` // bugs present when the cache is built
}

func genC12Build(t *rapid.T) c12BuildCase {
	return c12BuildCase{Seed: rapid.Uint64().Draw(t, "seed"),
		N: rapid.OneOf(rapid.IntRange(1, 200), rapid.SampledFrom([]int{74, 75, 76, 77, 149, 150, 151, 152, 225, 226})).Draw(t, "n")}
}

// runC12Build: "evaluating a query returns exactly the bugs that satisfy it" for search terms, on a cache that
// was built from the git data (first open of a clone, lost or outdated cache files) rather than filled bug by
// bug: every bug carries a word of its own in its title, and a query for that word returns exactly that bug.
func runC12Build(tb report.TB, rep *report.Reporter, c c12BuildCase) {
	entropy.Seed(c.Seed)
	defer entropy.Restore()
	dir := mkdirTemp("c12b-")
	defer os.RemoveAll(dir)
	repo, err := repository.InitGoGitRepo(dir, "git-bug")
	if err != nil {
		tb.Fatalf("harness: %v", err)
	}
	id, _, _, err := ondisk.WriteIdentity(repo, "", []ondisk.IdentityVersion{{Version: 2, UnixTime: 1600000000, Name: "searcher", Nonce: NonceFor(c.Seed, 12_000_000)}})
	if err != nil {
		tb.Fatalf("harness: %v", err)
	}
	me, err := identity.ReadLocal(repo, entity.Id(id))
	if err != nil {
		tb.Fatalf("harness: %v", err)
	}
	if err := identity.SetUserIdentity(repo, me); err != nil {
		tb.Fatalf("harness: %v", err)
	}
	want := map[string]string{} // token -> bug id
	for k := 0; k < c.N; k++ {
		tok := fmt.Sprintf("needle%dq%d", k, c.Seed%89)
		create := bug.NewCreateOp(me, int64(1000+k), "about "+tok, "body", nil)
		create.Nonce = NonceFor(c.Seed, 12_100_000+k)
		b := bug.NewBug()
		b.Append(create)
		if k%3 == 0 {
			if _, err := bug.Close(b, me, int64(2000+k), nil); err != nil {
				tb.Fatalf("harness: %v", err)
			}
		}
		if err := b.Commit(repo); err != nil {
			tb.Fatalf("harness: %v", err)
		}
		want[tok] = string(b.Id())
	}
	rc, err := cache.NewRepoCacheNoEvents(repo) // no cache files yet: built from git
	if err != nil {
		tb.Fatalf("harness: cache: %v", err)
	}
	defer rc.Close()
	rep.Case(fmt.Sprintf("build|n%d", c.N/25), c.N > 75, []string{fmt.Sprintf("bugs-at-build:%d..", (c.N/75)*75)}, c)
	fail := func(sig, detail string) bool { return rep.Fail(tb, "C12/"+sig, detail, c) }
	for tok, id := range want {
		for _, text := range []string{tok, "status:open " + tok, tok + " sort:id"} {
			q, err := query.Parse(text)
			if err != nil {
				tb.Fatalf("harness: %v", err)
			}
			got, err := rc.Bugs().Query(q)
			if err != nil {
				if fail("query-fails/"+Normalize(err.Error()), text+": "+err.Error()) {
					return
				}
				continue
			}
			wantIds := []string{id}
			if strings.HasPrefix(text, "status:open") {
				if ex, err := rc.Bugs().ResolveExcerpt(entity.Id(id)); err == nil && ex.Status.String() != "open" {
					wantIds = nil
				}
			}
			var gotIds []string
			for _, g := range got {
				gotIds = append(gotIds, string(g))
			}
			if strings.Join(gotIds, ",") != strings.Join(wantIds, ",") {
				if fail("search-misses-bugs-after-a-cache-build", fmt.Sprintf("%d bugs were in git when the cache was built; query %q returns %v, want %v", c.N, text, gotIds, wantIds)) {
					return
				}
			}
		}
	}
}

// runC12Ghost: "exactly the bugs that satisfy it" also means no bug that does not exist. A cache directory left by an
// earlier run lists a bug whose reference is gone since (deleted with stock git, pruned, a removal that died half-way)
// and its index directory is lost: the next run rebuilds, and no query returns the bug that is not there.
func runC12Ghost(tb report.TB, rep *report.Reporter, c c12BuildCase) {
	entropy.Seed(c.Seed)
	defer entropy.Restore()
	dir := mkdirTemp("c12g-")
	defer os.RemoveAll(dir)
	repo, err := repository.InitGoGitRepo(dir, "git-bug")
	if err != nil {
		tb.Fatalf("harness: %v", err)
	}
	rc, err := cache.NewRepoCacheNoEvents(repo)
	if err != nil {
		tb.Fatalf("harness: %v", err)
	}
	me, err := rc.Identities().New("ghost hunter", "g@example.org")
	if err == nil {
		err = rc.SetUserIdentity(me)
	}
	if err != nil {
		tb.Fatalf("harness: %v", err)
	}
	n := 2 + c.N%6
	var ids []string
	for k := 0; k < n; k++ {
		bc, _, err := rc.Bugs().NewRaw(me, int64(1000+k), fmt.Sprintf("about spectre%dq%d", k, c.Seed%89), "body", nil, nil)
		if err != nil {
			tb.Fatalf("harness: %v", err)
		}
		ids = append(ids, string(bc.Id()))
	}
	if err := rc.Close(); err != nil {
		tb.Fatalf("harness: %v", err)
	}
	_ = repo.Close()
	gone := ids[int(c.Seed%uint64(n))]
	if res := RunGit(dir, "update-ref", "-d", "refs/bugs/"+gone); res.Code != 0 {
		tb.Fatalf("harness: update-ref -d: %s", res.Out)
	}
	lostIndex := c.Seed%3 != 0
	if lostIndex {
		_ = os.RemoveAll(filepath.Join(dir, ".git", "git-bug", "indexes"))
	}
	rep.Case(fmt.Sprintf("ghost|n%d|index-lost=%v", n, lostIndex), lostIndex, []string{fmt.Sprintf("index-directory-lost:%v", lostIndex)}, c)
	repo2, err := repository.OpenGoGitRepo(dir, "git-bug", nil)
	if err != nil {
		tb.Fatalf("harness: %v", err)
	}
	defer repo2.Close()
	rc2, err := cache.NewRepoCacheNoEvents(repo2)
	if err != nil {
		rep.Fail(tb, "C12/ghost/cache-does-not-open/"+Normalize(err.Error()), err.Error(), c)
		return
	}
	defer rc2.Close()
	if !lostIndex {
		return // the cache files are taken as they are: whether a run notices a reference deleted behind its back is not the subject
	}
	for _, text := range []string{"", "status:open", "status:open sort:creation-asc", "title:spectre", "author:ghost"} {
		q, err := query.Parse(text)
		if err != nil {
			tb.Fatalf("harness: %v", err)
		}
		got, err := rc2.Bugs().Query(q)
		if err != nil {
			rep.Fail(tb, "C12/ghost/query-fails/"+Normalize(err.Error()), text+": "+err.Error(), c)
			return
		}
		for _, g := range got {
			if string(g) == gone {
				rep.Fail(tb, "C12/ghost/query-returns-a-bug-that-does-not-exist", fmt.Sprintf("refs/bugs/%s was deleted and the index directory lost before this run rebuilt its cache; query %q returns it among %d bugs (git holds %d)", gone[:8], text, len(got), n-1), c)
				return
			}
		}
		if len(got) != n-1 {
			rep.Fail(tb, "C12/ghost/wrong-result-count", fmt.Sprintf("query %q returns %d bugs, git holds %d", text, len(got), n-1), c)
			return
		}
	}
}

func TestC12GhostAfterRebuild(t *testing.T) {
	Drive(t, "C12", genC12Build, runC12Ghost)
}

func TestC12SearchAfterBuild(t *testing.T) {
	Drive(t, "C12", genC12Build, runC12Build)
}
