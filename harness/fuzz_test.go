package harness

import (
	"fmt"
	"strings"
	"testing"

	"github.com/MichaelMure/git-bug/entities/bug"
	"github.com/MichaelMure/git-bug/entities/identity"
	"github.com/MichaelMure/git-bug/entity"
	"github.com/MichaelMure/git-bug/repository"

	"verif/harness/internal/ondisk"
)

// Native fuzz targets (thorough tier only). The oracle is inside the target:
// arbitrary bytes in an otherwise valid scaffold never crash the reader; what
// reads successfully either validates or is reported invalid; reading twice
// gives the same ids; a valid entity compiles.

var fuzzAuthorNonce = NonceFor(99, 8_000_000)

func fuzzRepoWithAuthor() (repository.ClockedRepo, string) {
	repo := repository.NewMockRepo()
	id, _, _, err := ondisk.WriteIdentity(repo, "", []ondisk.IdentityVersion{{Version: 2, UnixTime: 1600000000, Name: "fuzz author", Nonce: fuzzAuthorNonce}})
	if err != nil {
		panic(err)
	}
	return repo, id
}

func FuzzOpsBlob(f *testing.F) {
	_, author := fuzzRepoWithAuthor()
	valid := fmt.Sprintf(`{"author":{"id":%q},"ops":[{"type":1,"timestamp":1,"nonce":"AAAAAAAAAAAAAAAAAAAAAAAAAAA=","title":"t","message":"m","files":null},{"type":3,"timestamp":2,"nonce":"AAAAAAAAAAAAAAAAAAAAAAAAAAE=","message":"c","files":null},{"type":5,"timestamp":2,"nonce":"AAAAAAAAAAAAAAAAAAAAAAAAAAI=","added":["a"],"removed":[]},{"type":4,"timestamp":2,"nonce":"AAAAAAAAAAAAAAAAAAAAAAAAAAM=","status":2},{"type":2,"timestamp":2,"nonce":"AAAAAAAAAAAAAAAAAAAAAAAAAAQ=","title":"x","was":"t"},{"type":6,"timestamp":2,"nonce":"AAAAAAAAAAAAAAAAAAAAAAAAAAU=","target":"%s","message":"e","files":null},{"type":8,"timestamp":2,"nonce":"AAAAAAAAAAAAAAAAAAAAAAAAAAY=","target":"%s","new_metadata":{"k":"v"}},{"type":7,"timestamp":2,"nonce":"AAAAAAAAAAAAAAAAAAAAAAAAAAc="}]}`,
		author, strings.Repeat("a", 64), strings.Repeat("b", 64))
	for _, s := range []string{
		valid,
		fmt.Sprintf(`{"author":{"id":%q},"ops":null}`, author),
		fmt.Sprintf(`{"author":{"id":%q},"ops":[{}]}`, author),
		fmt.Sprintf(`{"author":{"id":%q},"ops":[null]}`, author),
		fmt.Sprintf(`{"author":{"id":%q},"ops":[{"type":99}]}`, author),
		fmt.Sprintf(`{"author":{"id":%q},"ops":[{"type":-1}]}`, author),
		fmt.Sprintf(`{"author":{"id":%q},"ops":[{"type":1,"files":["zz"]}]}`, author),
		fmt.Sprintf(`{"author":{"id":%q},"ops":[{"type":5,"added":null,"removed":null}]}`, author),
		fmt.Sprintf(`{"author":{"id":%q},"ops":[{"type":8,"target":5}]}`, author),
		`{"author":null,"ops":[]}`, `{"author":{"id":""}}`, `{"author":5}`, `[]`, `null`, `{}`, ``, `{"ops":[1,2,3]}`,
	} {
		f.Add([]byte(s))
	}
	const name = "aaaaaaaaaaaaaaaaaaaaaaaaaaaaaaaaaaaaaaaaaaaaaaaaaaaaaaaaaaaaaaaa"
	f.Fuzz(func(t *testing.T, data []byte) {
		repo, _ := fuzzRepoWithAuthor()
		head, err := ondisk.WritePack(repo, ondisk.PackSpec{OpsBlob: data, Version: "4", EditClock: "1", CreateClock: "1"})
		if err != nil {
			t.Skip()
		}
		if err := repo.UpdateRef("refs/bugs/"+name, repository.Hash(head)); err != nil {
			t.Skip()
		}
		b, err := bug.Read(repo, entity.Id(name))
		if err != nil {
			return
		}
		ids1 := opIdsOf(b)
		verr := b.Validate()
		b2, err := bug.Read(repo, entity.Id(name))
		if err != nil {
			t.Fatalf("second read fails: %v", err)
		}
		if strings.Join(opIdsOf(b2), ",") != strings.Join(ids1, ",") {
			t.Fatalf("two reads give different ids")
		}
		if verr == nil {
			snap := b.Compile()
			_ = snap.Title
			for _, op := range b.Operations() {
				_ = op.AllMetadata()
			}
		}
	})
}

func FuzzIdentityVersion(f *testing.F) {
	for _, s := range []string{
		`{"version":2,"times":{"bugs-edit":1},"unix_time":1,"name":"n","nonce":"AAAAAAAAAAAAAAAAAAAAAAAAAAA="}`,
		`{"version":2,"times":null,"unix_time":1,"login":"l","nonce":"AAAAAAAAAAAAAAAAAAAAAAAAAAA=","pub_keys":["x"]}`,
		`{"version":2,"pub_keys":[null]}`, `{"version":2,"pub_keys":[""]}`, `{"version":1}`, `{"version":2}`, `null`, `[]`, `{}`, ``,
		`{"version":2,"name":"a","nonce":"AAAAAAAAAAAAAAAAAAAAAAAAAAA=","metadata":{"a":"b"},"avatar_url":"http://x"}`,
	} {
		f.Add([]byte(s))
	}
	f.Fuzz(func(t *testing.T, data []byte) {
		repo := repository.NewMockRepo()
		head, err := ondisk.WriteIdentityBlob(repo, data, "")
		if err != nil {
			t.Skip()
		}
		id := ondisk.Sha(data)
		if err := repo.UpdateRef("refs/identities/"+id, repository.Hash(head)); err != nil {
			t.Skip()
		}
		i, err := identity.ReadLocal(repo, entity.Id(id))
		if err != nil {
			return
		}
		if i.Validate() == nil {
			_ = i.DisplayName()
			_ = i.Keys()
			_ = i.ImmutableMetadata()
			_ = i.ValidKeysAtTime("bugs-edit", 5)
		}
		i2, err := identity.ReadLocal(repo, entity.Id(id))
		if err != nil || i2.Id() != i.Id() {
			t.Fatalf("second read differs: %v", err)
		}
	})
}
