package harness

import (
	"fmt"
	"testing"
	"time"

	"pgregory.net/rapid"

	"github.com/MichaelMure/git-bug/entities/bug"

	"verif/harness/internal/report"
)

// TestC16OlderImportData: "a re-import of an unchanged tracker creates nothing" on a repository whose bugs were
// imported by an older version of the bridge, which applied the label events again every time an issue was listed:
// such a bug holds two label operations carrying the id of the same tracker event. Every issue is listed again
// (as if touched), three times; whatever the import reports, the number of operations does not grow.

type c16OlderCase struct {
	Seed    uint64 `json:"seed"`
	NIssues int    `json:"n_issues"`
	Labels  int    `json:"labels"` // label events per issue
}

func genC16Older(t *rapid.T) c16OlderCase {
	return c16OlderCase{Seed: rapid.Uint64().Draw(t, "seed"), NIssues: rapid.IntRange(1, 3).Draw(t, "nIssues"), Labels: rapid.IntRange(1, 3).Draw(t, "labels")}
}

func runC16Older(tb report.TB, rep *report.Reporter, c c16OlderCase) {
	tr := newC16Tracker()
	defer tr.srv.Reset()
	round := c16Round{}
	for i := 0; i < c.NIssues; i++ {
		round.NewIssues = append(round.NewIssues, c16Issue{Author: i % 3, Title: fmt.Sprintf("issue number %d", i), Desc: "description"})
		for l := 0; l < c.Labels; l++ {
			round.Events = append(round.Events, c16Event{Issue: i, Kind: "addlabel", User: (i + l) % 3, Note: l})
		}
	}
	tr.apply(round, true, 0)
	main, err := newC16Repo(tr.srv.URL())
	if err != nil {
		tb.Fatalf("harness: %v", err)
	}
	defer main.close()
	if _, hadErr, err := main.importRound(); err != nil || hadErr {
		rep.Fail(tb, "C16/fresh-import-reports-error", fmt.Sprintf("%v %v", err, main.lastErrors), c)
		return
	}
	// what the older version left behind: one label operation stored twice, same tracker id
	duplicated := 0
	for _, id := range main.rc.Bugs().AllIds() {
		bc, err := main.rc.Bugs().Resolve(id)
		if err != nil {
			tb.Fatalf("harness: %v", err)
		}
		for _, op := range bc.Snapshot().Operations {
			lop, ok := op.(*bug.LabelChangeOperation)
			if !ok || lop.AllMetadata()["gitlab-id"] == "" {
				continue
			}
			author, err := main.rc.Identities().Resolve(lop.Author().Id())
			if err != nil {
				tb.Fatalf("harness: %v", err)
			}
			strs := func(ls []bug.Label) []string {
				var out []string
				for _, l := range ls {
					out = append(out, string(l))
				}
				return out
			}
			if _, err := bc.ForceChangeLabelsRaw(author, lop.Time().Unix(), strs(lop.Added), strs(lop.Removed), map[string]string{"gitlab-id": lop.AllMetadata()["gitlab-id"]}); err != nil {
				tb.Fatalf("harness: duplicate: %v", err)
			}
			if err := bc.Commit(); err != nil {
				tb.Fatalf("harness: %v", err)
			}
			duplicated++
			break
		}
	}
	rep.Case(fmt.Sprintf("older-data|n%d|l%d|dup%d", c.NIssues, c.Labels, duplicated), duplicated > 0, []string{fmt.Sprintf("bugs-with-a-duplicated-event:%d", duplicated)}, c)
	if duplicated == 0 {
		return
	}
	count := func() int {
		n := 0
		for _, id := range main.rc.Bugs().AllIds() {
			if bc, err := main.rc.Bugs().Resolve(id); err == nil {
				n += len(bc.Snapshot().Operations)
			}
		}
		return n
	}
	before := count()
	for k := 0; k < 3; k++ {
		for _, is := range tr.srv.Issues {
			is.UpdatedAt = time.Now()
		}
		_, hadErr, err := main.importRound()
		if err != nil {
			tb.Fatalf("harness: import: %v", err)
		}
		if after := count(); after != before {
			rep.Fail(tb, "C16/older-data/re-import-of-unchanged-tracker-adds-operations", fmt.Sprintf("import #%d over bugs that hold a tracker event twice (an older bridge version wrote that): %d operations before, %d after; the import reported an error: %v", k+1, before, after, hadErr), c)
			return
		}
	}
}

func TestC16OlderImportData(t *testing.T) {
	Drive(t, "C16", genC16Older, runC16Older)
}
