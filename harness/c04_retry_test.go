package harness

import (
	"fmt"
	"strings"
	"testing"

	"pgregory.net/rapid"

	"github.com/MichaelMure/git-bug/entities/bug"
	"github.com/MichaelMure/git-bug/entity"

	"verif/harness/internal/faultrepo"
	"verif/harness/internal/refmodel"
	"verif/harness/internal/report"
)

// TestC04CommitRetry: the round trip when one storage operation fails and the caller goes on. The K-th storage
// mutation of the session (any blob, tree, commit, clock or reference write of any Commit) returns an error and is
// not performed; the process lives on, adds one more comment and commits again. Once a Commit has succeeded,
// everything the bug object lists (what the user was shown) is what a fresh reader finds in git, each operation
// once, and the id is the one handed out at creation.

type c04RetryCase struct {
	Seed   uint64     `json:"seed"`
	Chunks [][]OpSpec `json:"chunks"`
	K      int        `json:"k"`
}

func genC04Retry(t *rapid.T) c04RetryCase {
	base := genC04(t)
	for i := range base.Chunks {
		for j := range base.Chunks[i] {
			base.Chunks[i][j].Files = nil
		}
	}
	return c04RetryCase{Seed: base.Seed, Chunks: base.Chunks, K: rapid.IntRange(0, 40).Draw(t, "k")}
}

func runC04Retry(tb report.TB, rep *report.Reporter, c c04RetryCase) {
	w, err := NewWorld(1, c.Seed)
	if err != nil {
		tb.Fatalf("harness: %v", err)
	}
	defer w.Close()
	r0 := w.Replicas[0]
	// the creation itself is committed without any failure: a bug whose very first Commit failed has no stored
	// form and no id anybody was given (the cache discards it); the failures of interest hit a bug that exists
	fr := faultrepo.New(r0.Repo, -1)
	fr.Transient = true
	b := bug.NewBug()
	var prev []Built
	var firstId string
	failures, failedAt := 0, ""
	lastCommitOK := false
	nonce := 0
	appendOne := func(s OpSpec) bool {
		nonce++
		op, _ := BuildOp(s, r0.Authors, prev, nil, NonceFor(c.Seed, 6_000_000+nonce))
		if op.Validate() != nil {
			return false
		}
		b.Append(op)
		prev = append(prev, Built{Id: string(op.Id()), Kind: s.Kind})
		if firstId == "" {
			firstId = string(b.Id())
		}
		return true
	}
	commit := func() {
		if !b.NeedCommit() {
			return
		}
		before := len(fr.Log)
		err := b.Commit(fr)
		lastCommitOK = err == nil
		if err != nil {
			if !strings.Contains(err.Error(), "injected failure") {
				tb.Fatalf("harness: commit fails without an injected failure: %v", err)
			}
			failures++
			if fr.AbortAt >= 0 && fr.AbortAt < len(fr.Log) {
				failedAt = mutationKind(fr.Log[fr.AbortAt])
			}
			_ = before
		}
	}
	for ci, chunk := range c.Chunks {
		n := 0
		for _, s := range chunk {
			if appendOne(s) {
				n++
			}
		}
		if n > 0 {
			commit()
		}
		if ci == 0 {
			if !lastCommitOK {
				return // creation refused by validation
			}
			fr.AbortAt = len(fr.Log) + c.K
		}
	}
	if firstId == "" {
		return
	}
	if !lastCommitOK {
		// the caller tries again after one more edit
		appendOne(OpSpec{Kind: refmodel.KComment, Author: 0, Time: 77_000, Message: "written after the failure"})
		commit()
	}
	rep.Case(fmt.Sprintf("retry|chunks=%d|failed=%d|at=%s", len(c.Chunks), failures, failedAt), failures > 0,
		[]string{fmt.Sprintf("injected-failures:%d", failures), "failed-at:" + failedAt}, c)
	if !lastCommitOK {
		return // nothing was acknowledged last: no claim
	}
	fail := func(sig, detail string) bool {
		return rep.Fail(tb, "C04/retry/"+sig, fmt.Sprintf("one storage operation failed (#%d, %s), the session went on\nmutations: %v\n%s", c.K, failedAt, fr.Log, detail), c)
	}
	if string(b.Id()) != firstId {
		if fail("id-changed", fmt.Sprintf("id at creation %s, now %s", firstId, b.Id())) {
			return
		}
	}
	stored, err := bug.Read(r0.Repo, entity.Id(firstId))
	if err != nil {
		fail("unreadable-under-its-id/"+Normalize(err.Error()), err.Error())
		return
	}
	var want, got []string
	for _, op := range b.Operations() {
		want = append(want, string(op.Id()))
	}
	for _, op := range stored.Operations() {
		got = append(got, string(op.Id()))
	}
	if strings.Join(want, ",") != strings.Join(got, ",") {
		fail("stored-operations-differ-from-the-bug-in-memory", fmt.Sprintf("in memory (after a successful Commit) %d operations %v\nstored %d operations %v", len(want), want, len(got), got))
	}
}

func TestC04CommitRetry(t *testing.T) {
	Drive(t, "C04", genC04Retry, runC04Retry)
}
