package harness

import (
	"encoding/json"
	"fmt"
	"os"
	"runtime/debug"
	"strconv"
	"strings"
	"testing"

	"pgregory.net/rapid"

	"verif/harness/internal/report"
)

// Thorough tells which tier the driver asked for.
func Thorough() bool { return os.Getenv("VERIF_TIER") == "thorough" }

// Scale picks the bound for the current tier.
func Scale(quick, thorough int) int {
	if Thorough() {
		return thorough
	}
	return quick
}

// EnvInt reads an integer knob set by the driver.
func EnvInt(name string, def int) int {
	if v := os.Getenv(name); v != "" {
		if n, err := strconv.Atoi(v); err == nil {
			return n
		}
	}
	return def
}

type replayDoc struct {
	Property  string          `json:"property"`
	Test      string          `json:"test"`
	Signature string          `json:"signature"`
	Case      json.RawMessage `json:"case"`
}

// Drive runs one property: cases are explicit values produced by gen (rapid
// draws only), run executes a case against the real code and the oracle. With
// VERIF_REPLAY set, the saved case is fed to run directly, bypassing rapid.
func Drive[C any](t *testing.T, prop string, gen func(*rapid.T) C, run func(tb report.TB, rep *report.Reporter, c C)) {
	rep := report.For(prop, t.Name())
	defer rep.Close()

	guarded := func(tb report.TB, c C) {
		defer func() {
			if r := recover(); r != nil {
				if strings.HasPrefix(fmt.Sprintf("%T", r), "rapid.") || strings.HasPrefix(fmt.Sprintf("%T", r), "*rapid.") {
					panic(r) // rapid's own control flow
				}
				stack := string(debug.Stack())
				sig := "panic/" + PanicSite(stack) + "/" + Normalize(fmt.Sprint(r))
				if rep.Fail(tb, sig, fmt.Sprintf("panic: %v\n%s", r, stack), c) {
					return
				}
			}
		}()
		run(tb, rep, c)
	}

	if p := os.Getenv("VERIF_REPLAY"); p != "" {
		data, err := os.ReadFile(p)
		if err != nil {
			t.Fatalf("replay: %v", err)
		}
		var doc replayDoc
		if err := json.Unmarshal(data, &doc); err != nil {
			t.Fatalf("replay: %v", err)
		}
		if doc.Test != t.Name() {
			t.Skipf("replay file is for %s", doc.Test)
		}
		var c C
		if err := json.Unmarshal(doc.Case, &c); err != nil {
			t.Fatalf("replay: cannot decode case: %v", err)
		}
		guarded(t, c)
		return
	}

	rapid.Check(t, func(rt *rapid.T) {
		c := gen(rt)
		guarded(rt, c)
	})
}

// PanicSite extracts the first git-bug frame below the panic from a stack dump.
func PanicSite(stack string) string {
	lines := strings.Split(stack, "\n")
	seenPanic := false
	for i := 0; i < len(lines); i++ {
		l := lines[i]
		if strings.HasPrefix(l, "panic(") {
			seenPanic = true
			continue
		}
		if !seenPanic {
			continue
		}
		if strings.HasPrefix(l, "github.com/MichaelMure/git-bug/") {
			fn := strings.TrimPrefix(l, "github.com/MichaelMure/git-bug/")
			if k := strings.Index(fn, "("); k > 0 {
				// keep "(…)" receivers but drop the argument list
				if j := strings.LastIndex(fn, "("); j > 0 {
					fn = fn[:j]
				}
			}
			return fn
		}
	}
	return "unknown-site"
}

// Normalize strips volatile parts (hashes, numbers, temp paths) from a message
// so it can be part of a signature.
func Normalize(s string) string {
	var b strings.Builder
	run := 0
	flush := func() {
		run = 0
	}
	for _, r := range s {
		isHex := (r >= '0' && r <= '9') || (r >= 'a' && r <= 'f')
		if isHex {
			run++
			if run <= 3 {
				b.WriteRune(r)
			} else if run == 4 {
				// collapse long hex/digit runs
				str := b.String()
				b.Reset()
				b.WriteString(str[:len(str)-3])
				b.WriteString("#")
			}
			continue
		}
		flush()
		if r == '\n' {
			b.WriteRune(' ')
			continue
		}
		b.WriteRune(r)
	}
	out := b.String()
	if i := strings.Index(out, "/tmp/"); i >= 0 {
		out = out[:i] + "<tmp>"
	}
	if len(out) > 160 {
		out = out[:160]
	}
	return out
}

// ReplayCase loads the saved case when the driver runs in replay mode; used by
// tests that enumerate instead of drawing from rapid.
func ReplayCase[C any](t *testing.T) (c C, ok bool) {
	p := os.Getenv("VERIF_REPLAY")
	if p == "" {
		return c, false
	}
	data, err := os.ReadFile(p)
	if err != nil {
		t.Fatalf("replay: %v", err)
	}
	var doc replayDoc
	if err := json.Unmarshal(data, &doc); err != nil {
		t.Fatalf("replay: %v", err)
	}
	if doc.Test != t.Name() {
		t.Skipf("replay file is for %s", doc.Test)
	}
	if err := json.Unmarshal(doc.Case, &c); err != nil {
		t.Fatalf("replay: cannot decode case: %v", err)
	}
	return c, true
}
