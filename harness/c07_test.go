package harness

import (
	"encoding/base64"
	"encoding/json"
	"fmt"
	"os"
	"path/filepath"
	"runtime/debug"
	"sort"
	"strconv"
	"strings"
	"sync"
	"testing"

	"pgregory.net/rapid"

	"github.com/MichaelMure/git-bug/cache"
	"github.com/MichaelMure/git-bug/entities/bug"
	"github.com/MichaelMure/git-bug/entities/identity"
	"github.com/MichaelMure/git-bug/entity"
	"github.com/MichaelMure/git-bug/repository"

	"verif/harness/internal/ondisk"
	"verif/harness/internal/report"
)

// C07: hostile or corrupt remote data is rejected without crash or local damage.

// ---------------------------------------------------------------- history description

type hPack struct {
	Entries  []repository.TreeEntry // tree entries; the hash of "ops" is filled from OpsBlob at write time
	OpsBlob  []byte                 // nil: keep the entry's own hash (or no ops entry at all)
	Parents  []int
	OpsToObj string // "" | "tree" | "missing": what the ops entry points to instead of the blob
}

type history struct {
	Packs    []hPack
	RefName  string // last component of the ref the data is served under
	HeadKind string // "commit" | "blob" | "tree" | "empty-tree-commit"
}

func (h *history) clone() *history {
	c := &history{RefName: h.RefName, HeadKind: h.HeadKind}
	for _, p := range h.Packs {
		q := hPack{Entries: append([]repository.TreeEntry(nil), p.Entries...), Parents: append([]int(nil), p.Parents...), OpsToObj: p.OpsToObj}
		if p.OpsBlob != nil {
			q.OpsBlob = append([]byte(nil), p.OpsBlob...)
		}
		c.Packs = append(c.Packs, q)
	}
	return c
}

// fromDAG turns a stored linear/DAG history into a mutable description (topological: parents first).
func fromDAG(d *ondisk.DAG) *history {
	// order by (edit clock, then commit) is topological for histories git-bug wrote
	var commits []string
	for h := range d.Packs {
		commits = append(commits, h)
	}
	sort.Slice(commits, func(i, j int) bool {
		a, b := d.Packs[commits[i]], d.Packs[commits[j]]
		if a.EditClock != b.EditClock {
			return a.EditClock < b.EditClock
		}
		return commits[i] < commits[j]
	})
	idx := map[string]int{}
	h := &history{HeadKind: "commit"}
	for i, c := range commits {
		idx[c] = i
		p := d.Packs[c]
		hp := hPack{Entries: append([]repository.TreeEntry(nil), p.Entries...), OpsBlob: append([]byte(nil), p.OpsBlob...)}
		for _, par := range p.Parents {
			hp.Parents = append(hp.Parents, idx[par])
		}
		h.Packs = append(h.Packs, hp)
	}
	return h
}

// write stores the history from pack `from` on (earlier packs are the given existing commits) and returns the head hash.
func (h *history) write(repo repository.RepoData, existing []string, from int) (head string, commits []string, err error) {
	commits = append([]string(nil), existing[:from]...)
	for i := from; i < len(h.Packs); i++ {
		p := h.Packs[i]
		entries := append([]repository.TreeEntry(nil), p.Entries...)
		for k := range entries {
			if entries[k].Name == "ops" {
				switch {
				case p.OpsToObj == "tree":
					th, err := repo.StoreTree([]repository.TreeEntry{})
					if err != nil {
						return "", nil, err
					}
					entries[k].Hash = th
				case p.OpsToObj == "missing":
					entries[k].Hash = repository.Hash("deadbeefdeadbeefdeadbeefdeadbeefdeadbeef")
				case p.OpsBlob != nil:
					bh, err := repo.StoreData(p.OpsBlob)
					if err != nil {
						return "", nil, err
					}
					entries[k].Hash = bh
				}
			}
		}
		th, err := repo.StoreTree(entries)
		if err != nil {
			return "", nil, err
		}
		var parents []repository.Hash
		for _, par := range p.Parents {
			parents = append(parents, repository.Hash(commits[par]))
		}
		ch, err := repo.StoreCommit(th, parents...)
		if err != nil {
			return "", nil, err
		}
		commits = append(commits, string(ch))
	}
	head = commits[len(commits)-1]
	switch h.HeadKind {
	case "blob":
		bh, _ := repo.StoreData([]byte("not a commit"))
		head = string(bh)
	case "tree":
		th, _ := repo.StoreTree([]repository.TreeEntry{})
		head = string(th)
	case "empty-tree-commit":
		th, _ := repo.StoreTree([]repository.TreeEntry{})
		ch, _ := repo.StoreCommit(th)
		head = string(ch)
	}
	return head, commits, nil
}

// ---- JSON helpers: untouched elements keep their exact bytes

type opsDoc struct {
	Author json.RawMessage
	Ops    []json.RawMessage
	HasOps bool
}

func parseOps(blob []byte) (*opsDoc, bool) {
	var top map[string]json.RawMessage
	if json.Unmarshal(blob, &top) != nil {
		return nil, false
	}
	d := &opsDoc{Author: top["author"]}
	if raw, ok := top["ops"]; ok && string(raw) != "null" {
		if json.Unmarshal(raw, &d.Ops) != nil {
			return nil, false
		}
		d.HasOps = true
	}
	return d, true
}

func (d *opsDoc) render() []byte {
	var sb strings.Builder
	sb.WriteString(`{"author":`)
	sb.Write(d.Author)
	sb.WriteString(`,"ops":[`)
	for i, o := range d.Ops {
		if i > 0 {
			sb.WriteString(",")
		}
		sb.Write(o)
	}
	sb.WriteString("]}")
	return []byte(sb.String())
}

// setField rewrites one field of element i (raw JSON value); value "" deletes the field.
func setField(elem json.RawMessage, field, value string) json.RawMessage {
	var m map[string]json.RawMessage
	if json.Unmarshal(elem, &m) != nil {
		return elem
	}
	if value == "" {
		delete(m, field)
	} else {
		m[field] = json.RawMessage(value)
	}
	// keep "type" first like the writer does, the rest sorted: deterministic
	keys := make([]string, 0, len(m))
	for k := range m {
		keys = append(keys, k)
	}
	sort.Strings(keys)
	var sb strings.Builder
	sb.WriteString("{")
	for n, k := range keys {
		if n > 0 {
			sb.WriteString(",")
		}
		kb, _ := json.Marshal(k)
		sb.Write(kb)
		sb.WriteString(":")
		sb.Write(m[k])
	}
	sb.WriteString("}")
	return json.RawMessage(sb.String())
}

func elemType(elem json.RawMessage) int {
	var t struct {
		T int `json:"type"`
	}
	_ = json.Unmarshal(elem, &t)
	return t.T
}

// ---------------------------------------------------------------- operator catalogue

type c07Op struct {
	Name  string
	Must  bool                                         // must be rejected (contradicts the documented format or a validation rule)
	Apply func(h *history, j, i int, env *c07Env) bool // false: not applicable at this position
}

func treeOp(f func(p *hPack, j int) bool) func(*history, int, int, *c07Env) bool {
	return func(h *history, j, i int, env *c07Env) bool { return f(&h.Packs[j], j) }
}

func renameEntry(prefix, newName string) func(*history, int, int, *c07Env) bool {
	return treeOp(func(p *hPack, j int) bool {
		for k := range p.Entries {
			if strings.HasPrefix(p.Entries[k].Name, prefix) {
				p.Entries[k].Name = newName
				return true
			}
		}
		return false
	})
}

func dropEntry(prefix string) func(*history, int, int, *c07Env) bool {
	return treeOp(func(p *hPack, j int) bool {
		for k := range p.Entries {
			if strings.HasPrefix(p.Entries[k].Name, prefix) {
				p.Entries = append(p.Entries[:k], p.Entries[k+1:]...)
				return true
			}
		}
		return false
	})
}

func blobOp(f func(blob []byte) []byte) func(*history, int, int, *c07Env) bool {
	return func(h *history, j, i int, env *c07Env) bool {
		nb := f(h.Packs[j].OpsBlob)
		if nb == nil {
			return false
		}
		h.Packs[j].OpsBlob = nb
		return true
	}
}

func docOp(f func(d *opsDoc, i int, env *c07Env) bool) func(*history, int, int, *c07Env) bool {
	return func(h *history, j, i int, env *c07Env) bool {
		d, ok := parseOps(h.Packs[j].OpsBlob)
		if !ok || len(d.Ops) == 0 {
			return false
		}
		i = i % len(d.Ops)
		if j == 0 && i == 0 {
			i = len(d.Ops) - 1 // keep the bug id (first operation of the root) unless the operator is about it
			if i == 0 {
				return false
			}
		}
		if !f(d, i, env) {
			return false
		}
		h.Packs[j].OpsBlob = d.render()
		return true
	}
}

func fieldOp(field, value string, onlyTypes ...int) func(*history, int, int, *c07Env) bool {
	return docOp(func(d *opsDoc, i int, env *c07Env) bool {
		if len(onlyTypes) > 0 {
			ok := false
			for k := range d.Ops {
				idx := (i + k) % len(d.Ops)
				for _, t := range onlyTypes {
					if elemType(d.Ops[idx]) == t && !(idx == 0 && t == 1 && false) {
						i, ok = idx, true
					}
				}
				if ok {
					break
				}
			}
			if !ok {
				return false
			}
		}
		d.Ops[i] = setField(d.Ops[i], field, value)
		return true
	})
}

func b64(n int) string {
	return `"` + base64.StdEncoding.EncodeToString(make([]byte, n)) + `"`
}

var c07BugOps = []c07Op{
	// ---- tree entries
	{"tree/drop-ops", true, dropEntry("ops")},
	{"tree/rename-ops", true, renameEntry("ops", "opss")},
	{"tree/ops-points-to-tree", true, treeOp(func(p *hPack, j int) bool { p.OpsToObj = "tree"; return true })},
	{"tree/ops-points-to-missing-object", true, treeOp(func(p *hPack, j int) bool { p.OpsToObj = "missing"; return true })},
	{"tree/drop-version", true, dropEntry("version-")},
	{"tree/version-too-new", true, renameEntry("version-", "version-5")},
	{"tree/version-too-old", true, renameEntry("version-", "version-3")},
	{"tree/version-zero", true, renameEntry("version-", "version-0")},
	{"tree/version-huge", true, renameEntry("version-", "version-99999999999999999999999")},
	{"tree/version-non-numeric", true, renameEntry("version-", "version-four")},
	{"tree/version-negative", true, renameEntry("version-", "version--4")},
	{"tree/drop-edit-clock", true, dropEntry("edit-clock-")},
	{"tree/edit-clock-non-numeric", true, renameEntry("edit-clock-", "edit-clock-soon")},
	{"tree/edit-clock-negative", true, renameEntry("edit-clock-", "edit-clock--1")},
	{"tree/edit-clock-overflow", true, renameEntry("edit-clock-", "edit-clock-99999999999999999999999")},
	{"tree/edit-clock-zero", true, renameEntry("edit-clock-", "edit-clock-0")},
	{"tree/drop-create-clock", true, func(h *history, j, i int, env *c07Env) bool { return dropEntry("create-clock-")(h, 0, i, env) }},
	{"tree/create-clock-non-numeric", true, func(h *history, j, i int, env *c07Env) bool {
		return renameEntry("create-clock-", "create-clock-x")(h, 0, i, env)
	}},
	{"tree/create-clock-zero", true, func(h *history, j, i int, env *c07Env) bool {
		return renameEntry("create-clock-", "create-clock-0")(h, 0, i, env)
	}},
	{"tree/extra-unknown-entry", false, treeOp(func(p *hPack, j int) bool {
		p.Entries = append(p.Entries, repository.TreeEntry{ObjectType: repository.Blob, Hash: p.Entries[0].Hash, Name: "zzz-unknown"})
		return true
	})},
	{"tree/second-edit-clock-entry", false, treeOp(func(p *hPack, j int) bool {
		for _, e := range p.Entries {
			if strings.HasPrefix(e.Name, "edit-clock-") {
				p.Entries = append(p.Entries, repository.TreeEntry{ObjectType: repository.Blob, Hash: e.Hash, Name: e.Name + "0"})
				return true
			}
		}
		return false
	})},
	{"tree/second-version-entry", false, treeOp(func(p *hPack, j int) bool {
		p.Entries = append(p.Entries, repository.TreeEntry{ObjectType: repository.Blob, Hash: p.Entries[0].Hash, Name: "version-9"})
		return true
	})},
	// ---- pack JSON as a whole
	{"json/truncated", true, blobOp(func(b []byte) []byte { return b[:len(b)/2] })},
	{"json/not-json", true, blobOp(func(b []byte) []byte { return []byte("\x00\x01 this is not json") })},
	{"json/empty-blob", true, blobOp(func(b []byte) []byte { return []byte{} })},
	{"json/top-level-array", true, blobOp(func(b []byte) []byte { return []byte("[]") })},
	{"json/top-level-null", true, blobOp(func(b []byte) []byte { return []byte("null") })},
	{"json/top-level-string", true, blobOp(func(b []byte) []byte { return []byte(`"ops"`) })},
	{"json/author-missing", true, blobOp(func(b []byte) []byte {
		d, ok := parseOps(b)
		if !ok {
			return nil
		}
		return []byte(strings.Replace(string(d.render()), `"author":`+string(d.Author)+`,`, ``, 1))
	})},
	{"json/author-null", true, docAuthor(`null`)},
	{"json/author-number", true, docAuthor(`5`)},
	{"json/author-string", true, docAuthor(`"me"`)},
	{"json/author-array", true, docAuthor(`[]`)},
	{"json/author-empty-object", true, docAuthor(`{}`)},
	{"json/author-id-unknown", true, docAuthor(`{"id":"` + string(UnknownId(7)) + `"}`)},
	{"json/author-id-ill-formed", true, docAuthor(`{"id":"xyz"}`)},
	{"json/author-id-number", true, docAuthor(`{"id":12}`)},
	{"json/author-id-empty", true, docAuthor(`{"id":""}`)},
	{"json/ops-object", true, blobOp(func(b []byte) []byte {
		d, ok := parseOps(b)
		if !ok {
			return nil
		}
		return []byte(`{"author":` + string(d.Author) + `,"ops":{}}`)
	})},
	{"json/ops-string", true, blobOp(func(b []byte) []byte {
		d, ok := parseOps(b)
		if !ok {
			return nil
		}
		return []byte(`{"author":` + string(d.Author) + `,"ops":"none"}`)
	})},
	{"json/root-ops-null", true, func(h *history, j, i int, env *c07Env) bool {
		d, ok := parseOps(h.Packs[0].OpsBlob)
		if !ok {
			return false
		}
		h.Packs[0].OpsBlob = []byte(`{"author":` + string(d.Author) + `,"ops":null}`)
		return true
	}},
	// ---- one element of the list
	{"elem/null", true, docOp(func(d *opsDoc, i int, env *c07Env) bool { d.Ops[i] = json.RawMessage(`null`); return true })},
	{"elem/empty-object", true, docOp(func(d *opsDoc, i int, env *c07Env) bool { d.Ops[i] = json.RawMessage(`{}`); return true })},
	{"elem/number", true, docOp(func(d *opsDoc, i int, env *c07Env) bool { d.Ops[i] = json.RawMessage(`42`); return true })},
	{"elem/string", true, docOp(func(d *opsDoc, i int, env *c07Env) bool { d.Ops[i] = json.RawMessage(`"op"`); return true })},
	{"elem/array", true, docOp(func(d *opsDoc, i int, env *c07Env) bool { d.Ops[i] = json.RawMessage(`[]`); return true })},
	{"elem/type-unknown", true, fieldOp("type", "99")},
	{"elem/type-first-unassigned", true, fieldOp("type", "9")}, // one past the last known type (what a newer git-bug would send first)
	{"elem/type-second-unassigned", true, fieldOp("type", "10")},
	{"elem/type-255", true, fieldOp("type", "255")},
	{"elem/type-256", true, fieldOp("type", "256")},
	{"elem/type-beyond-int32", true, fieldOp("type", "4294967297")},
	{"elem/type-max-int64", true, fieldOp("type", "9223372036854775807")},
	{"elem/type-beyond-int64", true, fieldOp("type", "18446744073709551617")},
	{"elem/type-zero", true, fieldOp("type", "0")},
	{"elem/type-negative", true, fieldOp("type", "-3")},
	{"elem/type-string", true, fieldOp("type", `"comment"`)},
	{"elem/type-missing", true, fieldOp("type", "")},
	{"elem/type-float", true, fieldOp("type", "3.5")},
	{"elem/type-changed-to-other-kind", false, fieldOp("type", "7")}, // a no-op operation with extra fields: the reader may take it
	{"elem/timestamp-zero", true, fieldOp("timestamp", "0")},
	{"elem/timestamp-string", true, fieldOp("timestamp", `"now"`)},
	{"elem/timestamp-missing", true, fieldOp("timestamp", "")},
	{"elem/nonce-too-short", true, fieldOp("nonce", b64(5))},
	{"elem/nonce-too-long", true, fieldOp("nonce", b64(70))},
	// the limits themselves: 20..64 bytes are legal
	{"elem/nonce-19-bytes", true, fieldOp("nonce", b64(19))},
	{"elem/nonce-65-bytes", true, fieldOp("nonce", b64(65))},
	{"elem/nonce-20-bytes-legal", false, fieldOp("nonce", b64(20))},
	{"elem/nonce-64-bytes-legal", false, fieldOp("nonce", b64(64))},
	{"elem/nonce-empty", true, fieldOp("nonce", `""`)},
	{"elem/nonce-missing", true, fieldOp("nonce", "")},
	{"elem/nonce-number", true, fieldOp("nonce", "7")},
	{"elem/nonce-not-base64", true, fieldOp("nonce", `"%%%"`)},
	{"elem/metadata-array", true, fieldOp("metadata", `[]`)},
	{"elem/metadata-number-value", true, fieldOp("metadata", `{"k":5}`)},
	{"elem/message-number", true, fieldOp("message", `5`, 3, 6)},
	{"elem/message-object", true, fieldOp("message", `{}`, 3, 6)},
	{"elem/message-control-chars", true, fieldOp("message", `"bell \u0007 esc \u001b"`, 3, 6)},
	{"elem/message-c1-control-chars", true, fieldOp("message", `"one-character CSI \u009b31m and NEL \u0085"`, 3, 6)},
	{"elem/files-string", true, fieldOp("files", `"x"`, 3, 6)},
	{"elem/files-invalid-hash", true, fieldOp("files", `["zz"]`, 3, 6)},
	{"elem/files-number-items", true, fieldOp("files", `[1,2]`, 3, 6)},
	{"elem/title-empty", true, fieldOp("title", `""`, 2)},
	{"elem/title-blank", true, fieldOp("title", `"  \t "`, 2)},
	{"elem/title-number", true, fieldOp("title", `3`, 2)},
	{"elem/title-two-lines", true, fieldOp("title", `"a\nb"`, 2)},
	{"elem/title-control-chars", true, fieldOp("title", `"a\u0000b"`, 2)},
	{"elem/title-c1-control-chars", true, fieldOp("title", `"a\u0085b"`, 2)},
	{"elem/status-invalid", true, fieldOp("status", `7`, 4)},
	{"elem/status-zero", true, fieldOp("status", `0`, 4)},
	{"elem/status-three", true, fieldOp("status", `3`, 4)}, // one past the last valid status
	{"elem/status-negative", true, fieldOp("status", `-1`, 4)},
	{"elem/status-string", true, fieldOp("status", `"closed"`, 4)},
	{"elem/label-empty", true, fieldOp("added", `[""]`, 5)},
	{"elem/label-control-chars", true, fieldOp("added", `["a\u0001"]`, 5)},
	{"elem/label-c1-control-chars", true, fieldOp("added", `["a\u009d"]`, 5)},
	{"elem/label-number", true, fieldOp("added", `[3]`, 5)},
	// well-formed label changes that git-bug's own front-ends never write (they de-duplicate): acceptable, but then
	// the bug must still compile
	{"elem/label-added-twice-and-removed", false, func(h *history, j, i int, env *c07Env) bool {
		return fieldOp("added", `["dup","dup"]`, 5)(h, j, i, env) && fieldOp("removed", `["dup"]`, 5)(h, j, i, env)
	}},
	{"elem/label-added-twice", false, fieldOp("added", `["twice","twice","other"]`, 5)},
	{"elem/label-removed-twice", false, func(h *history, j, i int, env *c07Env) bool {
		return fieldOp("added", `["keep"]`, 5)(h, j, i, env) && fieldOp("removed", `["gone","gone"]`, 5)(h, j, i, env)
	}},
	{"elem/label-no-change", true, func(h *history, j, i int, env *c07Env) bool {
		return fieldOp("added", `[]`, 5)(h, j, i, env) && fieldOp("removed", `[]`, 5)(h, j, i, env)
	}},
	{"elem/edit-target-ill-formed", true, fieldOp("target", `"nope"`, 6, 8)},
	{"elem/edit-target-number", true, fieldOp("target", `1`, 6, 8)},
	{"elem/edit-target-unknown", false, fieldOp("target", `"`+string(UnknownId(3))+`"`, 6, 8)},
	{"elem/unknown-extra-field", false, fieldOp("x-unknown", `{"a":[1,2]}`)},
	{"elem/duplicated-operation", true, docOp(func(d *opsDoc, i int, env *c07Env) bool {
		d.Ops = append(d.Ops, d.Ops[i])
		return true
	})},
	{"elem/second-create", true, func(h *history, j, i int, env *c07Env) bool {
		root, ok := parseOps(h.Packs[0].OpsBlob)
		if !ok || len(root.Ops) == 0 {
			return false
		}
		create := setField(root.Ops[0], "nonce", b64(21))
		d, ok := parseOps(h.Packs[j].OpsBlob)
		if !ok {
			return false
		}
		// the pack author must also be the create author for the data to be otherwise well formed
		d.Ops = append(d.Ops, create)
		h.Packs[j].OpsBlob = d.render()
		return true
	}},
	{"elem/first-operation-is-not-create", true, func(h *history, j, i int, env *c07Env) bool {
		d, ok := parseOps(h.Packs[0].OpsBlob)
		if !ok || len(d.Ops) == 0 {
			return false
		}
		d.Ops[0] = setField(setField(d.Ops[0], "type", "3"), "title", "")
		h.Packs[0].OpsBlob = d.render()
		h.RefName = ondisk.Sha(d.Ops[0])
		return true
	}},
	// ---- commits
	{"commit/second-root", true, func(h *history, j, i int, env *c07Env) bool {
		if len(h.Packs) < 2 {
			return false
		}
		k := 1 + j%(len(h.Packs)-1)
		if len(h.Packs[k].Parents) != 1 {
			return false
		}
		// a parentless copy of pack k joined by a merge at the end
		orphan := h.Packs[k]
		orphan.Parents = nil
		h.Packs = append(h.Packs, orphan)
		merge := h.Packs[len(h.Packs)-2]
		merge.Entries = append([]repository.TreeEntry(nil), merge.Entries...) // not the head's own slice
		merge.Parents = []int{len(h.Packs) - 2, len(h.Packs) - 1}
		d, ok := parseOps(merge.OpsBlob)
		if !ok {
			return false
		}
		merge.OpsBlob = []byte(`{"author":` + string(d.Author) + `,"ops":null}`)
		for n := range merge.Entries {
			if strings.HasPrefix(merge.Entries[n].Name, "edit-clock-") {
				merge.Entries[n].Name = "edit-clock-9999"
			}
			if strings.HasPrefix(merge.Entries[n].Name, "create-clock-") {
				merge.Entries[n].Name = "zz-was-create-clock"
			}
		}
		h.Packs = append(h.Packs, merge)
		return true
	}},
	{"commit/second-root-with-create-clock", true, func(h *history, j, i int, env *c07Env) bool {
		// like commit/second-root, but the extra root looks like a genuine first commit: it carries a create-clock
		// entry and operations of its own (fresh ids, no create operation), so nothing but the
		// "exactly one root" rule rejects the history
		if len(h.Packs) < 2 {
			return false
		}
		k := 1 + j%(len(h.Packs)-1)
		if len(h.Packs[k].Parents) != 1 {
			return false
		}
		src := h.Packs[k]
		d, ok := parseOps(src.OpsBlob)
		if !ok || len(d.Ops) == 0 {
			return false
		}
		for n := range d.Ops {
			d.Ops[n] = setField(d.Ops[n], "nonce", b64(20+n%40))
		}
		orphan := hPack{Entries: append([]repository.TreeEntry(nil), src.Entries...), OpsBlob: d.render()}
		for _, e := range h.Packs[0].Entries {
			if strings.HasPrefix(e.Name, "create-clock-") {
				orphan.Entries = append(orphan.Entries, e)
			}
		}
		head := len(h.Packs) - 1
		h.Packs = append(h.Packs, orphan)
		merge := hPack{Entries: append([]repository.TreeEntry(nil), h.Packs[head].Entries...), Parents: []int{head, head + 1}}
		md, ok := parseOps(h.Packs[head].OpsBlob)
		if !ok {
			return false
		}
		merge.OpsBlob = []byte(`{"author":` + string(md.Author) + `,"ops":null}`)
		for n := range merge.Entries {
			if strings.HasPrefix(merge.Entries[n].Name, "edit-clock-") {
				merge.Entries[n].Name = "edit-clock-9999"
			}
			if strings.HasPrefix(merge.Entries[n].Name, "create-clock-") {
				merge.Entries[n].Name = "zz-was-create-clock"
			}
		}
		h.Packs = append(h.Packs, merge)
		return true
	}},
	{"commit/clocks-far-ahead-then-backwards", true, func(h *history, j, i int, env *c07Env) bool {
		// every commit carries times 5000 ahead of what the local repository has seen (the root has no parent to
		// be compared with, so the early commits are fine on their own), and the last commit goes back in time:
		// the history is refused as a whole, and a refused history must not leave its times in the local clocks
		if len(h.Packs) < 2 {
			return false
		}
		shift := func(name, prefix string, by uint64) string {
			v, err := strconv.ParseUint(strings.TrimPrefix(name, prefix), 10, 64)
			if err != nil {
				return name
			}
			return prefix + strconv.FormatUint(v+by, 10)
		}
		for n := range h.Packs {
			for k := range h.Packs[n].Entries {
				name := h.Packs[n].Entries[k].Name
				switch {
				case strings.HasPrefix(name, "edit-clock-"):
					h.Packs[n].Entries[k].Name = shift(name, "edit-clock-", 5000)
				case strings.HasPrefix(name, "create-clock-"):
					h.Packs[n].Entries[k].Name = shift(name, "create-clock-", 5000)
				}
			}
		}
		last := &h.Packs[len(h.Packs)-1]
		for k := range last.Entries {
			if strings.HasPrefix(last.Entries[k].Name, "edit-clock-") {
				last.Entries[k].Name = "edit-clock-2"
			}
		}
		return true
	}},
	{"commit/foreign-history-as-parent", true, func(h *history, j, i int, env *c07Env) bool {
		// the head gets a second parent that belongs to another bug
		if env.foreignHead == "" {
			return false
		}
		h.Packs[len(h.Packs)-1].Parents = append(h.Packs[len(h.Packs)-1].Parents, -1)
		return true
	}},
	{"commit/merge-commit-with-operations", true, func(h *history, j, i int, env *c07Env) bool {
		if len(h.Packs) < 3 {
			return false
		}
		last := &h.Packs[len(h.Packs)-1]
		if len(last.Parents) != 1 || last.Parents[0] < 1 {
			return false
		}
		last.Parents = append(last.Parents, last.Parents[0]-1)
		return true
	}},
	{"commit/empty-tree", true, func(h *history, j, i int, env *c07Env) bool { h.HeadKind = "empty-tree-commit"; return true }},
	{"commit/clock-not-above-parent", true, func(h *history, j, i int, env *c07Env) bool {
		if len(h.Packs) < 2 {
			return false
		}
		k := 1 + j%(len(h.Packs)-1)
		return renameEntry("edit-clock-", "edit-clock-1")(h, k, i, env)
	}},
	// ---- refs
	{"ref/name-is-another-id", true, func(h *history, j, i int, env *c07Env) bool { h.RefName = string(UnknownId(j*31 + i)); return true }},
	{"ref/name-40-chars", true, func(h *history, j, i int, env *c07Env) bool { h.RefName = h.RefName[:40]; return true }},
	{"ref/name-short", true, func(h *history, j, i int, env *c07Env) bool { h.RefName = h.RefName[:12]; return true }},
	{"ref/name-non-hex", true, func(h *history, j, i int, env *c07Env) bool { h.RefName = strings.Repeat("z", 64); return true }},
	{"ref/name-bad-characters", true, func(h *history, j, i int, env *c07Env) bool { h.RefName = strings.Repeat("_", 64); return true }},
	{"ref/name-upper-case", true, func(h *history, j, i int, env *c07Env) bool { h.RefName = strings.ToUpper(h.RefName); return true }},
	{"ref/points-to-blob", true, func(h *history, j, i int, env *c07Env) bool { h.HeadKind = "blob"; return true }},
	{"ref/points-to-tree", true, func(h *history, j, i int, env *c07Env) bool { h.HeadKind = "tree"; return true }},
}

func docAuthor(value string) func(*history, int, int, *c07Env) bool {
	return blobOp(func(b []byte) []byte {
		d, ok := parseOps(b)
		if !ok {
			return nil
		}
		d.Author = json.RawMessage(value)
		return d.render()
	})
}

// ---------------------------------------------------------------- environment

type c07Env struct {
	dir         string
	repo        *repository.GoGitRepo
	authors     []identity.Interface
	authorIds   []string
	foreignHead string
	seq         int
}

var (
	c07Once sync.Once
	c07E    *c07Env
)

func getC07Env(tb report.TB) *c07Env {
	c07Once.Do(func() {
		dir := mkdirTemp("c07-")
		repo, err := repository.InitGoGitRepo(dir, "git-bug")
		if err != nil {
			panic(err)
		}
		env := &c07Env{dir: dir, repo: repo}
		for i := 0; i < 2; i++ {
			id, _, _, err := ondisk.WriteIdentity(repo, "", []ondisk.IdentityVersion{{Version: 2, UnixTime: 1600000000 + int64(i),
				Name: fmt.Sprintf("victim%d", i), Nonce: NonceFor(77, 6_000_000+i)}})
			if err != nil {
				panic(err)
			}
			a, err := identity.ReadLocal(repo, entity.Id(id))
			if err != nil {
				panic(err)
			}
			env.authors = append(env.authors, a)
			env.authorIds = append(env.authorIds, id)
		}
		if err := identity.SetUserIdentity(repo, env.authors[0].(*identity.Identity)); err != nil {
			panic(err)
		}
		// a foreign bug whose commits can be grafted in
		fb, _, err := bug.Create(env.authors[1], 99, "foreign bug", "", nil, nil)
		if err != nil {
			panic(err)
		}
		if err := fb.Commit(repo); err != nil {
			panic(err)
		}
		h, _ := repo.ResolveRef("refs/bugs/" + string(fb.Id()))
		env.foreignHead = string(h)
		_ = repo.RemoveRef("refs/bugs/" + string(fb.Id()))
		c07E = env
	})
	return c07E
}

type c07Case struct {
	Seed      uint64 `json:"seed"`
	Packs     []int  `json:"packs"` // number of operations per commit of the valid base history
	Fork      bool   `json:"fork"`  // base history has a diverged merge
	Operator  string `json:"operator"`
	J         int    `json:"j"`
	I         int    `json:"i"`
	Situation string `json:"situation"` // absent equal ahead behind diverged
	Layer     string `json:"layer"`     // dag cache
}

var c07Situations = []string{"absent", "equal", "ahead", "behind", "diverged"}

func genC07(t *rapid.T) c07Case {
	c := c07Case{Seed: rapid.Uint64().Draw(t, "seed")}
	c.Packs = rapid.SliceOfN(rapid.IntRange(1, 3), 1, 4).Draw(t, "packs")
	c.Operator = c07BugOps[rapid.IntRange(0, len(c07BugOps)-1).Draw(t, "operator")].Name
	c.J = rapid.IntRange(0, 5).Draw(t, "j")
	c.I = rapid.IntRange(0, 5).Draw(t, "i")
	c.Situation = rapid.SampledFrom(c07Situations).Draw(t, "situation")
	c.Layer = rapid.SampledFrom([]string{"dag", "dag", "cache"}).Draw(t, "layer")
	return c
}

func findOp(name string) *c07Op {
	for k := range c07BugOps {
		if c07BugOps[k].Name == name {
			return &c07BugOps[k]
		}
	}
	return nil
}

// kindsCycle makes every operation kind appear in base histories.
var kindsCycle = []OpSpec{
	{Kind: "comment", Message: "first comment"},
	{Kind: "title", Title: "new title"},
	{Kind: "status", Status: 2},
	{Kind: "label", Added: []string{"bug", "x"}},
	{Kind: "edit", Message: "edited", TargetMode: 0},
	{Kind: "meta", TargetMode: 1, NewMeta: map[string]string{"k": "v"}},
	{Kind: "noop"},
	{Kind: "comment", Message: "another"},
}

// safeRead reads a local bug synchronously and converts a panic into a report.
func safeRead(repo repository.ClockedRepo, id string) (b *bug.Bug, err error, panicked string) {
	defer func() {
		if r := recover(); r != nil {
			panicked = fmt.Sprint(r) + " at " + PanicSite(string(debug.Stack()))
		}
	}()
	b, err = bug.Read(repo, entity.Id(id))
	if err == nil {
		err = b.Validate()
	}
	if err == nil {
		// data that is accepted gets compiled by every front-end: that must not crash either, and the labels of
		// the compiled bug are a set
		snap := b.Compile()
		seen := map[string]bool{}
		for _, l := range snap.Labels {
			if seen[string(l)] {
				err = fmt.Errorf("the compiled bug lists label %q twice", l)
			}
			seen[string(l)] = true
		}
	}
	return
}

func allRefsOf(repo repository.RepoData) string {
	var sb strings.Builder
	for _, prefix := range []string{"refs/bugs/", "refs/identities/", "refs/remotes/"} {
		m := refsUnder(repo, prefix)
		keys := make([]string, 0, len(m))
		for k := range m {
			keys = append(keys, k)
		}
		sort.Strings(keys)
		for _, k := range keys {
			fmt.Fprintf(&sb, "%s %s\n", k, m[k])
		}
	}
	return sb.String()
}

// freshClocks makes every case start from the same clock state: no value witnessed by an earlier
// case (some accepted hostile histories carry large times) leaks into the next one.
func (env *c07Env) freshClocks(tb report.TB) *repository.GoGitRepo {
	_ = env.repo.Close()
	_ = os.RemoveAll(filepath.Join(env.dir, ".git", "git-bug", "clocks"))
	_ = os.RemoveAll(filepath.Join(env.dir, ".git", "git-bug", "lock"))
	repo, err := repository.OpenGoGitRepo(env.dir, "git-bug", nil)
	if err != nil {
		tb.Fatalf("harness: reopen: %v", err)
	}
	env.repo = repo
	return repo
}

func runC07(tb report.TB, rep *report.Reporter, c c07Case) {
	env := getC07Env(tb)
	repo := env.freshClocks(tb)
	op := findOp(c.Operator)
	if op == nil {
		tb.Fatalf("harness: unknown operator %s", c.Operator)
	}
	fail := func(sig, detail string) bool {
		return rep.Fail(tb, "C07/"+sig, fmt.Sprintf("operator %s at pack %d op %d, local situation %s, layer %s\n%s", c.Operator, c.J, c.I, c.Situation, c.Layer, detail), c)
	}
	var createdRefs []string
	defer func() {
		for _, r := range createdRefs {
			_ = repo.RemoveRef(r)
		}
	}()

	// ---- valid base history through the real API
	env.seq++
	b, _, err := bug.Create(env.authors[0], 1000, "base bug", "base message", nil, nil)
	if err != nil {
		tb.Fatalf("harness: %v", err)
	}
	k := int(c.Seed % 8)
	for pi, n := range c.Packs {
		var prev []Built
		for _, o := range b.Operations() {
			prev = append(prev, Built{Id: string(o.Id()), Kind: kindOfType(int(o.Type()))})
		}
		for x := 0; x < n; x++ {
			if pi == 0 && x == 0 {
				continue // the create operation
			}
			s := kindsCycle[k%len(kindsCycle)]
			k++
			s.Author, s.Time = 0, int64(2000+k)
			o, _ := BuildOp(s, env.authors, prev, nil, nil)
			b.Append(o)
			prev = append(prev, Built{Id: string(o.Id()), Kind: s.Kind})
		}
		if b.NeedCommit() {
			if err := b.Commit(repo); err != nil {
				tb.Fatalf("harness: base commit: %v", err)
			}
		}
	}
	bugId := string(b.Id())
	localRef := "refs/bugs/" + bugId
	createdRefs = append(createdRefs, localRef)
	d, err := ondisk.ReadDAG(repo, localRef)
	if err != nil {
		tb.Fatalf("harness: %v", err)
	}
	base := fromDAG(d)
	base.RefName = bugId
	var baseCommits []string
	{
		// commits in the same order as base.Packs
		type hc struct {
			h string
			e uint64
		}
		var cs []hc
		for h, p := range d.Packs {
			cs = append(cs, hc{h, p.EditClock})
		}
		sort.Slice(cs, func(i, j int) bool {
			if cs[i].e != cs[j].e {
				return cs[i].e < cs[j].e
			}
			return cs[i].h < cs[j].h
		})
		for _, x := range cs {
			baseCommits = append(baseCommits, x.h)
		}
	}

	// ---- apply the operator
	mut := base.clone()
	j := c.J % len(mut.Packs)
	if !op.Apply(mut, j, c.I, env) {
		rep.Case("n/a", false, []string{"operator-not-applicable"}, nil)
		return
	}
	// foreign parent marker
	for pi := range mut.Packs {
		for x, par := range mut.Packs[pi].Parents {
			if par == -1 {
				mut.Packs[pi].Parents = mut.Packs[pi].Parents[:x]
				mut.Packs[pi].Parents = append(mut.Packs[pi].Parents, len(mut.Packs))
			}
		}
	}
	// first pack that differs: earlier commits are shared with the valid history
	from := 0
	for from < len(base.Packs) && from < len(mut.Packs) && packEqual(base.Packs[from], mut.Packs[from]) {
		from++
	}
	sameData := from == len(base.Packs) && len(mut.Packs) == len(base.Packs) && mut.HeadKind == base.HeadKind
	if sameData && mut.RefName == base.RefName {
		rep.Case("n/a", false, []string{"operator-changed-nothing"}, nil)
		return
	}
	var head string
	if strings.HasPrefix(c.Operator, "commit/foreign") {
		// graft: write with an extra pseudo-commit index pointing at the foreign head
		existing := append(append([]string(nil), baseCommits...), "")
		_ = existing
		tmp := mut.clone()
		lastIdx := len(tmp.Packs) - 1
		tmp.Packs[lastIdx].Parents = tmp.Packs[lastIdx].Parents[:len(tmp.Packs[lastIdx].Parents)-1]
		// write everything but the head normally, then the head by hand with the foreign parent
		headPack := tmp.Packs[lastIdx]
		tmp.Packs = tmp.Packs[:lastIdx]
		var commits []string
		if len(tmp.Packs) > 0 {
			_, commits, err = tmp.write(repo, baseCommits, min(from, len(tmp.Packs)))
			if err != nil {
				tb.Fatalf("harness: %v", err)
			}
		}
		entries := append([]repository.TreeEntry(nil), headPack.Entries...)
		for n := range entries {
			if entries[n].Name == "ops" {
				bh, _ := repo.StoreData(headPack.OpsBlob)
				entries[n].Hash = bh
			}
		}
		th, _ := repo.StoreTree(entries)
		var parents []repository.Hash
		for _, par := range headPack.Parents {
			parents = append(parents, repository.Hash(commits[par]))
		}
		parents = append(parents, repository.Hash(env.foreignHead))
		ch, err := repo.StoreCommit(th, parents...)
		if err != nil {
			tb.Fatalf("harness: %v", err)
		}
		head = string(ch)
	} else {
		head, _, err = mut.write(repo, baseCommits, min(from, len(mut.Packs)))
		if err != nil {
			tb.Fatalf("harness: write mutated history: %v", err)
		}
	}

	posClass := "root"
	if j > 0 && j == len(base.Packs)-1 {
		posClass = "head"
	} else if j > 0 {
		posClass = "middle"
	}
	verdict := "may"
	if op.Must {
		verdict = "must-reject"
	}
	rep.Case(fmt.Sprintf("%s|%s|%s|%s", c.Operator, posClass, c.Situation, c.Layer), c.Situation != "absent",
		[]string{"operator:" + c.Operator, "situation:" + c.Situation, "layer:" + c.Layer, "position:" + posClass, "expect:" + verdict}, c)

	clocks0 := map[string]uint64{}
	if cl, err := repo.AllClocks(); err == nil {
		for n, x := range cl {
			clocks0[n] = uint64(x.Time())
		}
	}
	// ---- stage 1: the same data stored under a local ref must be reported as an error when read, never crash
	validName := entity.Id(mut.RefName).Validate() == nil
	if validName {
		probeRef := "refs/bugs/" + mut.RefName
		hadLocal := probeRef == localRef
		if err := repo.UpdateRef(probeRef, repository.Hash(head)); err != nil {
			tb.Fatalf("harness: %v", err)
		}
		if !hadLocal {
			createdRefs = append(createdRefs, probeRef)
		}
		got, rerr, panicked := safeRead(repo, mut.RefName)
		// restore
		if hadLocal {
			_ = repo.UpdateRef(localRef, repository.Hash(baseCommits[len(baseCommits)-1]))
		} else {
			_ = repo.RemoveRef(probeRef)
		}
		if panicked != "" {
			if fail("local-read-panics/"+opFamily(c.Operator)+"/"+Normalize(panicked), "bug.Read panicked: "+panicked) {
				return
			}
		}
		if op.Must && rerr == nil && got != nil && opFamily(c.Operator) != "ref" {
			if fail("corrupt-local-data-read-without-error/"+c.Operator, fmt.Sprintf("bug.Read + Validate accepted the data; operations: %v", opIdsOf(got))) {
				return
			}
		}
	}

	if strings.HasPrefix(c.Operator, "commit/clocks-far-ahead") {
		if cl, err := repo.AllClocks(); err == nil {
			for n, x := range cl {
				if v, ok := clocks0[n]; ok && uint64(x.Time()) > v {
					if fail("clocks-moved-by-refused-data/local-read", fmt.Sprintf("%s: %d -> %d after reading a history that was refused", n, v, x.Time())) {
						return
					}
				}
			}
		}
	}

	// ---- local situation
	headCommit := baseCommits[len(baseCommits)-1]
	appendLocal := func() {
		lb, err := bug.Read(repo, entity.Id(bugId))
		if err != nil {
			tb.Fatalf("harness: %v", err)
		}
		if _, _, err := bug.AddComment(lb, env.authors[0], 3000, "local work", nil, nil); err != nil {
			tb.Fatalf("harness: %v", err)
		}
		if err := lb.Commit(repo); err != nil {
			tb.Fatalf("harness: %v", err)
		}
	}
	switch c.Situation {
	case "absent":
		_ = repo.RemoveRef(localRef)
	case "equal":
	case "ahead":
		appendLocal()
	case "behind":
		if len(baseCommits) >= 2 {
			_ = repo.UpdateRef(localRef, repository.Hash(baseCommits[len(baseCommits)-2]))
		}
	case "diverged":
		if len(baseCommits) >= 2 {
			_ = repo.UpdateRef(localRef, repository.Hash(baseCommits[len(baseCommits)-2]))
		}
		appendLocal()
	}
	_ = headCommit
	remoteRef := "refs/remotes/origin/bugs/" + mut.RefName
	if err := repo.UpdateRef(remoteRef, repository.Hash(head)); err != nil {
		tb.Fatalf("harness: %v", err)
	}
	createdRefs = append(createdRefs, remoteRef, "refs/bugs/"+mut.RefName)

	if c.Seed%3 == 1 && c.Situation != "absent" {
		// the user's git has packed the references (git gc) since the local entity was written
		if res := RunGit(env.dir, "pack-refs", "--all", "--prune"); res.Code != 0 {
			tb.Fatalf("harness: pack-refs: %s", res.Out)
		}
		rep.Class("local-references-packed-before-the-merge", 1)
	}
	// ---- stage 2: merge
	beforeRefs := allRefsOf(repo)
	var beforeOps []string
	if c.Situation != "absent" {
		lb, err := bug.Read(repo, entity.Id(bugId))
		if err != nil {
			tb.Fatalf("harness: local bug unreadable before the merge: %v", err)
		}
		beforeOps = opIdsOf(lb)
	}
	clocksBefore := map[string]uint64{}
	if cl, err := repo.AllClocks(); err == nil {
		for n, x := range cl {
			clocksBefore[n] = uint64(x.Time())
		}
	}
	var results []entity.MergeResult
	var rc *cache.RepoCache
	// a third of the cache-level merges run in a repository where no user identity is selected (a mirror, a fresh
	// clone before `user adopt`): nobody can author a merge commit there; the pull may refuse as a whole, it may not crash
	noUser := c.Layer == "cache" && c.Seed%3 == 0
	if noUser {
		_ = repo.LocalConfig().RemoveAll("git-bug.identity")
		defer func() { _ = identity.SetUserIdentity(repo, env.authors[0].(*identity.Identity)) }()
		rep.Class("merged-without-a-selected-user-identity", 1)
	}
	if c.Layer == "cache" {
		_ = os.RemoveAll(filepath.Join(env.dir, ".git", "git-bug", "cache"))
		rc, err = cache.NewRepoCacheNoEvents(repo)
		if err != nil {
			tb.Fatalf("harness: cache: %v", err)
		}
		for res := range rc.MergeAll("origin") {
			results = append(results, res)
		}
	} else {
		for res := range bug.MergeAll(repo, Resolvers(repo), "origin", env.authors[0]) {
			results = append(results, res)
		}
	}
	closeCache := func() {
		if rc != nil {
			_ = rc.Close()
			rc = nil
		}
	}
	defer closeCache()
	afterRefs := allRefsOf(repo)
	var mine *entity.MergeResult
	for n := range results {
		if string(results[n].Id) == mut.RefName {
			mine = &results[n]
		}
	}
	refused := mine != nil && (mine.Err != nil || mine.Status == entity.MergeStatusInvalid)
	accepted := mine != nil && mine.Err == nil && (mine.Status == entity.MergeStatusNew || mine.Status == entity.MergeStatusUpdated)
	describe := "no report"
	if mine != nil {
		describe = fmt.Sprintf("status=%v err=%v reason=%q", mine.Status, mine.Err, mine.Reason)
	}
	if noUser && mine == nil {
		for _, r := range results {
			if r.Err != nil {
				refused = true // the merge of that kind of entity was refused as a whole
				describe = "whole merge refused: " + r.Err.Error()
			}
		}
	}
	if op.Must {
		if !refused {
			if fail("hostile-data-not-reported-invalid/"+c.Operator, "merge report: "+describe) {
				return
			}
		}
	}
	if refused || op.Must {
		if beforeRefs != afterRefs {
			if fail("refs-changed-by-refused-data/"+opFamily(c.Operator), fmt.Sprintf("merge report: %s\nbefore:\n%s\nafter:\n%s", describe, beforeRefs, afterRefs)) {
				return
			}
		}
	}
	if c.Situation != "absent" {
		lb, rerr, panicked := safeRead(repo, bugId)
		if panicked != "" || rerr != nil {
			if fail("local-entity-broken-by-merge/"+opFamily(c.Operator), fmt.Sprintf("report: %s; local read: %v %s", describe, rerr, panicked)) {
				return
			}
		}
		if lb != nil {
			post := opIdsOf(lb)
			ps := setOf(post)
			for _, x := range beforeOps {
				if !ps[x] {
					if fail("local-operation-lost-by-merge/"+opFamily(c.Operator), fmt.Sprintf("report: %s\nbefore %v\nafter %v", describe, beforeOps, post)) {
						return
					}
					break
				}
			}
			if refused && strings.Join(post, ",") != strings.Join(beforeOps, ",") {
				if fail("local-entity-changed-by-refused-data", describe) {
					return
				}
			}
		}
	}
	if accepted {
		got, rerr, panicked := safeRead(repo, mut.RefName)
		if panicked != "" || rerr != nil || got == nil {
			if fail("accepted-data-is-not-a-valid-entity/"+c.Operator, fmt.Sprintf("report: %s; read: %v %s", describe, rerr, panicked)) {
				return
			}
		}
	}
	if cl, err := repo.AllClocks(); err == nil && strings.HasPrefix(c.Operator, "commit/clocks-far-ahead") {
		for n, v := range clocksBefore {
			if x, ok := cl[n]; ok && uint64(x.Time()) > v+2 {
				if fail("clocks-moved-by-refused-data/merge", fmt.Sprintf("%s: %d -> %d after a merge that refused the remote history", n, v, x.Time())) {
					return
				}
			}
		}
	}
	if cl, err := repo.AllClocks(); err == nil {
		for n, v := range clocksBefore {
			if x, ok := cl[n]; ok && uint64(x.Time()) < v {
				if fail("clock-went-backwards", fmt.Sprintf("%s: %d -> %d", n, v, x.Time())) {
					return
				}
			}
		}
	}
	if rc != nil {
		// what the cache serves for the local bug is still what git holds
		if c.Situation != "absent" {
			bc, err := rc.Bugs().Resolve(entity.Id(bugId))
			if err != nil {
				if fail("cache-lost-local-bug/"+opFamily(c.Operator), err.Error()) {
					return
				}
			} else if refused {
				var ids []string
				for _, o := range bc.Snapshot().Operations {
					ids = append(ids, string(o.Id()))
				}
				if strings.Join(ids, ",") != strings.Join(beforeOps, ",") {
					if fail("cache-changed-by-refused-data", fmt.Sprintf("before %v cache %v", beforeOps, ids)) {
						return
					}
				}
			}
		}
	}
}

func packEqual(a, b hPack) bool {
	if len(a.Entries) != len(b.Entries) || len(a.Parents) != len(b.Parents) || string(a.OpsBlob) != string(b.OpsBlob) || a.OpsToObj != b.OpsToObj {
		return false
	}
	for i := range a.Entries {
		if a.Entries[i].Name != b.Entries[i].Name || a.Entries[i].ObjectType != b.Entries[i].ObjectType {
			return false
		}
		if a.Entries[i].Name != "ops" && a.Entries[i].Hash != b.Entries[i].Hash {
			return false
		}
	}
	for i := range a.Parents {
		if a.Parents[i] != b.Parents[i] {
			return false
		}
	}
	return true
}

func opFamily(name string) string {
	if i := strings.Index(name, "/"); i > 0 {
		return name[:i]
	}
	return name
}

func kindOfType(t int) string {
	switch t {
	case 1:
		return "create"
	case 2:
		return "title"
	case 3:
		return "comment"
	case 4:
		return "status"
	case 5:
		return "label"
	case 6:
		return "edit"
	case 7:
		return "noop"
	case 8:
		return "meta"
	}
	return "?"
}

func TestC07HostileBugs(t *testing.T) {
	Drive(t, "C07", genC07, runC07)
}
