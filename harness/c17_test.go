package harness

import (
	"bytes"
	"encoding/json"
	"fmt"
	"image"
	"image/color"
	"image/png"
	"mime/multipart"
	"net/http"
	"net/http/httptest"
	"os"
	"path/filepath"
	"sort"
	"strings"
	"sync"
	"testing"
	"unicode"

	"github.com/gorilla/mux"
	"pgregory.net/rapid"

	"github.com/MichaelMure/git-bug/api/auth"
	"github.com/MichaelMure/git-bug/api/graphql"
	httpapi "github.com/MichaelMure/git-bug/api/http"
	"github.com/MichaelMure/git-bug/cache"
	"github.com/MichaelMure/git-bug/entities/bug"
	"github.com/MichaelMure/git-bug/entities/identity"
	"github.com/MichaelMure/git-bug/entity"
	"github.com/MichaelMure/git-bug/repository"

	"verif/harness/internal/ondisk"
	"verif/harness/internal/refmodel"
	"verif/harness/internal/report"
)

// C17: without an authenticated user the API cannot change anything; with one, mutations record exactly the request.

type gqlInputField struct {
	Name     string
	TypeName string // innermost named type
	List     bool
	NonNull  bool
}

type gqlMutation struct {
	Name       string
	ArgName    string
	InputType  string
	Fields     []gqlInputField
	PayloadHas map[string]bool
}

type c17Env struct {
	dir       string
	repo      *repository.GoGitRepo
	mrc       *cache.MultiRepoCache
	rc        *cache.RepoCache
	anon      http.Handler // no user attached: the web UI in read-only mode
	authed    http.Handler
	userId    string
	mutations []gqlMutation
	blobs     []string // hashes of stored blobs usable as files
}

var (
	c17Once sync.Once
	c17E    *c17Env
)

func gqlDo(h http.Handler, query string, vars map[string]any) (status int, body map[string]any, raw string) {
	payload, _ := json.Marshal(map[string]any{"query": query, "variables": vars})
	req := httptest.NewRequest("POST", "/graphql", bytes.NewReader(payload))
	req.Header.Set("Content-Type", "application/json")
	rec := httptest.NewRecorder()
	h.ServeHTTP(rec, req)
	raw = rec.Body.String()
	_ = json.Unmarshal(rec.Body.Bytes(), &body)
	return rec.Code, body, raw
}

func innerType(t map[string]any) (name string, list, nonNull bool) {
	first := true
	for t != nil {
		kind, _ := t["kind"].(string)
		switch kind {
		case "NON_NULL":
			if first {
				nonNull = true
			}
		case "LIST":
			list = true
		default:
			name, _ = t["name"].(string)
			return
		}
		first = false
		t, _ = t["ofType"].(map[string]any)
	}
	return
}

const c17Introspection = `{ __schema { mutationType { fields { name args { name type { kind name ofType { kind name ofType { kind name } } } } type { kind name ofType { kind name } } } }
 types { name kind inputFields { name type { kind name ofType { kind name ofType { kind name ofType { kind name } } } } } fields { name } } } }`

func getC17Env(tb report.TB) *c17Env {
	c17Once.Do(func() {
		dir := mkdirTemp("c17-")
		repo, err := repository.InitGoGitRepo(dir, "git-bug")
		if err != nil {
			panic(err)
		}
		env := &c17Env{dir: dir, repo: repo}
		uid, _, _, err := ondisk.WriteIdentity(repo, "", []ondisk.IdentityVersion{{Version: 2, UnixTime: 1600000000, Name: "api user", Nonce: NonceFor(17, 1)}})
		if err != nil {
			panic(err)
		}
		me, err := identity.ReadLocal(repo, entity.Id(uid))
		if err != nil {
			panic(err)
		}
		env.userId = uid
		// note: deliberately NO user identity in the git config: only the request context may authenticate
		for i := 0; i < 3; i++ {
			b, _, err := bug.Create(me, int64(1000+i), fmt.Sprintf("api bug %d", i), "first", nil, nil)
			if err != nil {
				panic(err)
			}
			_, _, _ = bug.AddComment(b, me, int64(1100+i), "a comment", nil, nil)
			if i == 2 {
				// a long thread: some of its comments share the first characters of their ids
				for k := 0; k < 70; k++ {
					_, _, _ = bug.AddComment(b, me, int64(1200+k), fmt.Sprintf("reply %d in a long thread", k), nil, nil)
				}
			}
			if err := b.Commit(repo); err != nil {
				panic(err)
			}
		}
		for i := 0; i < 2; i++ {
			h, err := repo.StoreData([]byte(fmt.Sprintf("attachment %d", i)))
			if err != nil {
				panic(err)
			}
			env.blobs = append(env.blobs, string(h))
		}
		env.mrc = cache.NewMultiRepoCache()
		rc, events := env.mrc.RegisterDefaultRepository(repo)
		for ev := range events {
			if ev.Err != nil {
				panic(ev.Err)
			}
		}
		env.rc = rc
		gh := graphql.NewHandler(env.mrc, nil)
		router := func(mw func(http.Handler) http.Handler) http.Handler {
			r := mux.NewRouter()
			if mw != nil {
				r.Use(mw)
			}
			r.Path("/graphql").Handler(gh)
			r.Path("/upload/{repo}").Methods("POST").Handler(httpapi.NewGitUploadFileHandler(env.mrc))
			return r
		}
		env.anon = router(nil)
		env.authed = router(auth.Middleware(entity.Id(uid)))
		// ---- discover the mutations served
		_, body, raw := gqlDo(env.anon, c17Introspection, nil)
		data, _ := body["data"].(map[string]any)
		schema, _ := data["__schema"].(map[string]any)
		if schema == nil {
			panic("introspection failed: " + raw)
		}
		types := map[string]map[string]any{}
		for _, t := range schema["types"].([]any) {
			tm := t.(map[string]any)
			types[tm["name"].(string)] = tm
		}
		mt, _ := schema["mutationType"].(map[string]any)
		for _, f := range mt["fields"].([]any) {
			fm := f.(map[string]any)
			m := gqlMutation{Name: fm["name"].(string), PayloadHas: map[string]bool{}}
			args, _ := fm["args"].([]any)
			if len(args) == 1 {
				am := args[0].(map[string]any)
				m.ArgName = am["name"].(string)
				m.InputType, _, _ = innerType(am["type"].(map[string]any))
				if it := types[m.InputType]; it != nil {
					for _, inf := range it["inputFields"].([]any) {
						im := inf.(map[string]any)
						n, l, nn := innerType(im["type"].(map[string]any))
						m.Fields = append(m.Fields, gqlInputField{Name: im["name"].(string), TypeName: n, List: l, NonNull: nn})
					}
				}
			}
			pn, _, _ := innerType(fm["type"].(map[string]any))
			if pt := types[pn]; pt != nil {
				if fs, ok := pt["fields"].([]any); ok {
					for _, pf := range fs {
						m.PayloadHas[pf.(map[string]any)["name"].(string)] = true
					}
				}
			}
			env.mutations = append(env.mutations, m)
		}
		sort.Slice(env.mutations, func(i, j int) bool { return env.mutations[i].Name < env.mutations[j].Name })
		c17E = env
	})
	return c17E
}

type c17Case struct {
	Mutation string            `json:"mutation"`
	Input    map[string]any    `json:"input"`
	Classes  map[string]string `json:"classes"` // per field: which class of value was generated
	Auth     bool              `json:"auth"`
	Upload   string            `json:"upload,omitempty"` // "" | png | text | empty | gif
	Packed   bool              `json:"packed,omitempty"` // stock git packs every reference of the served repository just before the request (what `git gc` does)
}

func genC17(env *c17Env) func(t *rapid.T) c17Case {
	return func(t *rapid.T) c17Case {
		c := c17Case{Auth: rapid.Bool().Draw(t, "auth"), Input: map[string]any{}, Classes: map[string]string{}}
		c.Packed = rapid.IntRange(0, 7).Draw(t, "packed") == 0
		if rapid.IntRange(0, 9).Draw(t, "isUpload") == 0 {
			c.Upload = rapid.SampledFrom([]string{"png", "png", "text", "empty", "gif"}).Draw(t, "upload")
			return c
		}
		m := env.mutations[rapid.IntRange(0, len(env.mutations)-1).Draw(t, "mutation")]
		c.Mutation = m.Name
		bugIds := sortedIds(env.rc.Bugs().AllIds())
		for _, f := range m.Fields {
			required := f.NonNull
			if !required && rapid.IntRange(0, 2).Draw(t, "omit-"+f.Name) == 0 {
				continue
			}
			var v any
			cls := "generated"
			switch {
			case f.Name == "clientMutationId":
				v = "cm-" + fmt.Sprint(rapid.IntRange(0, 99).Draw(t, "cmid"))
			case f.Name == "repoRef":
				v = rapid.SampledFrom([]string{"__default", "__default", "nope"}).Draw(t, "repoRef")
				cls = v.(string)
			case f.Name == "prefix":
				id := bugIds[rapid.IntRange(0, len(bugIds)-1).Draw(t, "bug")]
				switch rapid.SampledFrom([]string{"full", "unique", "unique", "empty", "unknown"}).Draw(t, "prefixClass") {
				case "full":
					v, cls = id, "valid"
				case "unique":
					v, cls = uniquePrefix(id, without(bugIds, id)), "valid"
				case "empty":
					v, cls = "", "ambiguous"
					if len(bugIds) == 1 {
						cls = "valid"
					}
				default:
					v, cls = "zzzzzzz", "unknown"
				}
			case f.Name == "targetPrefix":
				id := bugIds[rapid.IntRange(0, len(bugIds)-1).Draw(t, "bug")]
				comments := commentIdsOf(env, id)
				target := comments[rapid.IntRange(0, len(comments)-1).Draw(t, "comment")]
				switch rapid.SampledFrom([]string{"full", "full", "short", "unknown", "ambiguous"}).Draw(t, "targetClass") {
				case "ambiguous":
					if amb := ambiguousTargets(env); len(amb) > 0 {
						v, cls = amb[rapid.IntRange(0, len(amb)-1).Draw(t, "amb")], "ambiguous"
					} else {
						v, cls = target, "valid"
					}
				case "full":
					v, cls = target, "valid"
				case "short":
					v, cls = target[:1], "maybe"
				default:
					v, cls = strings.Repeat("z", 20), "unknown"
				}
			case f.TypeName == "Hash" && f.List:
				switch rapid.SampledFrom([]string{"valid", "valid", "empty", "invalid"}).Draw(t, "filesClass") {
				case "valid":
					v, cls = []any{env.blobs[rapid.IntRange(0, len(env.blobs)-1).Draw(t, "blob")]}, "valid"
				case "empty":
					v, cls = []any{}, "valid-empty"
				default:
					v, cls = []any{"not-a-hash"}, "invalid"
				}
			case f.TypeName == "String" && f.List:
				ls := rapid.SliceOfN(rapid.SampledFrom([]string{"bug", "ui", " padded ", "wontfix", "", "ctrl\x07char"}), 0, 3).Draw(t, "labels-"+f.Name)
				arr := make([]any, len(ls))
				for i := range ls {
					arr[i] = ls[i]
				}
				v = arr
			case f.Name == "title":
				v = rapid.OneOf(rapid.SampledFrom([]string{"A new title", "  padded title  ", "", "   ", "with\x07bell", "two\nlines"}), GenTitle()).Draw(t, "title")
			case f.TypeName == "String":
				v = rapid.OneOf(rapid.SampledFrom([]string{"hello", "  padded\r\nmessage  ", "", "ctrl\x00\x07 chars", "tab\tkept"}), GenMessage()).Draw(t, "str-"+f.Name)
			default:
				v = "x"
				cls = "unknown-type:" + f.TypeName
			}
			c.Input[f.Name] = v
			c.Classes[f.Name] = cls
		}
		return c
	}
}

func without(ids []string, id string) []string {
	var out []string
	for _, x := range ids {
		if x != id {
			out = append(out, x)
		}
	}
	return out
}

// ambiguousTargets: combined-id prefixes that designate two or more comments, all of the same bug (so that the bug
// part of the prefix is not what makes them ambiguous).
func ambiguousTargets(env *c17Env) []string {
	type cm struct{ bug, combined string }
	var all []cm
	for _, id := range sortedIds(env.rc.Bugs().AllIds()) {
		for _, c := range commentIdsOf(env, id) {
			all = append(all, cm{id, c})
		}
	}
	var out []string
	for l := 2; l <= 10 && len(out) < 4; l++ {
		groups := map[string][]cm{}
		for _, c := range all {
			groups[c.combined[:l]] = append(groups[c.combined[:l]], c)
		}
		var keys []string
		for k := range groups {
			keys = append(keys, k)
		}
		sort.Strings(keys)
		for _, k := range keys {
			g := groups[k]
			same := len(g) >= 2
			for _, c := range g {
				same = same && c.bug == g[0].bug
			}
			if same {
				out = append(out, k)
			}
		}
	}
	return out
}

func commentIdsOf(env *c17Env, bugId string) []string {
	bc, err := env.rc.Bugs().Resolve(entity.Id(bugId))
	if err != nil {
		return []string{strings.Repeat("0", 64)}
	}
	var out []string
	for _, c := range bc.Snapshot().Comments {
		out = append(out, string(c.CombinedId()))
	}
	return out
}

// documented clean-up of texts coming through the API
func refCleanup(s string) string {
	s = strings.ReplaceAll(s, "\r\n", "\n")
	var sb strings.Builder
	for _, r := range s {
		if r == '\r' || r == '\n' || r == '\t' || !unicode.IsControl(r) {
			sb.WriteRune(r)
		}
	}
	return strings.TrimSpace(sb.String())
}

func refCleanupOneLine(s string) string {
	var sb strings.Builder
	for _, r := range s {
		if !unicode.IsControl(r) {
			sb.WriteRune(r)
		}
	}
	return strings.TrimSpace(sb.String())
}

type repoFingerprint struct {
	refs    string
	objects int
	view    string
	ops     map[string][]refmodel.ROp
}

func (env *c17Env) fingerprint() repoFingerprint {
	fp := repoFingerprint{refs: allRefsOf(env.repo), ops: map[string][]refmodel.ROp{}}
	_ = filepath.Walk(filepath.Join(env.dir, ".git", "objects"), func(p string, info os.FileInfo, err error) error {
		if err == nil && !info.IsDir() {
			fp.objects++
		}
		return nil
	})
	v, _ := ViewOf(env.rc, nil, nil)
	keys := make([]string, 0, len(v))
	for k := range v {
		keys = append(keys, k)
	}
	sort.Strings(keys)
	var sb strings.Builder
	for _, k := range keys {
		sb.WriteString(k + "=" + v[k] + "\n")
	}
	fp.view = sb.String()
	for _, id := range localBugIds(env.repo) {
		if d, err := ondisk.ReadDAG(env.repo, "refs/bugs/"+id); err == nil {
			fp.ops[id], _ = d.ROps()
		}
	}
	return fp
}

func pngBytes() []byte {
	img := image.NewRGBA(image.Rect(0, 0, 2, 2))
	img.Set(0, 0, color.RGBA{255, 0, 0, 255})
	var buf bytes.Buffer
	_ = png.Encode(&buf, img)
	return buf.Bytes()
}

func runC17(tb report.TB, rep *report.Reporter, c c17Case) {
	env := getC17Env(tb)
	h := env.anon
	mode := "anonymous"
	if c.Auth {
		h, mode = env.authed, "authenticated"
	}
	if c.Packed {
		if res := RunGit(env.dir, "pack-refs", "--all", "--prune"); res.Code != 0 {
			tb.Fatalf("harness: pack-refs: %s", res.Out)
		}
		rep.Class("references-packed-before-the-request", 1)
	}
	before := env.fingerprint()
	if c.Upload != "" {
		runC17Upload(tb, rep, env, c, h, mode, before)
		return
	}
	var m *gqlMutation
	for i := range env.mutations {
		if env.mutations[i].Name == c.Mutation {
			m = &env.mutations[i]
		}
	}
	if m == nil {
		tb.Fatalf("harness: the served schema has no mutation %q", c.Mutation)
	}
	sel := "clientMutationId"
	if m.PayloadHas["bug"] {
		sel += " bug { id title status }"
	}
	query := fmt.Sprintf("mutation M($input: %s!) { %s(%s: $input) { %s } }", m.InputType, m.Name, m.ArgName, sel)
	status, body, raw := gqlDo(h, query, map[string]any{"input": c.Input})
	after := env.fingerprint()
	errs, _ := body["errors"].([]any)
	data, _ := body["data"].(map[string]any)
	failed := len(errs) > 0
	errText := ""
	if failed {
		b, _ := json.Marshal(errs)
		errText = string(b)
	}
	var argClasses []string
	for k, v := range c.Classes {
		if v != "generated" {
			argClasses = append(argClasses, k+"="+v)
		}
	}
	sort.Strings(argClasses)
	validTarget := (c.Classes["prefix"] == "" || c.Classes["prefix"] == "valid") && (c.Classes["targetPrefix"] == "" || c.Classes["targetPrefix"] == "valid") && c.Classes["repoRef"] != "nope"
	rep.Case(fmt.Sprintf("%s|%s|%s", c.Mutation, mode, strings.Join(argClasses, ",")), validTarget && c.Mutation != "newBug",
		[]string{"mutation:" + c.Mutation, "mode:" + mode, fmt.Sprintf("failed:%v", failed)}, c)
	fail := func(sig, detail string) bool {
		return rep.Fail(tb, "C17/"+mode+"/"+c.Mutation+"/"+sig, fmt.Sprintf("request input %v\nHTTP %d, response %s\n%s", c.Input, status, truncate(raw, 600), detail), c)
	}
	unchanged := func() string {
		switch {
		case before.refs != after.refs:
			return "refs"
		case before.objects != after.objects:
			return fmt.Sprintf("object database (%d -> %d files)", before.objects, after.objects)
		case before.view != after.view:
			return "what the cache serves"
		}
		return ""
	}
	if !c.Auth {
		if !failed || data != nil {
			if fail("mutation-not-refused", "no user is attached to the request") {
				return
			}
		}
		if what := unchanged(); what != "" {
			if fail("refused-mutation-changed-the-repository", "changed: "+what) {
				return
			}
		}
		// queries keep working
		// every field of the Repository type that needs no argument of ours, and what hangs below the lists
		for _, q := range []string{
			`{ repository { allBugs(first: 1) { totalCount } } }`,
			`{ repository { name userIdentity { id name } } }`,
			`{ repository { allBugs(first: 3) { totalCount nodes { id humanId title status labels { name } author { id name } comments(first: 2) { totalCount nodes { message author { name } } } timeline(first: 2) { totalCount } operations(first: 2) { totalCount } actors(first: 2) { totalCount } participants(first: 2) { totalCount } } pageInfo { hasNextPage hasPreviousPage } } } }`,
			`{ repository { allIdentities(first: 3) { totalCount nodes { id humanId name email login displayName isProtected } } validLabels(first: 3) { totalCount nodes { name } } } }`,
		} {
			_, qb, qraw := gqlDo(h, q, nil)
			if qe, _ := qb["errors"].([]any); len(qe) > 0 || qb["data"] == nil {
				if fail("read-query-broken", "query "+q+"\nanswer "+truncate(qraw, 600)) {
					return
				}
			}
		}
		return
	}
	// ---- authenticated
	if failed {
		if what := unchanged(); what != "" {
			if fail("failed-mutation-changed-the-repository", "changed: "+what) {
				return
			}
		}
		// was the request valid? then it must not fail
		if reason := c17InvalidReason(env, c, before); reason == "" {
			if fail("valid-request-fails/"+c17FileClass(c), "the request is valid (unique target, non-blank texts, stored file hashes) but answered with an error: "+errText) {
				return
			}
		}
		return
	}
	if c.Classes["targetPrefix"] == "ambiguous" {
		if fail("ambiguous-target-accepted", fmt.Sprintf("the target %q designates several comments of one bug; the mutation was accepted", c.Input["targetPrefix"])) {
			return
		}
	}
	// succeeded: exactly the requested change, by that user
	var changed []string
	var newOps []refmodel.ROp
	for id, ops := range after.ops {
		if len(ops) != len(before.ops[id]) {
			changed = append(changed, id)
			newOps = ops[len(before.ops[id]):]
		}
	}
	if len(changed) != 1 {
		if fail("success-without-exactly-one-changed-bug", fmt.Sprintf("bugs with new operations: %v", changed)) {
			return
		}
	}
	for _, op := range newOps {
		if op.Author != env.userId {
			if fail("operation-not-authored-by-the-user", fmt.Sprintf("author %s, authenticated user %s", op.Author, env.userId)) {
				return
			}
		}
	}
	str := func(k string) string { s, _ := c.Input[k].(string); return s }
	files := func() []string {
		var out []string
		if l, ok := c.Input["files"].([]any); ok {
			for _, x := range l {
				out = append(out, x.(string))
			}
		}
		return out
	}
	kinds := func() string {
		var ks []string
		for _, o := range newOps {
			ks = append(ks, o.Kind)
		}
		return strings.Join(ks, ",")
	}
	wrong := func(what string, want, got any) bool {
		return fail("recorded-change-differs/"+what, fmt.Sprintf("%s: requested %q, recorded %q (new operations: %s)", what, want, got, kinds()))
	}
	sameFiles := func(a, b []string) bool { return strings.Join(a, ",") == strings.Join(b, ",") }
	switch c.Mutation {
	case "newBug":
		if kinds() != "create" {
			wrong("operations", "create", kinds())
			return
		}
		if newOps[0].Title != refCleanupOneLine(str("title")) {
			wrong("title", refCleanupOneLine(str("title")), newOps[0].Title)
			return
		}
		if newOps[0].Message != refCleanup(str("message")) {
			wrong("message", refCleanup(str("message")), newOps[0].Message)
			return
		}
		if !sameFiles(newOps[0].Files, files()) {
			wrong("files", files(), newOps[0].Files)
			return
		}
	case "addComment", "addCommentAndClose", "addCommentAndReopen":
		want := map[string]string{"addComment": "comment", "addCommentAndClose": "comment,status", "addCommentAndReopen": "comment,status"}[c.Mutation]
		if kinds() != want {
			wrong("operations", want, kinds())
			return
		}
		if newOps[0].Message != refCleanup(str("message")) {
			wrong("message", refCleanup(str("message")), newOps[0].Message)
			return
		}
		if !sameFiles(newOps[0].Files, files()) {
			wrong("files", files(), newOps[0].Files)
			return
		}
		if c.Mutation == "addCommentAndClose" && newOps[1].Status != 2 || c.Mutation == "addCommentAndReopen" && newOps[1].Status != 1 {
			wrong("status", c.Mutation, newOps[1].Status)
			return
		}
	case "editComment":
		if kinds() != "edit" {
			wrong("operations", "edit", kinds())
			return
		}
		if newOps[0].Message != refCleanup(str("message")) {
			wrong("message", refCleanup(str("message")), newOps[0].Message)
			return
		}
		if _, given := c.Input["files"]; given && !sameFiles(newOps[0].Files, files()) {
			if wrong("files", files(), newOps[0].Files) {
				return
			}
		}
	case "openBug", "closeBug":
		if kinds() != "status" || (c.Mutation == "openBug") != (newOps[0].Status == 1) {
			wrong("status", c.Mutation, kinds())
			return
		}
	case "setTitle":
		if kinds() != "title" || newOps[0].Title != refCleanupOneLine(str("title")) {
			wrong("title", refCleanupOneLine(str("title")), kinds())
			return
		}
	case "changeLabels":
		if kinds() != "label" {
			wrong("operations", "label", kinds())
			return
		}
		req := map[string]bool{}
		for _, k := range []string{"added", "Removed", "removed"} {
			if l, ok := c.Input[k].([]any); ok {
				for _, x := range l {
					req[k[:1]+refCleanupOneLine(x.(string))] = true
				}
			}
		}
		for _, l := range newOps[0].Added {
			if !req["a"+l] {
				wrong("added-label", "one of the requested", l)
				return
			}
		}
		for _, l := range newOps[0].Removed {
			if !req["R"+l] && !req["r"+l] {
				wrong("removed-label", "one of the requested", l)
				return
			}
		}
	}
	// the returned bug reflects it
	if m.PayloadHas["bug"] && data != nil {
		if pl, ok := data[m.Name].(map[string]any); ok {
			if b, ok := pl["bug"].(map[string]any); ok {
				id, _ := b["id"].(string)
				if len(changed) == 1 && id != changed[0] {
					fail("returned-bug-is-another-one", id)
					return
				}
				bc, err := env.rc.Bugs().Resolve(entity.Id(id))
				if err == nil {
					snap := bc.Snapshot()
					if t, _ := b["title"].(string); t != snap.Title {
						fail("returned-bug-does-not-reflect-the-change", fmt.Sprintf("title %q vs %q", t, snap.Title))
						return
					}
					if s, _ := b["status"].(string); (s == "OPEN") != (snap.Status == 1) {
						fail("returned-bug-does-not-reflect-the-change", "status "+s)
						return
					}
				}
			}
		}
	}
}

func c17FileClass(c c17Case) string {
	if c.Classes["files"] == "valid" {
		return "with-files"
	}
	return "no-files"
}

// c17InvalidReason explains why a request may legitimately be refused ("" = it is valid).
func c17InvalidReason(env *c17Env, c c17Case, before repoFingerprint) string {
	for k, v := range c.Classes {
		if strings.HasPrefix(v, "unknown") || v == "ambiguous" || v == "invalid" || v == "nope" || v == "maybe" {
			return k + " is " + v
		}
	}
	if t, ok := c.Input["title"].(string); ok && refCleanupOneLine(t) == "" {
		return "blank title"
	}
	if _, needs := c.Input["title"]; !needs && (c.Mutation == "newBug" || c.Mutation == "setTitle") {
		return "no title"
	}
	if c.Mutation == "changeLabels" {
		return "label changes may be no-ops" // effectiveness depends on the state; not asserted
	}
	if c.Mutation == "setTitle" || c.Mutation == "openBug" || c.Mutation == "closeBug" {
		return "" // setting the same title or status again is still a valid operation
	}
	return ""
}

func truncate(s string, n int) string {
	if len(s) > n {
		return s[:n] + "…"
	}
	return s
}

func runC17Upload(tb report.TB, rep *report.Reporter, env *c17Env, c c17Case, h http.Handler, mode string, before repoFingerprint) {
	var content []byte
	switch c.Upload {
	case "png":
		content = pngBytes()
	case "gif":
		content = []byte("GIF89a\x01\x00\x01\x00\x80\x00\x00\xff\xff\xff\x00\x00\x00!\xf9\x04\x01\x00\x00\x00\x00,\x00\x00\x00\x00\x01\x00\x01\x00\x00\x02\x02D\x01\x00;")
	case "text":
		content = []byte("just some text, not an image")
	}
	var buf bytes.Buffer
	mw := multipart.NewWriter(&buf)
	fw, _ := mw.CreateFormFile("uploadfile", "f.bin")
	_, _ = fw.Write(content)
	_ = mw.Close()
	req := httptest.NewRequest("POST", "/upload/__default", &buf)
	req.Header.Set("Content-Type", mw.FormDataContentType())
	rec := httptest.NewRecorder()
	h.ServeHTTP(rec, req)
	after := env.fingerprint()
	rep.Case("upload|"+mode+"|"+c.Upload, true, []string{"upload:" + c.Upload, "mode:" + mode}, c)
	fail := func(sig, detail string) bool {
		return rep.Fail(tb, "C17/"+mode+"/upload/"+sig, fmt.Sprintf("upload of %s content: HTTP %d %s\n%s", c.Upload, rec.Code, truncate(rec.Body.String(), 300), detail), c)
	}
	if !c.Auth {
		if rec.Code != http.StatusForbidden {
			if fail("not-refused", "expected 403 without a user") {
				return
			}
		}
		if before.objects != after.objects || before.refs != after.refs {
			fail("refused-upload-changed-the-repository", fmt.Sprintf("objects %d -> %d", before.objects, after.objects))
		}
		return
	}
	image := c.Upload == "png" || c.Upload == "gif"
	if image {
		var resp struct{ Hash string }
		if rec.Code != 200 || json.Unmarshal(rec.Body.Bytes(), &resp) != nil || resp.Hash == "" {
			if fail("valid-image-refused", "") {
				return
			}
		}
		data, err := env.repo.ReadData(repository.Hash(resp.Hash))
		if err != nil || !bytes.Equal(data, content) {
			fail("stored-file-differs", fmt.Sprint(err))
		}
	} else if rec.Code == 200 {
		fail("non-image-accepted", "")
	} else if before.objects != after.objects {
		fail("refused-upload-changed-the-repository", "")
	}
}

func TestC17API(t *testing.T) {
	env := getC17Env(t)
	Drive(t, "C17", genC17(env), runC17)
}
