package harness

import (
	"fmt"
	"reflect"
	"sort"
	"strings"
	"testing"

	"pgregory.net/rapid"

	"github.com/MichaelMure/git-bug/cache"
	"github.com/MichaelMure/git-bug/entities/bug"
	"github.com/MichaelMure/git-bug/entities/identity"
	"github.com/MichaelMure/git-bug/entity"
	"github.com/MichaelMure/git-bug/repository"

	"verif/harness/internal/entropy"
	"verif/harness/internal/ondisk"
	"verif/harness/internal/refmodel"
	"verif/harness/internal/report"
)

// C10: a bug's state is the documented interpretation of its operations.

type c10Case struct {
	Seed     uint64   `json:"seed"`
	NAuthors int      `json:"n_authors"`
	NFiles   int      `json:"n_files"`
	Ops      []OpSpec `json:"ops"`
}

func genC10(t *rapid.T) c10Case {
	c := c10Case{}
	c.Seed = rapid.Uint64().Draw(t, "seed")
	c.NAuthors = rapid.IntRange(1, 3).Draw(t, "nAuthors")
	c.NFiles = rapid.IntRange(0, 4).Draw(t, "nFiles")
	maxOps := Scale(40, 400)
	n := rapid.IntRange(0, maxOps-1).Draw(t, "nOps")
	c.Ops = append(c.Ops, GenCreateSpec(c.NAuthors, c.NFiles).Draw(t, "create"))
	g := GenOpSpec(c.NAuthors, c.NFiles)
	for i := 0; i < n; i++ {
		c.Ops = append(c.Ops, g.Draw(t, "op"))
	}
	return c
}

func c10Authors(n int) []identity.Interface {
	clock := repository.NewMockRepoClock()
	var out []identity.Interface
	for i := 0; i < n; i++ {
		id, err := identity.NewIdentity(clock, fmt.Sprintf("author%d", i), fmt.Sprintf("a%d@example.org", i))
		if err != nil {
			panic(err)
		}
		out = append(out, id)
	}
	return out
}

// c10Build constructs the bug in memory from the specs whose index is in keep
// (nil = all). It returns the bug, the plain operations and the per-op target class.
func c10Build(tb report.TB, c c10Case, authors []identity.Interface, skip map[int]bool) (*bug.Bug, []refmodel.ROp, []string) {
	files := make([]repository.Hash, 0, c.NFiles)
	for i := 0; i < c.NFiles; i++ {
		files = append(files, FakeFile(i))
	}
	b := bug.NewBug()
	var rops []refmodel.ROp
	var prev []Built
	var classes []string
	for i, s := range c.Ops {
		op, r := BuildOp(s, authors, prev, files, NonceFor(c.Seed, i))
		if err := op.Validate(); err != nil {
			tb.Fatalf("harness: generator produced an operation the code refuses (%s): %v", s.Kind, err)
		}
		r.Id = string(op.Id())
		cls := s.Kind
		if s.Kind == refmodel.KEdit || s.Kind == refmodel.KMeta {
			tk := "unknown"
			for _, p := range prev {
				if p.Id == r.Target {
					tk = p.Kind
				}
			}
			cls += ">" + tk
		}
		prev = append(prev, Built{Id: r.Id, Kind: s.Kind})
		if skip[i] {
			continue
		}
		classes = append(classes, cls)
		b.Append(op)
		rops = append(rops, r)
	}
	return b, rops, classes
}

func runC10(tb report.TB, rep *report.Reporter, c c10Case) {
	entropy.Seed(c.Seed)
	defer entropy.Restore()
	authors := c10Authors(c.NAuthors)

	b, rops, classes := c10Build(tb, c, authors, nil)

	// classification
	kinds := map[string]bool{}
	hasEdit, hasRemoval, metaCollision := false, false, false
	seenMeta := map[string]map[string]bool{}
	for i, r := range rops {
		kinds[r.Kind] = true
		if strings.HasPrefix(classes[i], refmodel.KEdit+">") {
			hasEdit = true
		}
		if r.Kind == refmodel.KLabel && len(r.Removed) > 0 {
			hasRemoval = true
		}
		if r.Kind == refmodel.KMeta {
			m := seenMeta[r.Target]
			if m == nil {
				m = map[string]bool{}
				seenMeta[r.Target] = m
				for _, o := range rops {
					if o.Id == r.Target {
						for k := range o.Meta {
							m[k] = true
						}
					}
				}
			}
			for k := range r.NewMeta {
				if m[k] {
					metaCollision = true
				}
				m[k] = true
			}
		}
	}
	nontrivial := len(kinds) >= 3 && (hasEdit || hasRemoval || metaCollision)
	var cls []string
	if hasEdit {
		cls = append(cls, "has-edit")
	}
	if hasRemoval {
		cls = append(cls, "has-label-removal")
	}
	if metaCollision {
		cls = append(cls, "has-metadata-collision")
	}
	for _, x := range classes {
		if strings.Contains(x, ">") {
			cls = append(cls, "target:"+x)
		}
	}
	cls = dedup(cls)
	rep.Case(strings.Join(classes, ","), nontrivial, cls, c)

	if err := b.Validate(); err != nil {
		if rep.Fail(tb, "C10/valid-sequence-refused/"+Normalize(err.Error()), err.Error(), c) {
			return
		}
	}

	want := refmodel.Interpret(rops)
	got := ProjectSnapshot(b.Compile())
	if aspect, detail := refmodel.Diff(want, got); aspect != "" {
		if rep.Fail(tb, "C10/snapshot/"+aspect, detail, c) {
			return
		}
	}
	// repeatability
	again := ProjectSnapshot(b.Compile())
	got.MustActors, got.MayActors = got.Actors, got.Actors
	if aspect, detail := refmodel.Diff(got, again); aspect != "" {
		if rep.Fail(tb, "C10/recompile/"+aspect, detail, c) {
			return
		}
	}

	// metamorphic: removing edits whose target is unknown or not a comment changes nothing
	skip := map[int]bool{}
	for i, x := range classes {
		if strings.HasPrefix(x, refmodel.KEdit+">") && x != refmodel.KEdit+">"+refmodel.KCreate && x != refmodel.KEdit+">"+refmodel.KComment {
			skip[i] = true
		}
	}
	if len(skip) > 0 {
		// set-metadata operations that target a removed edit would lose their
		// target; keep the relation simple and exact: only compare when no
		// operation targets a removed one.
		removedIds := map[string]bool{}
		for i := range skip {
			removedIds[rops[i].Id] = true
		}
		targeted := false
		for _, r := range rops {
			if r.Target != "" && removedIds[r.Target] {
				targeted = true
			}
		}
		if !targeted {
			entropy.Seed(c.Seed)
			b2, _, _ := c10Build(tb, c, authors, skip)
			got2 := ProjectSnapshot(b2.Compile())
			ref := got
			ref.OpIds = nil
			for _, id := range got.OpIds {
				if !removedIds[id] {
					ref.OpIds = append(ref.OpIds, id)
				}
			}
			ref.Meta = map[string]map[string]string{}
			for id, m := range got.Meta {
				if !removedIds[id] {
					ref.Meta[id] = m
				}
			}
			if aspect, detail := refmodel.Diff(ref, got2); aspect != "" {
				if rep.Fail(tb, "C10/ineffective-edit-changes-state/"+aspect, detail, c) {
					return
				}
			}
			rep.Class("metamorphic-checked", 1)
		}
	}
}

func dedup(in []string) []string {
	m := map[string]bool{}
	var out []string
	for _, s := range in {
		if !m[s] {
			m[s] = true
			out = append(out, s)
		}
	}
	sort.Strings(out)
	return out
}

func TestC10Snapshot(t *testing.T) {
	Drive(t, "C10", genC10, runC10)
}

// TestC10Cache: the state the cache maintains incrementally equals a compilation from scratch.
// The same kind of sequences go through BugCache (snapshot taken before any edit, so every operation is
// applied incrementally), are committed in generated chunks, then the bug is re-read from git and
// compiled from scratch; both are also compared with the reference interpretation of the stored JSON.
func TestC10Cache(t *testing.T) {
	type cacheCase struct {
		Seed   uint64   `json:"seed"`
		Ops    []OpSpec `json:"ops"`
		Chunks []int    `json:"chunks"` // commit after this many operations, repeatedly
	}
	gen := func(t *rapid.T) cacheCase {
		c := cacheCase{Seed: rapid.Uint64().Draw(t, "seed")}
		c.Ops = append(c.Ops, GenCreateSpec(3, 0).Draw(t, "create"))
		c.Ops = append(c.Ops, rapid.SliceOfN(GenOpSpec(3, 0), 1, Scale(25, 80)).Draw(t, "ops")...) // three authors, interleaved in the staging area
		c.Chunks = rapid.SliceOfN(rapid.IntRange(1, 6), 1, 8).Draw(t, "chunks")
		return c
	}
	Drive(t, "C10", gen, func(tb report.TB, rep *report.Reporter, c cacheCase) {
		w, err := NewCWorld(2, c.Seed)
		if err != nil {
			tb.Fatalf("harness: %v", err)
		}
		defer w.Close()
		r := w.R[0]
		user, _ := r.Cache.GetUserIdentity()
		people := []*cache.IdentityCache{user}
		for k := 1; k < 3; k++ {
			ic, err := r.Cache.Identities().NewRaw(fmt.Sprintf("co-author %d", k), "co@example.org", "", "", nil, nil)
			if err != nil {
				tb.Fatalf("harness: %v", err)
			}
			people = append(people, ic)
		}
		me := people[c.Ops[0].Author%len(people)]
		bc, _, err := r.Cache.Bugs().NewRaw(me, c.Ops[0].Time, c.Ops[0].Title, c.Ops[0].Message, nil, c.Ops[0].Meta)
		if err != nil {
			return // refused by validation
		}
		_ = bc.Snapshot() // from now on every operation is applied to this snapshot incrementally
		var kinds []string
		applied, inChunk, chunk := 0, 0, 0
		for _, s := range c.Ops[1:] {
			me := people[s.Author%len(people)]
			snap := bc.Snapshot()
			ops := snap.Operations
			var prev []Built
			for _, o := range ops {
				prev = append(prev, Built{Id: string(o.Id()), Kind: refmodel.TypeToKind[int(o.Type())]})
			}
			var err error
			switch s.Kind {
			case refmodel.KComment:
				_, _, err = bc.AddCommentRaw(me, s.Time, s.Message, nil, s.Meta)
			case refmodel.KEdit:
				target := ResolveTarget(s, prev)
				_, err = bc.EditCommentRaw(me, s.Time, entity.CombineIds(bc.Id(), target), s.Message, s.Meta)
			case refmodel.KTitle:
				_, err = bc.SetTitleRaw(me, s.Time, s.Title, s.Meta)
			case refmodel.KStatus:
				if s.Status == 1 {
					_, err = bc.OpenRaw(me, s.Time, s.Meta)
				} else {
					_, err = bc.CloseRaw(me, s.Time, s.Meta)
				}
			case refmodel.KLabel:
				if s.TargetIdx%2 == 0 {
					_, err = bc.ForceChangeLabelsRaw(me, s.Time, s.Added, s.Removed, s.Meta)
				} else {
					_, _, err = bc.ChangeLabelsRaw(me, s.Time, s.Added, s.Removed, s.Meta)
				}
			case refmodel.KMeta:
				_, err = bc.SetMetadataRaw(me, s.Time, ResolveTarget(s, prev), s.NewMeta)
			default:
				continue
			}
			if err != nil {
				continue // refused: legal
			}
			applied++
			kinds = append(kinds, s.Kind)
			inChunk++
			if inChunk >= c.Chunks[chunk%len(c.Chunks)] {
				pre := ProjectSnapshot(bc.Snapshot())
				if err := bc.Commit(); err != nil {
					rep.Fail(tb, "C10/cache/commit-fails/"+Normalize(err.Error()), err.Error(), c)
					return
				}
				// storing the staged operations changes nothing in what the bug is
				post := ProjectSnapshot(bc.Snapshot())
				pre.MustActors, pre.MayActors = pre.Actors, pre.Actors
				if aspect, detail := refmodel.Diff(pre, post); aspect != "" {
					if rep.Fail(tb, "C10/cache/commit-changes-the-compiled-state/"+aspect, "(want = the bug before Commit, got = the same bug right after Commit)\n"+detail, c) {
						return
					}
				}
				inChunk = 0
				chunk++
			}
		}
		if err := bc.CommitAsNeeded(); err != nil {
			rep.Fail(tb, "C10/cache/commit-fails/"+Normalize(err.Error()), err.Error(), c)
			return
		}
		ks := map[string]bool{}
		for _, k := range kinds {
			ks[k] = true
		}
		rep.Case("cache|"+strings.Join(kinds, ","), len(ks) >= 3, []string{"through-cache"}, c)
		incremental := ProjectSnapshot(bc.Snapshot())
		incremental.MustActors, incremental.MayActors = incremental.Actors, incremental.Actors
		fresh, err := bug.Read(r.Repo, bc.Id())
		if err != nil {
			rep.Fail(tb, "C10/cache/unreadable/"+Normalize(err.Error()), err.Error(), c)
			return
		}
		scratch := ProjectSnapshot(fresh.Compile())
		if aspect, detail := refmodel.Diff(incremental, scratch); aspect != "" {
			if rep.Fail(tb, "C10/cache/incremental-differs-from-scratch/"+aspect, "(want = maintained incrementally by the cache, got = compiled from scratch from git)\n"+detail, c) {
				return
			}
		}
		d, err := ondisk.ReadDAG(r.Repo, "refs/bugs/"+string(bc.Id()))
		if err != nil {
			tb.Fatalf("harness: %v", err)
		}
		rops, err := d.ROps()
		if err != nil {
			tb.Fatalf("harness: %v", err)
		}
		if aspect, detail := refmodel.Diff(refmodel.Interpret(rops), incremental); aspect != "" {
			if rep.Fail(tb, "C10/cache/snapshot/"+aspect, detail, c) {
				return
			}
		}
		// ---- a second user edits the same bug concurrently, several operations per commit, and the histories are
		// merged: the state is still the fold of the operations in the documented order (packs by edit time and
		// pack id, operations of a pack in the order they were made)
		if c.Seed%2 == 0 {
			r1 := w.R[1]
			if _, err := r.Cache.Push("origin"); err != nil {
				tb.Fatalf("harness: push: %v", err)
			}
			if err := r1.Cache.Pull("origin"); err != nil {
				tb.Fatalf("harness: pull: %v", err)
			}
			other, _ := r1.Cache.GetUserIdentity()
			theirs, err := r1.Cache.Bugs().Resolve(bc.Id())
			if err != nil {
				tb.Fatalf("harness: %v", err)
			}
			for k := 0; k < 4; k++ {
				if _, _, err := theirs.AddCommentRaw(other, int64(8_000_000+k), fmt.Sprintf("theirs %d", k), nil, nil); err != nil {
					tb.Fatalf("harness: %v", err)
				}
			}
			_, _ = theirs.SetTitleRaw(other, 8_000_010, "draft title of the other user", nil)
			_, _ = theirs.SetTitleRaw(other, 8_000_011, "final title of the other user", nil)
			if err := theirs.Commit(); err != nil {
				tb.Fatalf("harness: %v", err)
			}
			for k := 0; k < 3; k++ {
				if _, _, err := bc.AddCommentRaw(user, int64(8_100_000+k), fmt.Sprintf("mine %d", k), nil, nil); err != nil {
					tb.Fatalf("harness: %v", err)
				}
			}
			_, _, _ = bc.ChangeLabelsRaw(user, 8_100_010, []string{"merged-label"}, nil, nil)
			_, _, _ = bc.ChangeLabelsRaw(user, 8_100_011, nil, []string{"merged-label"}, nil)
			if err := bc.Commit(); err != nil {
				tb.Fatalf("harness: %v", err)
			}
			if _, err := r1.Cache.Push("origin"); err != nil {
				tb.Fatalf("harness: push: %v", err)
			}
			if err := r.Cache.Pull("origin"); err != nil {
				rep.Fail(tb, "C10/cache/pull-fails/"+Normalize(err.Error()), err.Error(), c)
				return
			}
			if bc, err = r.Cache.Bugs().Resolve(bc.Id()); err != nil {
				tb.Fatalf("harness: %v", err)
			}
			rep.Class("merged-with-a-concurrent-multi-operation-commit", 1)
			merged := ProjectSnapshot(bc.Snapshot())
			merged.MustActors, merged.MayActors = merged.Actors, merged.Actors
			d2, err := ondisk.ReadDAG(r.Repo, "refs/bugs/"+string(bc.Id()))
			if err != nil {
				tb.Fatalf("harness: %v", err)
			}
			rops2, err := d2.ROps()
			if err != nil {
				tb.Fatalf("harness: %v", err)
			}
			if aspect, detail := refmodel.Diff(refmodel.Interpret(rops2), merged); aspect != "" {
				if rep.Fail(tb, "C10/cache/merged-snapshot/"+aspect, fmt.Sprintf("%d operations after the merge\n%s", len(rops2), detail), c) {
					return
				}
			}
			again, err := bug.Read(r.Repo, bc.Id())
			if err != nil {
				rep.Fail(tb, "C10/cache/unreadable/"+Normalize(err.Error()), err.Error(), c)
				return
			}
			if aspect, detail := refmodel.Diff(merged, ProjectSnapshot(again.Compile())); aspect != "" {
				if rep.Fail(tb, "C10/cache/merged-bug-reads-differently-the-second-time/"+aspect, detail, c) {
					return
				}
			}
		}
		// ---- the state the cache keeps across runs. This run ends normally; the next one edits the bug and is
		// killed before it closes anything; the third one loads the cache files: what it lists for the bug
		// (the excerpt) is the compilation of the operations stored in git.
		if err := w.Reopen(r); err != nil {
			tb.Fatalf("harness: reopen: %v", err)
		}
		user2, err := r.Cache.GetUserIdentity()
		if err != nil {
			tb.Fatalf("harness: %v", err)
		}
		bc2, err := r.Cache.Bugs().Resolve(bc.Id())
		if err != nil {
			rep.Fail(tb, "C10/cache/unresolvable-after-reopen/"+Normalize(err.Error()), err.Error(), c)
			return
		}
		_, e1 := bc2.SetTitleRaw(user2, 9_000_000, "title given by the run that was killed", nil)
		_, e2 := bc2.CloseRaw(user2, 9_000_001, nil)
		_, _, e3 := bc2.ChangeLabelsRaw(user2, 9_000_002, []string{"killed-run"}, nil, nil)
		if e1 != nil || e2 != nil || e3 != nil {
			tb.Fatalf("harness: late edits: %v %v %v", e1, e2, e3)
		}
		if err := bc2.Commit(); err != nil {
			rep.Fail(tb, "C10/cache/commit-fails/"+Normalize(err.Error()), err.Error(), c)
			return
		}
		// killed: nothing is closed; its lock stays behind, naming a pid that is gone
		_ = r.Repo.Close() // releases the index files a dead process would not hold; the cache files are written by RepoCache.Close only
		DeadenLock(r.Path)
		repo3, err := repository.OpenGoGitRepo(r.Path, "git-bug", nil)
		if err != nil {
			tb.Fatalf("harness: %v", err)
		}
		defer repo3.Close()
		rc3, err := cache.NewRepoCacheNoEvents(repo3)
		if err != nil {
			rep.Fail(tb, "C10/cache/does-not-open-after-a-killed-run/"+Normalize(err.Error()), err.Error(), c)
			return
		}
		defer rc3.Close()
		stored, err := bug.Read(repo3, bc.Id())
		if err != nil {
			rep.Fail(tb, "C10/cache/unreadable/"+Normalize(err.Error()), err.Error(), c)
			return
		}
		want := stored.Compile()
		ex, err := rc3.Bugs().ResolveExcerpt(bc.Id())
		if err != nil {
			rep.Fail(tb, "C10/cache/no-excerpt-after-a-killed-run/"+Normalize(err.Error()), err.Error(), c)
			return
		}
		var diffs []string
		if ex.Title != want.Title {
			diffs = append(diffs, fmt.Sprintf("title %q, stored operations give %q", ex.Title, want.Title))
		}
		if ex.Status != want.Status {
			diffs = append(diffs, fmt.Sprintf("status %v, stored operations give %v", ex.Status, want.Status))
		}
		if ex.LenComments != len(want.Comments) {
			diffs = append(diffs, fmt.Sprintf("%d comments, stored operations give %d", ex.LenComments, len(want.Comments)))
		}
		exLabels, wantLabels := map[string]bool{}, map[string]bool{}
		for _, l := range ex.Labels {
			exLabels[string(l)] = true
		}
		for _, l := range want.Labels {
			wantLabels[string(l)] = true
		}
		if !reflect.DeepEqual(exLabels, wantLabels) {
			diffs = append(diffs, fmt.Sprintf("labels %v, stored operations give %v", ex.Labels, want.Labels))
		}
		rep.Class("listed-after-a-killed-run", 1)
		if len(diffs) > 0 {
			rep.Fail(tb, "C10/cache/listing-after-a-killed-run-differs-from-the-stored-operations", strings.Join(diffs, "\n"), c)
		}
	})
}
