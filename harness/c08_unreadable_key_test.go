package harness

import (
	"bytes"
	"encoding/base64"
	"encoding/json"
	"fmt"
	"os"
	"testing"

	"github.com/ProtonMail/go-crypto/openpgp"
	"github.com/ProtonMail/go-crypto/openpgp/armor"
	"pgregory.net/rapid"

	"github.com/MichaelMure/git-bug/entities/bug"
	"github.com/MichaelMure/git-bug/entities/identity"
	"github.com/MichaelMure/git-bug/entity"
	"github.com/MichaelMure/git-bug/repository"

	"verif/harness/internal/ondisk"
	"verif/harness/internal/report"
)

// TestC08UnreadableKey: an author whose identity (written by another client) declares a signing key that this
// git-bug cannot use: a public-key algorithm or packet version its OpenPGP library does not know. The author HAS a
// key in force, so an unsigned commit in their name is never accepted: either the identity is refused as a whole
// (and the bug with it) or the commit is refused for its missing signature.

type c08KeyCase struct {
	Seed    uint64 `json:"seed"`
	Algo    int    `json:"algo"`    // public-key algorithm id written in the packet
	Version int    `json:"version"` // packet version
	Extra   bool   `json:"extra"`   // the identity also declares an ordinary key (listed first)
	Signed  bool   `json:"signed"`  // the commit is signed by a stranger's key instead of unsigned
}

func genC08Key(t *rapid.T) c08KeyCase {
	return c08KeyCase{Seed: rapid.Uint64().Draw(t, "seed"), Algo: rapid.SampledFrom([]int{27, 28, 25, 26, 99, 110}).Draw(t, "algo"),
		Version: rapid.SampledFrom([]int{4, 4, 5, 6}).Draw(t, "version"), Extra: rapid.Bool().Draw(t, "extra"), Signed: rapid.Bool().Draw(t, "signed")}
}

func runC08Key(tb report.TB, rep *report.Reporter, c c08KeyCase) {
	pool := keyPool()
	dir := mkdirTemp("c08k-")
	defer os.RemoveAll(dir)
	repo, err := repository.InitGoGitRepo(dir, "git-bug")
	if err != nil {
		tb.Fatalf("harness: %v", err)
	}
	defer repo.Close()
	body := append([]byte{byte(c.Version), 0x65, 0, 0, 0, byte(c.Algo)}, NonceFor(c.Seed, 8_500_000)...)
	body = append(body, NonceFor(c.Seed, 8_500_001)...)
	pkt := append([]byte{0xC0 | 6, byte(len(body))}, body...)
	var buf bytes.Buffer
	w, err := armor.Encode(&buf, openpgp.PublicKeyType, nil)
	if err == nil {
		_, err = w.Write(pkt)
	}
	if err == nil {
		err = w.Close()
	}
	if err != nil {
		tb.Fatalf("harness: armor: %v", err)
	}
	foreign, _ := json.Marshal(buf.String())
	keys := []json.RawMessage{foreign}
	if c.Extra {
		good, _ := json.Marshal(pool[0])
		keys = []json.RawMessage{good, foreign}
	}
	aid, _, _, err := ondisk.WriteIdentity(repo, "", []ondisk.IdentityVersion{{Version: 2, UnixTime: 1600000000, Name: "keyed elsewhere", Times: map[string]uint64{"bugs-edit": 1},
		Keys: keys, Nonce: NonceFor(c.Seed, 8_500_002)}})
	if err != nil {
		tb.Fatalf("harness: %v", err)
	}
	rep.Case(fmt.Sprintf("unreadable-key|algo%d|v%d|extra=%v|signed=%v", c.Algo, c.Version, c.Extra, c.Signed), true,
		[]string{fmt.Sprintf("algorithm:%d", c.Algo), fmt.Sprintf("packet-version:%d", c.Version)}, c)
	nonce := base64.StdEncoding.EncodeToString(NonceFor(c.Seed, 8_500_003))
	create := json.RawMessage(fmt.Sprintf(`{"type":1,"timestamp":1234,"nonce":%q,"title":"in the name of the keyed author","message":"m","files":null}`, nonce))
	bugId := ondisk.Sha(create)
	empty, _ := repo.StoreData([]byte{})
	bh, _ := repo.StoreData(ondisk.OpsBlob(aid, []json.RawMessage{create}))
	th, err := repo.StoreTree([]repository.TreeEntry{
		{ObjectType: repository.Blob, Hash: empty, Name: "version-4"},
		{ObjectType: repository.Blob, Hash: bh, Name: "ops"},
		{ObjectType: repository.Blob, Hash: empty, Name: "edit-clock-5"},
		{ObjectType: repository.Blob, Hash: empty, Name: "create-clock-1"},
	})
	if err != nil {
		tb.Fatalf("harness: %v", err)
	}
	var commit repository.Hash
	if c.Signed {
		commit, err = repo.StoreSignedCommit(th, pool[3].PGPEntity())
	} else {
		commit, err = repo.StoreCommit(th)
	}
	if err != nil {
		tb.Fatalf("harness: %v", err)
	}
	if err := repo.UpdateRef("refs/bugs/"+bugId, commit); err != nil {
		tb.Fatalf("harness: %v", err)
	}
	got, rerr, panicked := safeRead(repo, bugId)
	if panicked != "" {
		rep.Fail(tb, "C08/unreadable-key/read-panics/"+Normalize(panicked), panicked, c)
		return
	}
	if rerr == nil && got != nil {
		rep.Fail(tb, "C08/unreadable-key/commit-without-a-valid-signature-accepted", fmt.Sprintf("the author declares a key of algorithm %d (packet version %d) that this git-bug cannot use%s; the commit is %s; bug.Read returned the bug",
			c.Algo, c.Version, map[bool]string{true: " next to an ordinary key", false: ""}[c.Extra], map[bool]string{true: "signed by a stranger", false: "unsigned"}[c.Signed]), c)
		return
	}
	_ = repo.RemoveRef("refs/bugs/" + bugId)
	if err := repo.UpdateRef("refs/remotes/origin/bugs/"+bugId, commit); err != nil {
		tb.Fatalf("harness: %v", err)
	}
	me, err := identity.NewIdentity(repo, "local user", "l@example.org")
	if err == nil {
		err = me.Commit(repo)
	}
	if err != nil {
		tb.Fatalf("harness: %v", err)
	}
	for res := range bug.MergeAll(repo, Resolvers(repo), "origin", me) {
		if string(res.Id) == bugId && res.Err == nil && (res.Status == entity.MergeStatusNew || res.Status == entity.MergeStatusUpdated) {
			rep.Fail(tb, "C08/unreadable-key/merge-accepts-commit-without-a-valid-signature", fmt.Sprintf("status %v", res.Status), c)
			return
		}
	}
}

func TestC08UnreadableKey(t *testing.T) {
	Drive(t, "C08", genC08Key, runC08Key)
}
