//go:build !verif

package harness

// without the verif build tag /repo has no lock hook: no perturbation
func lockDelays(seed uint64) (stop func() int) { return func() int { return 0 } }

func lockDelaysWriters(seed uint64) (stop func()) { return func() {} }

func parkAt(k int) (mark func(), parked chan struct{}, release func(), stop func()) {
	return func() {}, make(chan struct{}), func() {}, func() {}
}
