//go:build !verif

package harness

// without the verif build tag /repo has no lock hook: no perturbation
func lockDelays(seed uint64) (stop func() int) { return func() int { return 0 } }
