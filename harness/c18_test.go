package harness

import (
	"fmt"
	"os"
	"runtime"
	"sort"
	"strings"
	"sync"
	"testing"
	"time"

	"pgregory.net/rapid"

	"github.com/MichaelMure/git-bug/cache"
	"github.com/MichaelMure/git-bug/entities/bug"
	"github.com/MichaelMure/git-bug/entity"
	"github.com/MichaelMure/git-bug/query"
	"github.com/MichaelMure/git-bug/repository"

	"verif/harness/internal/report"
)

// C18: concurrent use of one cache loses no acknowledged edit.

type c18Call struct {
	Kind  string `json:"kind"` // new comment title open close label commit resolve query labels snapshot
	Bug   int    `json:"bug"`  // index among shared bugs (or own bugs when Own)
	Own   bool   `json:"own,omitempty"`
	Yield int    `json:"yield,omitempty"` // Gosched calls before the call
}

type c18Case struct {
	Seed       uint64      `json:"seed"`
	Procs      int         `json:"procs"`
	Shared     int         `json:"shared"`           // bugs existing before the workers start
	KeepHandle bool        `json:"keep_handle"`      // workers keep *BugCache handles across calls instead of resolving each time
	CacheSize  int         `json:"cache_size"`       // 0 = default (no eviction at these sizes)
	Delays     bool        `json:"delays,omitempty"` // inject sleeps/yields before cache lock acquisitions (hook, build tag verif)
	Reopen     bool        `json:"reopen,omitempty"` // the cache is closed and opened again before the workers start: it is loaded from its files, entities are read when first resolved (a server after a restart)
	Workers    [][]c18Call `json:"workers"`
}

func genC18(t *rapid.T) c18Case {
	c := c18Case{Seed: rapid.Uint64().Draw(t, "seed"), Procs: rapid.SampledFrom([]int{1, 2, 4, 16}).Draw(t, "procs"),
		Shared: rapid.IntRange(1, 4).Draw(t, "shared"), KeepHandle: rapid.Bool().Draw(t, "keep"), Delays: rapid.IntRange(0, 2).Draw(t, "delays") > 0}
	c.Reopen = rapid.IntRange(0, 2).Draw(t, "reopen") == 0
	nw := rapid.IntRange(2, Scale(8, 16)).Draw(t, "workers")
	call := rapid.Custom(func(t *rapid.T) c18Call {
		return c18Call{Kind: rapid.SampledFrom([]string{"new", "comment", "comment", "comment", "title", "open", "close", "label", "commit", "commit", "resolve", "query", "labels", "snapshot"}).Draw(t, "kind"),
			Bug: rapid.IntRange(0, 5).Draw(t, "bug"), Own: rapid.IntRange(0, 3).Draw(t, "own") == 0, Yield: rapid.IntRange(0, 3).Draw(t, "yield")}
	})
	for i := 0; i < nw; i++ {
		c.Workers = append(c.Workers, rapid.SliceOfN(call, 3, 14).Draw(t, "calls"))
	}
	return c
}

type c18Expect struct {
	mu  sync.Mutex
	ops map[string][]string // bug id -> ids of operations whose call returned success
}

func (e *c18Expect) add(bugId, opId string) {
	e.mu.Lock()
	e.ops[bugId] = append(e.ops[bugId], opId)
	e.mu.Unlock()
}

func allGoroutines() string {
	buf := make([]byte, 1<<22)
	n := runtime.Stack(buf, true)
	return string(buf[:n])
}

func runC18(tb report.TB, rep *report.Reporter, c c18Case) {
	prev := runtime.GOMAXPROCS(c.Procs)
	defer runtime.GOMAXPROCS(prev)
	w, err := NewCWorld(1, c.Seed)
	if err != nil {
		tb.Fatalf("harness: %v", err)
	}
	leaked := false
	defer func() {
		if !leaked {
			w.Close()
		}
	}()
	r := w.R[0]
	rc := r.Cache
	me, err := rc.GetUserIdentity()
	if err != nil {
		tb.Fatalf("harness: %v", err)
	}
	exp := &c18Expect{ops: map[string][]string{}}
	var shared []string
	for i := 0; i < c.Shared; i++ {
		bc, op, err := rc.Bugs().NewRaw(me, int64(1000+i), fmt.Sprintf("shared bug %d", i), "m", nil, nil)
		if err != nil {
			tb.Fatalf("harness: %v", err)
		}
		shared = append(shared, string(bc.Id()))
		exp.add(string(bc.Id()), string(op.Id()))
	}
	if c.Reopen {
		if err := w.Reopen(r); err != nil {
			tb.Fatalf("harness: reopen: %v", err)
		}
		rc = r.Cache
		if me, err = rc.GetUserIdentity(); err != nil {
			tb.Fatalf("harness: %v", err)
		}
	}
	if c.CacheSize > 0 {
		rc.Bugs().SetCacheSize(c.CacheSize)
	}
	fail := func(sig, detail string) bool { return rep.Fail(tb, "C18/"+sig, detail, c) }
	injected := 0
	stopDelays := func() {}
	if c.Delays {
		stop := lockDelays(c.Seed)
		stopped := false
		stopDelays = func() {
			if !stopped {
				stopped = true
				injected = stop()
			}
		}
		defer stopDelays()
	}

	var wg sync.WaitGroup
	var panics []string
	var pmu sync.Mutex
	touched := make([]map[string]bool, len(c.Workers))
	for wi := range c.Workers {
		wi := wi
		touched[wi] = map[string]bool{}
		wg.Add(1)
		go func() {
			defer wg.Done()
			defer func() {
				if rcv := recover(); rcv != nil {
					pmu.Lock()
					panics = append(panics, fmt.Sprintf("worker %d: %v\n%s", wi, rcv, PanicSite(allGoroutines())))
					pmu.Unlock()
				}
			}()
			var own []string
			handles := map[string]*cache.BugCache{}
			get := func(id string) (*cache.BugCache, error) {
				if c.KeepHandle {
					if h, ok := handles[id]; ok {
						return h, nil
					}
				}
				h, err := rc.Bugs().Resolve(entity.Id(id))
				if err == nil && c.KeepHandle {
					handles[id] = h
				}
				return h, err
			}
			for ci, call := range c.Workers[wi] {
				for y := 0; y < call.Yield; y++ {
					runtime.Gosched()
				}
				pool := shared
				if call.Own && len(own) > 0 {
					pool = own
				}
				id := pool[call.Bug%len(pool)]
				tstamp := int64(10_000 + wi*100 + ci)
				switch call.Kind {
				case "new":
					bc, op, err := rc.Bugs().NewRaw(me, tstamp, fmt.Sprintf("bug of worker %d call %d", wi, ci), "m", nil, nil)
					if err == nil {
						own = append(own, string(bc.Id()))
						exp.add(string(bc.Id()), string(op.Id()))
						if c.KeepHandle {
							handles[string(bc.Id())] = bc
						}
					}
					continue
				case "query":
					// a filter-only listing, or a full-text search whose term also matches the bugs other workers are
					// creating right now (their titles read "bug of worker …"): the search index and the excerpts are
					// consulted together
					text := "status:open sort:id"
					if call.Bug%2 == 1 {
						text = "status:open worker"
					}
					q, _ := query.Parse(text)
					_, _ = rc.Bugs().Query(q)
					continue
				case "labels":
					_ = rc.Bugs().ValidLabels()
					continue
				}
				bc, err := get(id)
				if err != nil {
					continue
				}
				touched[wi][id] = true
				switch call.Kind {
				case "comment":
					if _, op, err := bc.AddCommentRaw(me, tstamp, fmt.Sprintf("w%d c%d", wi, ci), nil, nil); err == nil {
						exp.add(id, string(op.Id()))
					}
				case "title":
					if op, err := bc.SetTitleRaw(me, tstamp, fmt.Sprintf("title by w%d c%d", wi, ci), nil); err == nil {
						exp.add(id, string(op.Id()))
					}
				case "open":
					if op, err := bc.OpenRaw(me, tstamp, nil); err == nil {
						exp.add(id, string(op.Id()))
					}
				case "close":
					if op, err := bc.CloseRaw(me, tstamp, nil); err == nil {
						exp.add(id, string(op.Id()))
					}
				case "label":
					label := fmt.Sprintf("l-%d-%d", wi, ci)
					if call.Bug%2 == 0 {
						label = "triage" // several requests ask for the same label: all but the first have nothing to do, which is an error answer
					}
					if _, op, err := bc.ChangeLabelsRaw(me, tstamp, []string{label}, nil, nil); err == nil {
						exp.add(id, string(op.Id()))
					}
				case "commit":
					_ = bc.CommitAsNeeded()
				case "resolve":
				case "snapshot":
					_ = bc.Snapshot().Title
				}
			}
		}()
	}
	done := make(chan struct{})
	go func() { wg.Wait(); close(done) }()
	select {
	case <-done:
	case <-time.After(60 * time.Second):
		dump := allGoroutines()
		leaked = true
		blocked := strings.Count(dump, "sync.(*RWMutex).Lock") + strings.Count(dump, "sync.(*Mutex).Lock") + strings.Count(dump, "sync.(*RWMutex).RLock")
		sig := "deadlock/workers-still-blocked-after-60s"
		if strings.Contains(dump, "evictIfNeeded") || strings.Contains(dump, "CachedEntityBase") {
			sig = "deadlock/blocked-on-entity-lock"
		}
		fail(sig, fmt.Sprintf("%d goroutines parked on mutexes\n%s", blocked, truncate(dump, 6000)))
		rep.Case("deadlock", false, []string{"deadlock"}, nil)
		return
	}
	if len(panics) > 0 {
		if fail("panic/"+Normalize(panics[0]), strings.Join(panics, "\n")) {
			return
		}
	}
	stopDelays()
	// ---- at quiescence the excerpt of every bug (what listings and queries use) describes the bug's current
	// snapshot: an excerpt stored late by a slower concurrent notification must not survive
	if c.CacheSize == 0 {
		for _, id := range sortedIds(rc.Bugs().AllIds()) {
			bc, err := rc.Bugs().Resolve(entity.Id(id))
			if err != nil {
				continue // reported below
			}
			got, err := rc.Bugs().ResolveExcerpt(entity.Id(id))
			if err != nil {
				if fail("excerpt-missing-after-the-run/"+Normalize(err.Error()), id+": "+err.Error()) {
					return
				}
				continue
			}
			want := cache.NewBugExcerpt(bc)
			var diffs []string
			if got.Title != want.Title {
				diffs = append(diffs, fmt.Sprintf("title %q, snapshot %q", got.Title, want.Title))
			}
			if got.Status != want.Status {
				diffs = append(diffs, fmt.Sprintf("status %v, snapshot %v", got.Status, want.Status))
			}
			if got.LenComments != want.LenComments {
				diffs = append(diffs, fmt.Sprintf("%d comments, snapshot %d", got.LenComments, want.LenComments))
			}
			if fmt.Sprint(got.Labels) != fmt.Sprint(want.Labels) {
				diffs = append(diffs, fmt.Sprintf("labels %v, snapshot %v", got.Labels, want.Labels))
			}
			if got.EditLamportTime != want.EditLamportTime || got.EditUnixTime != want.EditUnixTime {
				diffs = append(diffs, fmt.Sprintf("edit time %d/%d, snapshot %d/%d", got.EditLamportTime, got.EditUnixTime, want.EditLamportTime, want.EditUnixTime))
			}
			if len(diffs) > 0 {
				if fail("stale-excerpt-after-concurrent-edits", fmt.Sprintf("bug %s, all workers done: the excerpt served by listings and queries is not the one of the current snapshot: %s", id, strings.Join(diffs, "; "))) {
					return
				}
			}
		}
	}
	// ---- everything acknowledged gets committed, then git must hold exactly that
	for _, id := range sortedIds(rc.Bugs().AllIds()) {
		bc, err := rc.Bugs().Resolve(entity.Id(id))
		if err != nil {
			if fail("bug-unresolvable-after-the-run/"+Normalize(err.Error()), id+": "+err.Error()) {
				return
			}
			continue
		}
		if err := bc.CommitAsNeeded(); err != nil {
			if fail("final-commit-fails/"+Normalize(err.Error()), id+": "+err.Error()) {
				return
			}
		}
	}
	fresh, err := repository.OpenGoGitRepo(r.Path, "git-bug", nil)
	if err != nil {
		tb.Fatalf("harness: %v", err)
	}
	defer fresh.Close()
	stored, bad := readAllBugs(fresh)
	for id, e := range bad {
		if fail("stored-bug-unreadable/"+Normalize(e), id+": "+e) {
			return
		}
	}
	for id, want := range exp.ops {
		got := stored[id]
		gm := map[string]int{}
		for _, x := range got {
			gm[x]++
		}
		for _, x := range want {
			switch gm[x] {
			case 0:
				if fail("acknowledged-operation-lost", fmt.Sprintf("bug %s: operation %s was acknowledged but is not stored\nstored %v", id, x, got)) {
					return
				}
			case 1:
			default:
				if fail("operation-stored-twice", fmt.Sprintf("bug %s: operation %s", id, x)) {
					return
				}
			}
		}
		if len(got) != len(want) {
			if fail("unexpected-operations-stored", fmt.Sprintf("bug %s: %d acknowledged, %d stored\nwant %v\ngot  %v", id, len(want), len(got), want, got)) {
				return
			}
		}
		b, err := bug.Read(fresh, entity.Id(id))
		if err == nil {
			err = b.Validate()
		}
		if err != nil {
			if fail("stored-history-invalid/"+Normalize(err.Error()), id+": "+err.Error()) {
				return
			}
		}
	}
	for id := range stored {
		if _, ok := exp.ops[id]; !ok {
			if fail("unexpected-bug-stored", id) {
				return
			}
		}
	}
	// ---- the cache agrees with a rebuild
	live, err := ViewOf(rc, nil, nil)
	if err != nil {
		tb.Fatalf("harness: %v", err)
	}
	rebuilt, err := w.RebuiltView(r, nil)
	if err != nil {
		if fail("rebuild-fails/"+Normalize(err.Error()), err.Error()) {
			return
		}
	}
	if aspect, detail := DiffViews(live, rebuilt); aspect != "" {
		if fail("cache-differs-from-rebuild/"+aspect, detail) {
			return
		}
	}
	sharedTouch := 0
	for _, id := range shared {
		n := 0
		for wi := range touched {
			if touched[wi][id] {
				n++
			}
		}
		if n >= 2 {
			sharedTouch++
		}
	}
	var shape []string
	for _, ws := range c.Workers {
		shape = append(shape, fmt.Sprint(len(ws)))
	}
	sort.Strings(shape)
	rep.Case(fmt.Sprintf("w%d|p%d|keep%v|s%d|%s", len(c.Workers), c.Procs, c.KeepHandle, c.Shared, strings.Join(shape, ".")), sharedTouch > 0,
		[]string{fmt.Sprintf("workers:%d", len(c.Workers)), fmt.Sprintf("gomaxprocs:%d", c.Procs), fmt.Sprintf("keep-handles:%v", c.KeepHandle), fmt.Sprintf("lock-delays:%v", injected > 0)}, c)
}

func TestC18Concurrent(t *testing.T) {
	Drive(t, "C18", genC18, runC18)
}

// TestC18Eviction: a handle obtained before its entity is evicted (cache size forcing eviction), then used.
// This is what a web UI request racing with other requests does under memory pressure.
func TestC18Eviction(t *testing.T) {
	rep := report.For("C18", t.Name())
	defer rep.Close()
	for round, size := range []int{1, 2} {
		w, err := NewCWorld(1, uint64(4300+round))
		if err != nil {
			t.Fatalf("harness: %v", err)
		}
		r := w.R[0]
		me, _ := r.Cache.GetUserIdentity()
		var ids []string
		for i := 0; i < 4; i++ {
			bc, _, err := r.Cache.Bugs().NewRaw(me, int64(1000+i), fmt.Sprintf("bug %d", i), "m", nil, nil)
			if err != nil {
				t.Fatalf("harness: %v", err)
			}
			ids = append(ids, string(bc.Id()))
		}
		handle, err := r.Cache.Bugs().Resolve(entity.Id(ids[0]))
		if err != nil {
			t.Fatalf("harness: %v", err)
		}
		r.Cache.Bugs().SetCacheSize(size)
		for _, id := range ids[1:] {
			if _, err := r.Cache.Bugs().Resolve(entity.Id(id)); err != nil {
				t.Fatalf("harness: %v", err)
			}
		}
		done := make(chan error, 1)
		go func() {
			_, _, err := handle.AddCommentRaw(me, 5000, "through a handle resolved before the eviction", nil, nil)
			if err == nil {
				err = handle.CommitAsNeeded()
			}
			done <- err
		}()
		rep.Case(fmt.Sprintf("eviction|size%d", size), true, []string{"eviction-probe"}, map[string]any{"cache_size": size, "bugs": 4})
		select {
		case err := <-done:
			_ = err // an error is a legal answer; blocking forever is not
			w.Close()
		case <-time.After(5 * time.Second):
			dump := allGoroutines()
			// the blocked goroutine cannot be cancelled: leave the world behind
			_ = os.RemoveAll(w.Dir)
			if rep.Fail(t, "C18/deadlock/handle-used-after-eviction", fmt.Sprintf("cache size %d: AddComment through a handle resolved before its entity was evicted blocks forever (the eviction takes the entity lock and never releases it)\n%s", size, truncate(dump, 3000)), map[string]any{"cache_size": size}) {
				continue
			}
		}
	}
}

// TestC18Hammer: many goroutines editing the SAME bugs in tight loops (no yields), the densest schedule the
// runtime can produce; same oracle as TestC18Concurrent.
func TestC18Hammer(t *testing.T) {
	gen := func(t *rapid.T) c18Case {
		c := c18Case{Seed: rapid.Uint64().Draw(t, "seed"), Procs: 16, Shared: rapid.IntRange(1, 2).Draw(t, "shared"), KeepHandle: rapid.Bool().Draw(t, "keep")}
		nw := rapid.IntRange(4, 12).Draw(t, "workers")
		n := rapid.IntRange(30, 80).Draw(t, "calls")
		kinds := []string{"comment", "comment", "comment", "title", "label", "commit", "close", "open", "snapshot", "query"}
		for w := 0; w < nw; w++ {
			var calls []c18Call
			for k := 0; k < n; k++ {
				calls = append(calls, c18Call{Kind: kinds[(k*7+w*3)%len(kinds)], Bug: (k + w) % 2})
			}
			c.Workers = append(c.Workers, calls)
		}
		return c
	}
	Drive(t, "C18", gen, runC18)
}

// ---------------------------------------------------------------- recency under eviction pressure

type c18RecencyCase struct {
	Seed     uint64 `json:"seed"`
	Size     int    `json:"size"`     // cache size, >= 2
	Bugs     int    `json:"bugs"`     // > size
	Accesses []int  `json:"accesses"` // Resolve calls before the probe
	PickOld  bool   `json:"pick_old"` // the probed bug is the least recently used loaded one (else Probe picks)
	Probe    int    `json:"probe"`
	Other    int    `json:"other"`
}

func genC18Recency(t *rapid.T) c18RecencyCase {
	c := c18RecencyCase{Seed: rapid.Uint64().Draw(t, "seed"), Size: rapid.IntRange(2, 4).Draw(t, "size")}
	c.Bugs = c.Size + rapid.IntRange(1, 4).Draw(t, "extra")
	c.Accesses = rapid.SliceOfN(rapid.IntRange(0, c.Bugs-1), 0, 12).Draw(t, "accesses")
	c.PickOld = rapid.Bool().Draw(t, "pickOld")
	c.Probe = rapid.IntRange(0, c.Bugs-1).Draw(t, "probe")
	c.Other = rapid.IntRange(0, c.Bugs-1).Draw(t, "other")
	return c
}

// runC18Recency: a request resolves a bug and then edits it. Between the two, another request resolves one bug
// that is not loaded, which evicts one entity. With a cache of two or more entities, the bug resolved a moment
// ago is not the least recently used one, so it must not be the victim: the edit completes (F16, the known
// finding, is about handles that were legitimately evicted because enough OTHER bugs were used since).
func runC18Recency(tb report.TB, rep *report.Reporter, c c18RecencyCase) {
	w, err := NewCWorld(1, c.Seed)
	if err != nil {
		tb.Fatalf("harness: %v", err)
	}
	r := w.R[0]
	me, _ := r.Cache.GetUserIdentity()
	var ids []string
	for i := 0; i < c.Bugs; i++ {
		bc, _, err := r.Cache.Bugs().NewRaw(me, int64(1000+i), fmt.Sprintf("bug %d", i), "m", nil, nil)
		if err != nil {
			tb.Fatalf("harness: %v", err)
		}
		ids = append(ids, string(bc.Id()))
	}
	// model of what is loaded, least recently used first
	lru := append([]int(nil), make([]int, 0)...)
	for i := range ids {
		lru = append(lru, i)
	}
	touch := func(i int) (hit bool) {
		for k, x := range lru {
			if x == i {
				lru = append(append(lru[:k:k], lru[k+1:]...), i)
				return true
			}
		}
		lru = append(lru, i)
		return false
	}
	shrink := func() {
		for len(lru) > c.Size {
			lru = lru[1:]
		}
	}
	r.Cache.Bugs().SetCacheSize(c.Size)
	shrink()
	for _, a := range c.Accesses {
		if _, err := r.Cache.Bugs().Resolve(entity.Id(ids[a])); err != nil {
			tb.Fatalf("harness: resolve: %v", err)
		}
		touch(a)
		shrink()
	}
	probe := c.Probe
	if c.PickOld && len(lru) > 0 {
		probe = lru[0]
	}
	handle, err := r.Cache.Bugs().Resolve(entity.Id(ids[probe]))
	if err != nil {
		tb.Fatalf("harness: resolve: %v", err)
	}
	hit := touch(probe)
	shrink()
	// another request: a bug that is not loaded (by the model), so that exactly one entity is evicted
	other := -1
	for k := 0; k < c.Bugs; k++ {
		cand := (c.Other + k) % c.Bugs
		loaded := false
		for _, x := range lru {
			loaded = loaded || x == cand
		}
		if !loaded && cand != probe {
			other = cand
			break
		}
	}
	if other < 0 {
		tb.Fatalf("harness: no unloaded bug (size %d, bugs %d)", c.Size, c.Bugs)
	}
	if _, err := r.Cache.Bugs().Resolve(entity.Id(ids[other])); err != nil {
		tb.Fatalf("harness: resolve: %v", err)
	}
	rep.Case(fmt.Sprintf("recency|s%d|b%d|a%d|hit%v|old%v", c.Size, c.Bugs, len(c.Accesses), hit, c.PickOld), hit && c.PickOld,
		[]string{"recency-probe", fmt.Sprintf("probe-was-loaded:%v", hit), fmt.Sprintf("probe-was-least-recently-used:%v", c.PickOld)}, c)
	done := make(chan error, 1)
	go func() {
		_, _, err := handle.AddCommentRaw(me, 5000, "edit right after resolving", nil, nil)
		if err == nil {
			err = handle.CommitAsNeeded()
		}
		done <- err
	}()
	select {
	case err := <-done:
		w.Close()
		if err != nil {
			rep.Fail(tb, "C18/eviction/edit-after-resolve-fails/"+Normalize(err.Error()), err.Error(), c)
		}
	case <-time.After(30 * time.Second): // generous: a loaded machine must not turn a slow commit into an alarm
		dump := allGoroutines()
		_ = os.RemoveAll(w.Dir) // the blocked goroutine cannot be cancelled: leave the world behind
		rep.Fail(tb, "C18/eviction/most-recently-resolved-bug-evicted", fmt.Sprintf("cache size %d, %d bugs: a bug was resolved (loaded before: %v), then ONE other bug was loaded, and the edit through the handle blocks forever: the eviction chose the bug used a moment ago instead of the least recently used one\n%s", c.Size, c.Bugs, hit, truncate(dump, 2500)), c)
	}
}

func TestC18Recency(t *testing.T) {
	Drive(t, "C18", genC18Recency, runC18Recency)
}

// ---------------------------------------------------------------- a snapshot that was handed out never changes

type c18StableCase struct {
	Seed  uint64   `json:"seed"`
	Edits []string `json:"edits"` // comment title close open label editfirst
}

func genC18Stable(t *rapid.T) c18StableCase {
	return c18StableCase{Seed: rapid.Uint64().Draw(t, "seed"),
		Edits: rapid.SliceOfN(rapid.SampledFrom([]string{"comment", "comment", "title", "close", "open", "label", "editfirst"}), 1, 10).Draw(t, "edits")}
}

func snapshotSummary(s *bug.Snapshot) string {
	var sb strings.Builder
	fmt.Fprintf(&sb, "title=%q status=%v labels=%v ops=%d timeline=%d comments=[", s.Title, s.Status, s.Labels, len(s.Operations), len(s.Timeline))
	for _, c := range s.Comments {
		fmt.Fprintf(&sb, "%q/%d files;", c.Message, len(c.Files))
	}
	sb.WriteString("] history=[")
	for _, it := range s.Timeline {
		switch x := it.(type) {
		case *bug.CreateTimelineItem:
			fmt.Fprintf(&sb, "c%d;", len(x.History))
		case *bug.AddCommentTimelineItem:
			fmt.Fprintf(&sb, "a%d;", len(x.History))
		default:
			sb.WriteString("-;")
		}
	}
	fmt.Fprintf(&sb, "] actors=%d participants=%d", len(s.Actors), len(s.Participants))
	return sb.String()
}

// runC18Stable: the cache hands its snapshot of a bug to readers that use it without holding any lock (its own
// excerpt and search-index updates on behalf of another request, the API resolvers). A later edit therefore
// must not change a snapshot that a reader already holds - otherwise a reader racing with an edit sees torn
// data (on the pinned tree: a nil pointer dereference in the index update, F25). Decided without threads:
// take a snapshot before every edit, and after all edits each of them still reads as it did when taken.
func runC18Stable(tb report.TB, rep *report.Reporter, c c18StableCase) {
	w, err := NewCWorld(1, c.Seed)
	if err != nil {
		tb.Fatalf("harness: %v", err)
	}
	defer w.Close()
	r := w.R[0]
	me, _ := r.Cache.GetUserIdentity()
	bc, _, err := r.Cache.Bugs().NewRaw(me, 1000, "stable snapshot", "first message", nil, nil)
	if err != nil {
		tb.Fatalf("harness: %v", err)
	}
	type held struct {
		snap *bug.Snapshot
		want string
		at   int
	}
	var helds []held
	for i, e := range c.Edits {
		s := bc.Snapshot()
		helds = append(helds, held{s, snapshotSummary(s), i})
		ts := int64(2000 + i)
		switch e {
		case "comment":
			_, _, err = bc.AddCommentRaw(me, ts, fmt.Sprintf("comment %d", i), nil, nil)
		case "title":
			_, err = bc.SetTitleRaw(me, ts, fmt.Sprintf("title %d", i), nil)
		case "close":
			_, err = bc.CloseRaw(me, ts, nil)
		case "open":
			_, err = bc.OpenRaw(me, ts, nil)
		case "label":
			_, _, err = bc.ChangeLabelsRaw(me, ts, []string{fmt.Sprintf("l%d", i)}, nil, nil)
		case "editfirst":
			_, _, err = bc.EditCreateCommentRaw(me, ts, fmt.Sprintf("first message, edit %d", i), nil)
		}
		_ = err // a refused edit (closing a closed bug) changes nothing, which is fine here
		if i%3 == 2 {
			_ = bc.CommitAsNeeded()
		}
	}
	rep.Case(strings.Join(c.Edits, ","), len(c.Edits) >= 2, []string{"snapshot-stability"}, c)
	for _, h := range helds {
		if got := snapshotSummary(h.snap); got != h.want {
			rep.Fail(tb, "C18/snapshot-handed-out-is-changed-by-a-later-edit", fmt.Sprintf("the snapshot taken before edit #%d (%s) reads differently after the later edits:\nwhen taken %s\nnow        %s", h.at, c.Edits[h.at], h.want, got), c)
			return
		}
	}
}

func TestC18SnapshotStable(t *testing.T) {
	Drive(t, "C18", genC18Stable, runC18Stable)
}
