package harness

import (
	"bytes"
	"os"
	"os/exec"
	"path/filepath"
	"runtime"
	"strconv"
	"strings"
	"time"
)

// CLIResult is the outcome of one run of the real git-bug binary.
type CLIResult struct {
	Out  string
	Code int
}

// CLIPath is the binary built by the driver from /repo's working tree.
func CLIPath() string {
	if p := os.Getenv("VERIF_CLI"); p != "" {
		return p
	}
	wd, _ := os.Getwd()
	return filepath.Join(wd, "bin", "git-bug")
}

// RunCLI runs git-bug in dir. HOME comes from the environment the driver prepared.
func RunCLI(dir string, args ...string) CLIResult {
	cmd := exec.Command(CLIPath(), args...)
	cmd.Dir = dir
	var buf bytes.Buffer
	cmd.Stdout, cmd.Stderr = &buf, &buf
	cmd.Stdin = strings.NewReader("")
	cmd.Env = append(os.Environ(), "GIT_CONFIG_NOSYSTEM=1", "NO_COLOR=1", "TERM=dumb")
	// a command blocked for a minute (e.g. on a file lock held by another process) is killed: outcome "timeout"
	if err := cmd.Start(); err != nil {
		return CLIResult{Out: err.Error(), Code: -1}
	}
	done := make(chan error, 1)
	go func() { done <- cmd.Wait() }()
	var err error
	select {
	case err = <-done:
	case <-time.After(60 * time.Second):
		_ = cmd.Process.Kill()
		<-done
		return CLIResult{Out: buf.String() + "\nHARNESS: command killed after 60s without terminating", Code: -2}
	}
	res := CLIResult{Out: buf.String()}
	if err != nil {
		if ee, ok := err.(*exec.ExitError); ok {
			res.Code = ee.ExitCode()
		} else {
			res.Code = -1
			res.Out += "\n" + err.Error()
		}
	}
	return res
}

// RunGit runs stock git in dir.
func RunGit(dir string, args ...string) CLIResult {
	cmd := exec.Command("git", args...)
	cmd.Dir = dir
	var buf bytes.Buffer
	cmd.Stdout, cmd.Stderr = &buf, &buf
	cmd.Env = append(os.Environ(), "GIT_CONFIG_NOSYSTEM=1", "GIT_TERMINAL_PROMPT=0", "LC_ALL=C")
	err := cmd.Run()
	res := CLIResult{Out: buf.String()}
	if err != nil {
		if ee, ok := err.(*exec.ExitError); ok {
			res.Code = ee.ExitCode()
		} else {
			res.Code = -1
			res.Out += "\n" + err.Error()
		}
	}
	return res
}

// DeadenLock makes the lock file of a repository look like the one a killed process leaves behind: the very bytes
// the holder wrote, with the pid replaced by one that is not running (the harness simulates the death of a
// process inside its own, live, process). Without a lock file it does nothing.
func DeadenLock(repoPath string) {
	p := filepath.Join(repoPath, ".git", "git-bug", "lock")
	b, err := os.ReadFile(p)
	if err != nil {
		return
	}
	start, end := -1, -1
	for i, c := range b {
		if c >= '0' && c <= '9' {
			if start < 0 {
				start = i
			}
			end = i + 1
		} else if start >= 0 {
			break
		}
	}
	if start < 0 {
		return
	}
	dead := 4194000
	for ; dead > 300000; dead-- {
		if _, err := os.Stat("/proc/" + strconv.Itoa(dead)); err != nil {
			break
		}
	}
	out := append(append(append([]byte(nil), b[:start]...), []byte(strconv.Itoa(dead))...), b[end:]...)
	_ = os.WriteFile(p, out, 0644)
}

// goid is the id of the calling goroutine, as the runtime prints it.
func goid() string {
	var buf [64]byte
	n := runtime.Stack(buf[:], false)
	f := bytes.Fields(buf[:n])
	if len(f) > 1 {
		return string(f[1])
	}
	return ""
}
