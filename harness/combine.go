package harness

import "github.com/MichaelMure/git-bug/entity"

// combine is only used to map a timeline item's combined id back to an
// operation id (the real CombineIds is itself under test in C13; here any
// injective function of the pair would do, so using the real one is harmless).
func combine(bugId, opId entity.Id) entity.CombinedId { return entity.CombineIds(bugId, opId) }
