package harness

import (
	"encoding/base64"
	"fmt"
	"os"
	"sort"
	"strings"
	"testing"

	"pgregory.net/rapid"

	"github.com/MichaelMure/git-bug/cache"
	"github.com/MichaelMure/git-bug/entities/bug"
	"github.com/MichaelMure/git-bug/entities/identity"
	"github.com/MichaelMure/git-bug/entity"
	"github.com/MichaelMure/git-bug/repository"

	"verif/harness/internal/entropy"
	"verif/harness/internal/ondisk"
	"verif/harness/internal/report"
)

// C13: id prefixes and combined comment ids resolve to exactly the right target.

// the documented interleaving (doc comment of entity.CombineIds)
const c13Format = "PSPSPSPPPSPPPPSPPPPSPPPPSPPPPSPPPPSPPPPSPPPPSPPPPSPPPPSPPPPSPPPP"

func refCombine(p, s string) string {
	var sb strings.Builder
	pi, si := 0, 0
	for i := 0; i < 64; i++ {
		if c13Format[i] == 'P' {
			sb.WriteByte(p[pi])
			pi++
		} else {
			sb.WriteByte(s[si])
			si++
		}
	}
	return sb.String()
}

func refSplitCounts(n int) (np, ns int) {
	for i := 0; i < n; i++ {
		if c13Format[i] == 'P' {
			np++
		} else {
			ns++
		}
	}
	return
}

type c13Pair struct {
	P string `json:"p"`
	S string `json:"s"`
}

func genHexId() *rapid.Generator[string] {
	return rapid.StringOfN(rapid.SampledFrom([]rune("0123456789abcdef")), 64, 64, 64)
}

func TestC13Interleave(t *testing.T) {
	gen := func(t *rapid.T) c13Pair {
		p := genHexId().Draw(t, "p")
		s := genHexId().Draw(t, "s")
		if rapid.IntRange(0, 3).Draw(t, "similar") == 0 {
			k := rapid.IntRange(0, 64).Draw(t, "k")
			s = p[:k] + s[k:] // ids that share a prefix: a swapped position would go unnoticed with unrelated ids only by luck
		}
		return c13Pair{p, s}
	}
	Drive(t, "C13", gen, func(tb report.TB, rep *report.Reporter, c c13Pair) {
		rep.Case(fmt.Sprintf("pair|shared%d", commonPrefix(strings.Split(c.P, ""), strings.Split(c.S, ""))), true, []string{"interleave"}, c)
		rep.Count(64, "prefix-lengths")
		combined := string(entity.CombineIds(entity.Id(c.P), entity.Id(c.S)))
		if combined != refCombine(c.P, c.S) {
			rep.Fail(tb, "C13/combine-does-not-follow-documented-pattern", fmt.Sprintf("p=%s\ns=%s\ngot  %s\nwant %s", c.P, c.S, combined, refCombine(c.P, c.S)), c)
			return
		}
		if len(combined) != 64 {
			rep.Fail(tb, "C13/combined-length", fmt.Sprint(len(combined)), c)
			return
		}
		lastP, lastS := 0, 0
		for n := 0; n <= 64; n++ {
			gp, gs := entity.SeparateIds(combined[:n])
			np, ns := refSplitCounts(n)
			if gp != c.P[:np] || gs != c.S[:ns] {
				rep.Fail(tb, "C13/prefix-does-not-split-into-prefixes", fmt.Sprintf("prefix length %d of %s: got (%q,%q) want (%q,%q)", n, combined, gp, gs, c.P[:np], c.S[:ns]), c)
				return
			}
			if np+ns != n || np < lastP || ns < lastS {
				rep.Fail(tb, "C13/split-not-monotone", fmt.Sprint(n), c)
				return
			}
			lastP, lastS = np, ns
		}
		for n, want := range map[int][2]int{5: {3, 2}, 7: {4, 3}, 10: {6, 4}, 16: {11, 5}, 64: {50, 14}} {
			gp, gs := entity.SeparateIds(combined[:n])
			if len(gp) != want[0] || len(gs) != want[1] {
				rep.Fail(tb, "C13/documented-breakdown", fmt.Sprintf("prefix %d: %dP %dS, documented %dP %dS", n, len(gp), len(gs), want[0], want[1]), c)
				return
			}
		}
	})
}

// ---------------------------------------------------------------- populations with engineered shared prefixes

type c13Bug struct {
	Prefix   string   `json:"prefix"`   // the bug id is ground to start with this (0..3 hex chars)
	Comments []string `json:"comments"` // prefixes the comment operation ids are ground to
}

type c13Pop struct {
	Seed uint64   `json:"seed"`
	Bugs []c13Bug `json:"bugs"`
	// PackAt: before bug #PackAt is written, stock git packs every reference (what `git gc` does); the later bugs
	// and one more identity are loose references again. 0 = never.
	PackAt int `json:"pack_at,omitempty"`
}

func genC13Pop(t *rapid.T) c13Pop {
	c := c13Pop{Seed: rapid.Uint64().Draw(t, "seed")}
	hex := rapid.SampledFrom([]string{"a", "b", "7"})
	prefix := rapid.Custom(func(t *rapid.T) string {
		n := rapid.IntRange(0, 3).Draw(t, "plen")
		return strings.Join(rapid.SliceOfN(hex, n, n).Draw(t, "pchars"), "")
	})
	nb := rapid.IntRange(2, Scale(8, 12)).Draw(t, "nBugs")
	for i := 0; i < nb; i++ {
		b := c13Bug{Prefix: prefix.Draw(t, "prefix")}
		nc := rapid.IntRange(0, 5).Draw(t, "nComments")
		for k := 0; k < nc; k++ {
			cp := ""
			if rapid.Bool().Draw(t, "ground") {
				cp = strings.Join(rapid.SliceOfN(hex, 1, 2).Draw(t, "cchars"), "")
			}
			b.Comments = append(b.Comments, cp)
		}
		c.Bugs = append(c.Bugs, b)
	}
	if rapid.IntRange(0, 2).Draw(t, "packed") == 0 {
		c.PackAt = rapid.IntRange(1, nb).Draw(t, "packAt")
	}
	return c
}

func runC13Pop(tb report.TB, rep *report.Reporter, c c13Pop) {
	entropy.Seed(c.Seed)
	dir := mkdirTemp("c13-")
	defer os.RemoveAll(dir)
	repo, err := repository.InitGoGitRepo(dir, "git-bug")
	if err != nil {
		tb.Fatalf("harness: %v", err)
	}
	aid, _, _, err := ondisk.WriteIdentity(repo, "", []ondisk.IdentityVersion{{Version: 2, UnixTime: 1600000000, Name: "prefix author", Nonce: NonceFor(c.Seed, 9_000_000)}})
	if err != nil {
		tb.Fatalf("harness: %v", err)
	}
	author, err := identity.ReadLocal(repo, entity.Id(aid))
	if err != nil {
		tb.Fatalf("harness: %v", err)
	}
	if err := identity.SetUserIdentity(repo, author); err != nil {
		tb.Fatalf("harness: %v", err)
	}
	// ---- population with ground ids, written through the dag API
	type comment struct{ bugId, opId, combined string }
	var bugIds []string
	var comments []comment
	ctr := 0
	packRefs := func() {
		if res := RunGit(dir, "pack-refs", "--all", "--prune"); res.Code != 0 {
			tb.Fatalf("harness: pack-refs: %s", res.Out)
		}
		// and a reference that is loose again and sorts after git-bug's bugs
		if _, _, _, err := ondisk.WriteIdentity(repo, "", []ondisk.IdentityVersion{{Version: 2, UnixTime: 1600000001, Name: "late comer", Nonce: NonceFor(c.Seed, 9_000_001)}}); err != nil {
			tb.Fatalf("harness: %v", err)
		}
	}
	for bi, pb := range c.Bugs {
		if c.PackAt > 0 && bi == c.PackAt {
			packRefs()
		}
		var create *bug.CreateOperation
		for {
			ctr++
			create = bug.NewCreateOp(author, int64(1000+bi), fmt.Sprintf("bug %d", bi), "first message", nil)
			create.Nonce = NonceFor(c.Seed, 9_100_000+ctr)
			if strings.HasPrefix(string(create.Id()), pb.Prefix) {
				break
			}
		}
		b := bug.NewBug()
		b.Append(create)
		bid := string(b.Id())
		bugIds = append(bugIds, bid)
		comments = append(comments, comment{bid, bid, refCombine(bid, bid)})
		for ci, cp := range pb.Comments {
			var op *bug.AddCommentOperation
			for {
				ctr++
				op = bug.NewAddCommentOp(author, int64(2000+ci), fmt.Sprintf("comment %d", ci), nil)
				op.Nonce = NonceFor(c.Seed, 9_100_000+ctr)
				if strings.HasPrefix(string(op.Id()), cp) {
					break
				}
			}
			b.Append(op)
			comments = append(comments, comment{bid, string(op.Id()), refCombine(bid, string(op.Id()))})
		}
		if err := b.Commit(repo); err != nil {
			tb.Fatalf("harness: %v", err)
		}
	}
	if c.Seed%2 == 0 {
		// one bug written by another implementation of the documented format: indented JSON, other key order. Its
		// ids are the hashes of the bytes that are stored.
		n1 := base64.StdEncoding.EncodeToString(NonceFor(c.Seed, 9_200_000))
		n2 := base64.StdEncoding.EncodeToString(NonceFor(c.Seed, 9_200_001))
		rawCreate := fmt.Sprintf("{\n    \"title\": \"written elsewhere\",\n    \"message\": \"first message\",\n    \"nonce\": %q,\n    \"timestamp\": 1500,\n    \"type\": 1\n  }", n1)
		rawComment := fmt.Sprintf("{\n    \"message\": \"a comment\",\n    \"nonce\": %q,\n    \"timestamp\": 1501,\n    \"type\": 3\n  }", n2)
		blob := fmt.Sprintf("{\n  \"author\": {\"id\": %q},\n  \"ops\": [\n  %s,\n  %s\n  ]\n}\n", aid, rawCreate, rawComment)
		fid, cid := ondisk.Sha([]byte(rawCreate)), ondisk.Sha([]byte(rawComment))
		h, err := ondisk.WritePack(repo, ondisk.PackSpec{OpsBlob: []byte(blob), Version: "4", EditClock: "900", CreateClock: "900"})
		if err != nil {
			tb.Fatalf("harness: %v", err)
		}
		if err := repo.UpdateRef("refs/bugs/"+fid, repository.Hash(h)); err != nil {
			tb.Fatalf("harness: %v", err)
		}
		bugIds = append(bugIds, fid)
		comments = append(comments, comment{fid, fid, refCombine(fid, fid)}, comment{fid, cid, refCombine(fid, cid)})
		rep.Class("a-bug-in-foreign-json-formatting", 1)
	}
	if c.PackAt > 0 && c.PackAt >= len(c.Bugs) {
		packRefs()
	}
	if c.PackAt > 0 {
		rep.Class("references-partly-packed", 1)
	}
	rc, err := cache.NewRepoCacheNoEvents(repo)
	if err != nil {
		tb.Fatalf("harness: cache: %v", err)
	}
	defer rc.Close()
	fail := func(sig, detail string) bool { return rep.Fail(tb, "C13/"+sig, detail, c) }

	matchSet := func(prefix string) []string {
		var out []string
		for _, id := range bugIds {
			if strings.HasPrefix(id, prefix) {
				out = append(out, id)
			}
		}
		sort.Strings(out)
		return out
	}
	checkBugPrefix := func(prefix string) bool {
		want := matchSet(prefix)
		b, err := rc.Bugs().ResolvePrefix(prefix)
		ex, err2 := rc.Bugs().ResolveExcerptPrefix(prefix)
		switch len(want) {
		case 1:
			if err != nil || string(b.Id()) != want[0] {
				return fail("unique-prefix-not-resolved", fmt.Sprintf("prefix %q: want %s, got %v (%v)", prefix, want[0], b, err))
			}
			if err2 != nil || string(ex.Id()) != want[0] {
				return fail("unique-prefix-excerpt-not-resolved", fmt.Sprintf("prefix %q: %v", prefix, err2))
			}
		case 0:
			if !entity.IsErrNotFound(err) || !entity.IsErrNotFound(err2) {
				return fail("no-match-is-not-not-found", fmt.Sprintf("prefix %q: %v / %v", prefix, err, err2))
			}
		default:
			for _, e := range []error{err, err2} {
				mm, ok := e.(*entity.ErrMultipleMatch)
				if !ok {
					return fail("ambiguous-prefix-not-multiple-match", fmt.Sprintf("prefix %q matches %d bugs, got %v", prefix, len(want), e))
				}
				got := sortedIds(mm.Matching)
				if strings.Join(got, ",") != strings.Join(want, ",") {
					return fail("multiple-match-lists-wrong-ids", fmt.Sprintf("prefix %q\nwant %v\ngot  %v", prefix, want, got))
				}
			}
		}
		return false
	}
	ambiguous := 0
	checked := 0
	otherHex := func(ch byte) byte {
		if ch == 'f' {
			return '0'
		}
		if ch == '9' {
			return 'a'
		}
		return ch + 1
	}
	for _, id := range bugIds {
		for n := 0; n <= 64; n++ {
			checked++
			if len(matchSet(id[:n])) > 1 {
				ambiguous++
			}
			if checkBugPrefix(id[:n]) {
				return
			}
			if n > 0 {
				// near miss: same prefix with the last character changed
				nm := id[:n-1] + string(otherHex(id[n-1]))
				if checkBugPrefix(nm) {
					return
				}
			}
		}
	}
	// identities resolve by prefix too. Creations that are refused (an avatar that is not a URL, a name of control
	// characters) leave nothing behind that could take part in the resolution
	idsBefore := len(rc.Identities().AllIds())
	for k, bad := range [][2]string{{"ghost", "not a url"}, {"ghost two", "http://x/\ny"}, {"ctrl\x07name", ""}, {"", ""}} {
		if _, err := rc.Identities().NewFull(bad[0], "ghost@example.org", "", bad[1], nil); err == nil {
			idsBefore++ // accepted after all: then it is a real identity
			_ = k
		}
	}
	if n := len(rc.Identities().AllIds()); n != idsBefore {
		if fail("refused-identity-creation-left-an-identity", fmt.Sprintf("%d identities are listed, %d exist", n, idsBefore)) {
			return
		}
	}
	for n := 0; n <= 64; n++ {
		if idsBefore > 1 && n < 8 {
			continue // several real identities: short prefixes may be ambiguous, which is not the subject here
		}
		if ex, err := rc.Identities().ResolveExcerptPrefix(aid[:n]); err != nil || string(ex.Id()) != aid {
			if fail("identity-excerpt-prefix-not-resolved", fmt.Sprintf("prefix %q: %v", aid[:n], err)) {
				return
			}
		}
		i, err := rc.Identities().ResolvePrefix(aid[:n])
		if err != nil || string(i.Id()) != aid {
			if fail("identity-prefix-not-resolved", fmt.Sprintf("prefix %q: %v", aid[:n], err)) {
				return
			}
		}
	}
	// ---- comments by combined id prefix
	for _, cm := range comments {
		real := string(entity.CombineIds(entity.Id(cm.bugId), entity.Id(cm.opId)))
		if real != cm.combined {
			if fail("combine-does-not-follow-documented-pattern", real+" vs "+cm.combined) {
				return
			}
		}
		for n := 0; n <= 64; n++ {
			prefix := cm.combined[:n]
			var want []comment
			for _, o := range comments {
				if strings.HasPrefix(o.combined, prefix) {
					want = append(want, o)
				}
			}
			checked++
			b, cid, err := rc.Bugs().ResolveComment(prefix)
			if len(want) == 1 {
				if err != nil || string(b.Id()) != want[0].bugId || string(cid) != want[0].combined {
					if fail("unique-comment-prefix-not-resolved", fmt.Sprintf("prefix %q (length %d) designates only comment %s of bug %s; got bug=%v comment=%s err=%v", prefix, n, want[0].opId[:8], want[0].bugId[:8], idOf(b), cid, err)) {
						return
					}
				}
			} else if err == nil {
				// several (or no) comments share the prefix: any answer is a wrong pair
				if fail("ambiguous-comment-prefix-resolved", fmt.Sprintf("prefix %q matches %d comments, resolved to %s / %s", prefix, len(want), idOf(b), cid)) {
					return
				}
			}
		}
	}
	rep.Class("prefixes-checked", checked)
	var spec []string
	for _, b := range c.Bugs {
		spec = append(spec, fmt.Sprintf("%s/%d", b.Prefix, len(b.Comments)))
	}
	sort.Strings(spec)
	rep.Case(fmt.Sprintf("pop|%s|amb%d", strings.Join(spec, ","), ambiguous/10), ambiguous > 0, []string{fmt.Sprintf("bugs:%d", len(bugIds)), fmt.Sprintf("comments:%d", len(comments)/5*5)}, c)
}

func idOf(b *cache.BugCache) string {
	if b == nil {
		return "<nil>"
	}
	return string(b.Id())
}

func TestC13Resolve(t *testing.T) {
	Drive(t, "C13", genC13Pop, runC13Pop)
}
