package harness

import (
	"fmt"
	"sort"
	"strings"
	"testing"

	"github.com/MichaelMure/git-bug/entity"

	"verif/harness/internal/ondisk"
	"verif/harness/internal/report"
)

// C02: a pull never loses operations nor breaks an entity; the merge report is truthful.

type pullVerdict struct {
	Sig, Detail string
}

func isSubsequence(sub, full []string) bool {
	i := 0
	for _, x := range full {
		if i < len(sub) && sub[i] == x {
			i++
		}
	}
	return i == len(sub)
}

func setOf(xs []string) map[string]bool {
	m := map[string]bool{}
	for _, x := range xs {
		m[x] = true
	}
	return m
}

func sameSet(a, b []string) bool {
	if len(a) != len(b) {
		return false
	}
	m := setOf(a)
	if len(m) != len(a) {
		return false
	}
	for _, x := range b {
		if !m[x] {
			return false
		}
	}
	return true
}

// checkPull is the C02 oracle for one pull. It returns the verdicts and the
// scenario classes met ("s4", "s5:1/3", ...).
func checkPull(w *World, p *PullReport) (bad []pullVerdict, scen []string) {
	r := w.Replicas[p.Replica]
	add := func(sig, detail string) { bad = append(bad, pullVerdict{sig, detail}) }

	for id, e := range p.RemoteErr {
		// honest worlds: the remote only holds what replicas pushed
		add("remote-unreadable/"+Normalize(e), fmt.Sprintf("bug %s on the remote: %s", id, e))
	}
	results := map[string]entity.MergeResult{}
	for _, res := range p.Results {
		if res.Err != nil {
			add("merge-error/"+Normalize(res.Err.Error()), fmt.Sprintf("bug %s: %v", res.Id, res.Err))
			continue
		}
		results[string(res.Id)] = res
	}
	// 1. everything readable before is readable after and kept its operations, in the same relative order
	for id, pre := range p.Pre {
		post, ok := p.Post[id]
		if !ok {
			add("entity-broken-by-pull/"+Normalize(p.PostErr[id]), fmt.Sprintf("bug %s was readable before the pull, after: %q", id, p.PostErr[id]))
			continue
		}
		ps := setOf(post)
		for _, x := range pre {
			if !ps[x] {
				add("pull-lost-operation", fmt.Sprintf("bug %s: operation %s present before the pull is gone\npre %v\npost %v", id, x, pre, post))
				break
			}
		}
		if !isSubsequence(pre, post) {
			add("pull-reordered-existing-operations", fmt.Sprintf("bug %s\npre %v\npost %v", id, pre, post))
		}
	}
	// 2. post = pre ∪ remote; remote-only entities now exist
	for id, rem := range p.RemoteOps {
		post, ok := p.Post[id]
		if !ok {
			if _, existed := p.Pre[id]; !existed {
				add("remote-entity-not-created/"+Normalize(p.PostErr[id]), fmt.Sprintf("bug %s exists on the remote, locally after pull: %q", id, p.PostErr[id]))
			}
			continue
		}
		union := append(append([]string(nil), p.Pre[id]...), rem...)
		union = dedup(union)
		if !sameSet(union, post) {
			add("post-is-not-union", fmt.Sprintf("bug %s\npre %v\nremote %v\npost %v", id, p.Pre[id], rem, post))
		}
	}
	for id := range p.PostErr {
		if _, existed := p.Pre[id]; !existed {
			if _, onRemote := p.RemoteOps[id]; !onRemote {
				add("unexpected-broken-entity/"+Normalize(p.PostErr[id]), id)
			}
		}
	}
	// 3. the report agrees with what changed
	for id, res := range results {
		pre, existed := p.Pre[id]
		refChanged := p.PreRefs["refs/bugs/"+id] != p.PostRefs["refs/bugs/"+id]
		rem := p.RemoteOps[id]
		remInPre := true
		ps := setOf(pre)
		for _, x := range rem {
			if !ps[x] {
				remInPre = false
			}
		}
		// classify the scenario from the commit graph (independent reader)
		sc := "s1"
		if existed {
			sc = scenarioOf(r, p.Remote, id, p.PreRefs["refs/bugs/"+id])
		}
		scen = append(scen, sc)
		switch res.Status {
		case entity.MergeStatusNew:
			if existed {
				add("report-new-but-existed", id)
			}
		case entity.MergeStatusNothing:
			if !existed {
				add("report-nothing-but-absent", id)
			}
			if refChanged {
				add("report-nothing-but-ref-changed", id)
			}
			if !remInPre {
				add("report-nothing-but-remote-had-more", fmt.Sprintf("bug %s pre %v remote %v", id, pre, rem))
			}
		case entity.MergeStatusUpdated:
			if !existed {
				add("report-updated-but-absent", id)
			}
			if !refChanged {
				add("report-updated-but-ref-unchanged", id)
			}
		case entity.MergeStatusInvalid:
			add("report-invalid-in-honest-world/"+Normalize(res.Reason), fmt.Sprintf("bug %s: %s", id, res.Reason))
		default:
			add("report-unknown-status", fmt.Sprint(res.Status))
		}
		if res.Status == entity.MergeStatusNew || res.Status == entity.MergeStatusUpdated {
			ent, ok := p.Entities[id]
			post := p.Post[id]
			if !ok {
				add("report-without-entity", id)
			} else if strings.Join(ent, ",") != strings.Join(post, ",") {
				add("returned-entity-is-not-the-merged-result/"+sc[:2], fmt.Sprintf("bug %s (%s)\nentity handed back %v\nstored after merge  %v", id, sc, ent, post))
			}
		}
	}
	// every remote entity got a report
	for id := range p.RemoteOps {
		if _, ok := results[id]; !ok {
			add("no-report-for-remote-entity", id)
		}
	}
	// 4. identities: same three clauses over version chains. Worlds are honest and an identity is only
	// edited by its owner, so local and remote chains are always prefix-comparable.
	isPrefix := func(a, b []string) bool {
		return len(a) <= len(b) && strings.Join(a, ",") == strings.Join(b[:len(a)], ",")
	}
	idResults := map[string]entity.MergeResult{}
	for _, res := range p.IdResults {
		if res.Err != nil {
			add("identity-merge-error/"+Normalize(res.Err.Error()), fmt.Sprintf("identity %s: %v", res.Id, res.Err))
			continue
		}
		idResults[string(res.Id)] = res
	}
	for id, pre := range p.IdPre {
		post, ok := p.IdPost[id]
		if !ok {
			add("identity-broken-by-pull", fmt.Sprintf("identity %s was readable before the pull", id))
			continue
		}
		if !isPrefix(pre, post) {
			add("pull-lost-identity-version", fmt.Sprintf("identity %s\npre %v\npost %v", id, pre, post))
		}
	}
	for id, rem := range p.IdRemote {
		pre, existed := p.IdPre[id]
		post, ok := p.IdPost[id]
		if !ok {
			add("remote-identity-not-created", id)
			continue
		}
		want := rem
		if existed && isPrefix(rem, pre) {
			want = pre
		} else if existed && !isPrefix(pre, rem) {
			// diverged (the identity was edited on two replicas): the remote is refused, the local is untouched,
			// and the merge goes on with the other identities
			scen = append(scen, "id-diverged")
			if strings.Join(post, ",") != strings.Join(pre, ",") {
				add("diverged-identity-changed-the-local-one", fmt.Sprintf("identity %s\npre %v\nremote %v\npost %v", id, pre, rem, post))
			}
			if res, reported := idResults[id]; !reported {
				add("no-report-for-remote-identity", id+" (diverged)")
			} else if res.Status != entity.MergeStatusInvalid {
				add("diverged-identity-not-reported-invalid", fmt.Sprintf("identity %s: status %v", id, res.Status))
			}
			continue
		}
		if strings.Join(post, ",") != strings.Join(want, ",") {
			add("identity-post-is-not-union", fmt.Sprintf("identity %s: %d version(s) before, remote has %d, after the pull %d\npre %v\nremote %v\npost %v", id, len(pre), len(rem), len(post), pre, rem, post))
		}
		res, reported := idResults[id]
		if !reported {
			add("no-report-for-remote-identity", id)
			continue
		}
		changed := strings.Join(pre, ",") != strings.Join(post, ",")
		switch res.Status {
		case entity.MergeStatusNew:
			if existed {
				add("identity-report-new-but-existed", id)
			}
		case entity.MergeStatusNothing:
			if !existed {
				add("identity-report-nothing-but-absent", id)
			} else if changed {
				add("identity-report-nothing-but-changed", id)
			} else if len(rem) > len(pre) {
				add("identity-report-nothing-but-remote-had-more", fmt.Sprintf("identity %s pre %v remote %v", id, pre, rem))
			}
		case entity.MergeStatusUpdated:
			if !existed {
				add("identity-report-updated-but-absent", id)
			} else if !changed {
				add("identity-report-updated-but-unchanged", id)
			}
			scen = append(scen, fmt.Sprintf("id-ff:+%d", len(rem)-len(pre)))
		case entity.MergeStatusInvalid:
			add("identity-report-invalid-in-honest-world/"+Normalize(res.Reason), fmt.Sprintf("identity %s: %s", id, res.Reason))
		}
		if res.Status == entity.MergeStatusNew || res.Status == entity.MergeStatusUpdated {
			if name, ok := p.IdEntityName[id]; !ok {
				add("identity-report-without-entity", id)
			} else if name != p.IdStoredName[id] {
				add("returned-identity-is-not-the-merged-result", fmt.Sprintf("identity %s: entity handed back has last name %q, the identity stored after the merge %q", id, name, p.IdStoredName[id]))
			}
		}
	}
	return bad, scen
}

// scenarioOf classifies (local head before, remote head) by ancestry.
func scenarioOf(r *Replica, remoteName, id, preHead string) string {
	remHead, err := r.Repo.ResolveRef("refs/remotes/" + remoteName + "/bugs/" + id)
	if err != nil {
		return "s?"
	}
	if string(remHead) == preHead {
		return "s2"
	}
	dl, err1 := ondisk.ReadDAGAt(r.Repo, preHead)
	dr, err2 := ondisk.ReadDAGAt(r.Repo, string(remHead))
	if err1 != nil || err2 != nil {
		return "s?"
	}
	if _, ok := dl.Packs[string(remHead)]; ok {
		return "s3"
	}
	if _, ok := dr.Packs[preHead]; ok {
		n := 0
		for h := range dr.Packs {
			if _, ok := dl.Packs[h]; !ok {
				n++
			}
		}
		if n > 9 {
			n = 9
		}
		return fmt.Sprintf("s4:+%d", n)
	}
	a, b := 0, 0
	for h := range dl.Packs {
		if _, ok := dr.Packs[h]; !ok {
			a++
		}
	}
	for h := range dr.Packs {
		if _, ok := dl.Packs[h]; !ok {
			b++
		}
	}
	if a > 9 {
		a = 9
	}
	if b > 9 {
		b = 9
	}
	return fmt.Sprintf("s5:%d/%d", a, b)
}

func runC02(tb report.TB, rep *report.Reporter, c worldCase) {
	w, err := NewWorldN(c.Replicas, c.Remotes, c.Seed)
	if err != nil {
		tb.Fatalf("harness: world: %v", err)
	}
	defer w.Close()
	var verdicts []pullVerdict
	var scen []string
	pulls := 0
	w.Monitor = func(w *World, p *PullReport) {
		pulls++
		bad, sc := checkPull(w, p)
		verdicts = append(verdicts, bad...)
		scen = append(scen, sc...)
	}
	finish := func(abandoned bool) {
		sort.Strings(scen)
		nontrivial := false
		for _, s := range scen {
			if strings.HasPrefix(s, "s4") || strings.HasPrefix(s, "s5") {
				nontrivial = true
			}
		}
		classes := dedup(scen)
		if abandoned {
			classes = append(classes, "abandoned")
		}
		rep.Class("pulls-monitored", pulls)
		rep.Case(fmt.Sprintf("%d|%s", c.Replicas, strings.Join(scen, " ")), nontrivial && !abandoned, classes, c)
	}
	step := func(i int, a Action) bool {
		err := w.Exec(a)
		if len(verdicts) > 0 {
			v := verdicts[0]
			if rep.Fail(tb, "C02/"+v.Sig, fmt.Sprintf("action #%d %s: %s", i, a, v.Detail), c) {
				finish(true)
				return false
			}
		}
		if err != nil {
			if ee, ok := err.(*ExecError); ok {
				if rep.Fail(tb, "C02/exec/"+ee.Sig, fmt.Sprintf("action #%d %s: %s", i, a, ee.Detail), c) {
					finish(true)
					return false
				}
			}
			tb.Fatalf("harness: %v", err)
		}
		return true
	}
	for i, a := range c.Actions {
		if !step(i, a) {
			return
		}
	}
	// a final round of pulls so that every replica meets the final remote state
	for r := range w.Replicas {
		for rem := range w.Remotes {
			if !step(len(c.Actions)+r, Action{Kind: "pull", R: r, Rem: rem}) {
				return
			}
		}
	}
	finish(false)
}

func TestC02Pull(t *testing.T) {
	Drive(t, "C02", genWorldCase, runC02)
}

// ---------------------------------------------------------------- C02 through the cache

// TestC02CachePull: the same clauses where the statement anchors them in the cache ("cache replaces its cached
// entity and excerpt by MergeResult.Entity"): after RepoCache.Pull returns, the bug the cache hands out
// (Resolve) lists exactly the operations the local ref holds, nothing that was there before is gone, and the
// excerpt counts the same comments. Histories run through the cache API on two replicas, with re-opened
// and rebuilt caches and small cache sizes in between.
func runC02Cache(tb report.TB, rep *report.Reporter, c c11Case) {
	w, err := NewCWorld(2, c.Seed)
	if err != nil {
		tb.Fatalf("harness: cworld: %v", err)
	}
	defer w.Close()
	pulls, updated, rebuilt := 0, 0, false
	finish := func(abandoned bool) {
		classes := []string{}
		if updated > 0 {
			classes = append(classes, "pull-updates-existing")
		}
		if rebuilt {
			classes = append(classes, "cache-rebuilt-before-a-pull")
		}
		if abandoned {
			classes = append(classes, "abandoned")
		}
		rep.Class("cache-pulls-monitored", pulls)
		rep.Case(cActionKinds(c.Actions), updated > 0 && !abandoned, classes, c)
	}
	opsOfCache := func(r *CReplica) (map[string][]string, *ExecError) {
		out := map[string][]string{}
		for _, id := range sortedIds(r.Cache.Bugs().AllIds()) {
			bc, err := r.Cache.Bugs().Resolve(entity.Id(id))
			if err != nil {
				return nil, &ExecError{"resolve/" + Normalize(err.Error()), id + ": " + err.Error()}
			}
			var ids []string
			for _, op := range bc.Snapshot().Operations {
				ids = append(ids, string(op.Id()))
			}
			out[id] = ids
		}
		return out, nil
	}
	for i, a := range c.Actions {
		r := w.R[a.R%len(w.R)]
		var pre map[string][]string
		if a.Kind == "pull" {
			var ee *ExecError
			if pre, ee = opsOfCache(r); ee != nil {
				if rep.Fail(tb, "C02/cache/before-pull/"+ee.Sig, ee.Detail, c) {
					finish(true)
					return
				}
			}
		}
		res, err := w.Exec(a)
		if err != nil {
			if ee, ok := err.(*ExecError); ok {
				if rep.Fail(tb, "C02/cache/exec/"+ee.Sig, fmt.Sprintf("action #%d %s r%d: %s", i, a.Kind, a.R, ee.Detail), c) {
					finish(true)
					return
				}
			}
			tb.Fatalf("harness: %v", err)
		}
		rebuilt = rebuilt || res.Rebuilt
		if a.Kind != "pull" {
			continue
		}
		r = w.R[a.R%len(w.R)]
		pulls++
		if res.PullUpdatedExisting {
			updated++
		}
		post, ee := opsOfCache(r)
		if ee != nil {
			if rep.Fail(tb, "C02/cache/after-pull/"+ee.Sig, ee.Detail, c) {
				finish(true)
				return
			}
		}
		stored, bad := readAllBugs(r.Repo)
		for id, e := range bad {
			if rep.Fail(tb, "C02/cache/stored-bug-unreadable-after-pull/"+Normalize(e), id+": "+e, c) {
				finish(true)
				return
			}
		}
		for id, before := range pre {
			after, ok := post[id]
			if !ok {
				if rep.Fail(tb, "C02/cache/bug-gone-after-pull", id, c) {
					finish(true)
					return
				}
				continue
			}
			if !isSubsequence(before, after) {
				if rep.Fail(tb, "C02/cache/pull-lost-or-reordered-operations", fmt.Sprintf("action #%d pull r%d bug %s\nbefore %v\nafter  %v", i, a.R, id, before, after), c) {
					finish(true)
					return
				}
			}
		}
		for id, inGit := range stored {
			inCache, ok := post[id]
			if !ok {
				if rep.Fail(tb, "C02/cache/stored-bug-unknown-to-the-cache-after-pull", id, c) {
					finish(true)
					return
				}
				continue
			}
			// staged (uncommitted) operations of this replica may follow what git holds
			if len(inCache) < len(inGit) || strings.Join(inCache[:len(inGit)], ",") != strings.Join(inGit, ",") {
				if rep.Fail(tb, "C02/cache/entity-kept-by-the-cache-is-not-the-merged-result", fmt.Sprintf("action #%d pull r%d bug %s: Resolve() hands out a bug that lacks what the pull stored\nlocal ref %v\ncache     %v", i, a.R, id, inGit, inCache), c) {
					finish(true)
					return
				}
			}
			if ex, err := r.Cache.Bugs().ResolveExcerpt(entity.Id(id)); err == nil {
				if bc, err := r.Cache.Bugs().Resolve(entity.Id(id)); err == nil && ex.LenComments != len(bc.Snapshot().Comments) {
					if rep.Fail(tb, "C02/cache/excerpt-not-replaced-by-the-merged-result", fmt.Sprintf("bug %s: excerpt counts %d comments, the bug has %d", id, ex.LenComments, len(bc.Snapshot().Comments)), c) {
						finish(true)
						return
					}
				}
			}
		}
	}
	finish(false)
}

func TestC02CachePull(t *testing.T) {
	Drive(t, "C02", genC11, runC02Cache)
}
