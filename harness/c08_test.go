package harness

import (
	"encoding/base64"
	"encoding/json"
	"fmt"
	"os"
	"strings"
	"sync"
	"testing"
	"time"

	gogit "github.com/go-git/go-git/v5"
	"github.com/go-git/go-git/v5/plumbing"
	"pgregory.net/rapid"

	"github.com/MichaelMure/git-bug/cache"
	"github.com/MichaelMure/git-bug/entities/bug"
	"github.com/MichaelMure/git-bug/entities/identity"
	"github.com/MichaelMure/git-bug/entity"
	"github.com/MichaelMure/git-bug/repository"
	"github.com/MichaelMure/git-bug/util/lamport"

	"verif/harness/internal/entropy"
	"verif/harness/internal/faultindex"
	"verif/harness/internal/ondisk"
	"verif/harness/internal/report"
)

// C08: commits by authors with signing keys must carry a valid signature.

type c08Version struct {
	Keys    []int `json:"keys"`    // indices into the key pool (0..2)
	Advance int   `json:"advance"` // how far the bugs-edit clock moves before this version is created (0 = not at all)
	// InPlace: when the number of keys stays the same, the mutator overwrites the slots of the key list it was
	// handed (a rotation "in the same slot") instead of assigning a new list
	InPlace bool `json:"in_place,omitempty"`
}

type c08Case struct {
	Seed         uint64       `json:"seed"`
	ClockAtFirst bool         `json:"clock_at_first"` // false: the identity is created before any bug clock exists
	Versions     []c08Version `json:"versions"`
	T            int          `json:"t"`       // logical edit time of the commit
	Variant      string       `json:"variant"` // right removed future stranger unsigned altered
	// Shape: which commit is the one under test. "" / "root": the first commit (create operation);
	// "empty-child" / "op-child": a correctly signed root at edit time 1, then the tested commit as its
	// child, with an empty operation pack (what a merge commit carries) or with one comment.
	Shape string `json:"shape,omitempty"`
	// Alter (variant altered): what is changed under the kept signature: "" / "tree", "parent" (child shapes: the
	// commit is re-created on top of another root), "date" (the author date)
	Alter string `json:"alter,omitempty"`
	Prop  string `json:"prop,omitempty"` // the property the case is reported under (C08 by default)
}

var c08Variants = []string{"right", "removed", "future", "stranger", "unsigned", "altered"}

func shapeName(s string) string {
	if s == "" {
		return "root"
	}
	return s
}

func genC08(t *rapid.T) c08Case {
	c := c08Case{Seed: rapid.Uint64().Draw(t, "seed"), ClockAtFirst: rapid.Bool().Draw(t, "clockAtFirst")}
	n := rapid.IntRange(1, 5).Draw(t, "nVersions")
	total := 1
	for i := 0; i < n; i++ {
		v := c08Version{Advance: rapid.IntRange(0, 4).Draw(t, "advance"), InPlace: rapid.Bool().Draw(t, "inPlace")}
		minKeys := 0
		if rapid.IntRange(0, 3).Draw(t, "keyed") > 0 {
			minKeys = 1
		}
		ks := rapid.SliceOfNDistinct(rapid.IntRange(0, 2), minKeys, 2, func(x int) int { return x }).Draw(t, "keys")
		v.Keys = ks
		total += v.Advance
		c.Versions = append(c.Versions, v)
	}
	c.T = rapid.IntRange(1, total+3).Draw(t, "t")
	c.Variant = rapid.SampledFrom(c08Variants).Draw(t, "variant")
	c.Shape = rapid.SampledFrom([]string{"root", "root", "empty-child", "op-child"}).Draw(t, "shape")
	c.Alter = rapid.SampledFrom([]string{"tree", "parent", "date"}).Draw(t, "alter")
	return c
}

var (
	c08PoolOnce sync.Once
	c08Pool     []*identity.Key // 0..2 may belong to the author, 3 is a stranger's
)

func keyPool() []*identity.Key {
	c08PoolOnce.Do(func() {
		entropy.Seed(0xC08)
		for i := 0; i < 4; i++ {
			c08Pool = append(c08Pool, identity.GenerateKey())
		}
	})
	return c08Pool
}

func runC08(tb report.TB, rep *report.Reporter, c c08Case) {
	pool := keyPool()
	entropy.Seed(c.Seed)
	dir := mkdirTemp("c08-")
	defer os.RemoveAll(dir)
	repo, err := repository.InitGoGitRepo(dir, "git-bug")
	if err != nil {
		tb.Fatalf("harness: %v", err)
	}
	defer repo.Close()
	prop := c.Prop
	if prop == "" {
		prop = "C08"
	}
	fail := func(sig, detail string) bool { return rep.Fail(tb, prop+"/"+sig, detail, c) }

	// ---- the author's version history through the real API, with the bugs-edit clock moved in between
	type refVersion struct {
		time uint64
		has  bool
		keys []int
	}
	var ref []refVersion
	clock := uint64(0)
	keysOf := func(ix []int) []*identity.Key {
		var out []*identity.Key
		for _, k := range ix {
			out = append(out, pool[k].Clone())
		}
		return out
	}
	var author *identity.Identity
	inPlaceRotations := 0
	for i, v := range c.Versions {
		adv := uint64(v.Advance)
		if i == 0 && c.ClockAtFirst && adv == 0 {
			adv = 1
		}
		if i == 0 && !c.ClockAtFirst {
			adv = 0
		}
		if adv > 0 {
			clock += adv
			if clock < 2 {
				clock = 2 // a fresh clock starts at 1; witnessing 1 would not create a different value
			}
			if err := repo.Witness("bugs-edit", lamport.Time(clock)); err != nil {
				tb.Fatalf("harness: %v", err)
			}
		}
		_, clockExists := mustClocks(repo)["bugs-edit"]
		if i == 0 {
			author, err = identity.NewIdentityFull(repo, "signer", "s@example.org", "", "", keysOf(v.Keys))
			if err != nil {
				tb.Fatalf("harness: %v", err)
			}
		} else {
			err = author.Mutate(repo, func(m *identity.Mutator) {
				nk := keysOf(v.Keys)
				if v.InPlace && len(nk) == len(m.Keys) && len(nk) > 0 && fmt.Sprint(v.Keys) != fmt.Sprint(c.Versions[i-1].Keys) {
					// a pure rotation: nothing but the keys changes, and they change in the slots of the list handed in
					for k := range nk {
						m.Keys[k] = nk[k]
					}
					inPlaceRotations++
				} else {
					m.Name = fmt.Sprintf("signer v%d", i)
					m.Keys = nk
				}
			})
			if err != nil {
				tb.Fatalf("harness: %v", err)
			}
		}
		if i > 0 && !author.NeedCommit() {
			// the mutator changed the keys (or the name) and Mutate recorded no new version
			fail("key-change-not-recorded", fmt.Sprintf("version %d: the mutator set keys %v (before: %v) and Mutate() added no version: the change of keys is lost, the old keys stay in force", i, v.Keys, c.Versions[i-1].Keys))
			return
		}
		if err := author.Commit(repo); err != nil {
			tb.Fatalf("harness: identity commit: %v", err)
		}
		rv := refVersion{keys: v.Keys}
		if clockExists {
			rv.time, rv.has = mustClocks(repo)["bugs-edit"], true
		}
		ref = append(ref, rv)
	}
	// reference: keys in force at logical time T
	inForceAt := func(T uint64) []int {
		var result []int
		var last uint64
		for _, v := range ref {
			t := v.time
			if !v.has {
				t = last
			}
			last = t
			if t > T {
				return result
			}
			result = v.keys
		}
		return result
	}
	T := uint64(c.T)
	child := c.Shape == "empty-child" || c.Shape == "op-child"
	if child {
		T++ // the root sits at edit time 1
	}
	inForce := inForceAt(T)
	has := func(set []int, k int) bool {
		for _, x := range set {
			if x == k {
				return true
			}
		}
		return false
	}
	// pick the signer the variant asks for
	signer := -1
	variant := c.Variant
	everBefore, everAfter := []int{}, []int{}
	{
		var last uint64
		for _, v := range ref {
			t := v.time
			if !v.has {
				t = last
			}
			last = t
			if t <= T {
				everBefore = append(everBefore, v.keys...)
			} else {
				everAfter = append(everAfter, v.keys...)
			}
		}
	}
	pick := func(cands []int, exclude []int) int {
		for _, k := range cands {
			if !has(exclude, k) {
				return k
			}
		}
		return -1
	}
	switch variant {
	case "right", "altered":
		if len(inForce) > 0 {
			signer = inForce[int(c.Seed%uint64(len(inForce)))]
		} else {
			variant = "unsigned"
		}
	case "removed":
		signer = pick(everBefore, inForce)
		if signer < 0 {
			variant = "stranger"
			signer = 3
		}
	case "future":
		signer = pick(everAfter, inForce)
		if signer < 0 {
			variant = "stranger"
			signer = 3
		}
	case "stranger":
		signer = 3
	}
	wantAccept := len(inForce) == 0 || ((variant == "right") && has(inForce, signer))

	// ---- the commit
	nonce := base64.StdEncoding.EncodeToString(NonceFor(c.Seed, 1))
	create := json.RawMessage(fmt.Sprintf(`{"type":1,"timestamp":1234,"nonce":%q,"title":"signed bug","message":"m","files":null}`, nonce))
	blob := ondisk.OpsBlob(string(author.Id()), []json.RawMessage{create})
	bugId := ondisk.Sha(create)
	empty, _ := repo.StoreData([]byte{})
	bh, _ := repo.StoreData(blob)
	entries := []repository.TreeEntry{
		{ObjectType: repository.Blob, Hash: empty, Name: "version-4"},
		{ObjectType: repository.Blob, Hash: bh, Name: "ops"},
		{ObjectType: repository.Blob, Hash: empty, Name: fmt.Sprintf("edit-clock-%d", T)},
		{ObjectType: repository.Blob, Hash: empty, Name: "create-clock-1"},
	}
	th, err := repo.StoreTree(entries)
	if err != nil {
		tb.Fatalf("harness: %v", err)
	}
	var commit, altRoot repository.Hash
	var parents []repository.Hash
	if child {
		// the root: edit time 1, signed by a key in force at that time (unsigned when there is none): always acceptable
		rootEntries := append([]repository.TreeEntry(nil), entries...)
		rootEntries[2].Name = "edit-clock-1"
		rth, err := repo.StoreTree(rootEntries)
		if err != nil {
			tb.Fatalf("harness: %v", err)
		}
		var root repository.Hash
		if at1 := inForceAt(1); len(at1) > 0 {
			root, err = repo.StoreSignedCommit(rth, pool[at1[0]].PGPEntity())
		} else {
			root, err = repo.StoreCommit(rth)
		}
		if err != nil {
			tb.Fatalf("harness: store root: %v", err)
		}
		parents = []repository.Hash{root}
		// another root with the same operations (same bug id), for the "parent" alteration
		if ath, err := repo.StoreTree(append(append([]repository.TreeEntry(nil), rootEntries...), repository.TreeEntry{ObjectType: repository.Blob, Hash: empty, Name: "zz-other-root"})); err == nil {
			if at1 := inForceAt(1); len(at1) > 0 {
				altRoot, _ = repo.StoreSignedCommit(ath, pool[at1[0]].PGPEntity())
			} else {
				altRoot, _ = repo.StoreCommit(ath)
			}
		}
		childBlob := ondisk.EmptyOpsBlob(string(author.Id()))
		if c.Shape == "op-child" {
			n2 := base64.StdEncoding.EncodeToString(NonceFor(c.Seed, 2))
			childBlob = ondisk.OpsBlob(string(author.Id()), []json.RawMessage{json.RawMessage(fmt.Sprintf(`{"type":3,"timestamp":1235,"nonce":%q,"message":"a comment","files":null}`, n2))})
		}
		cbh, _ := repo.StoreData(childBlob)
		entries = []repository.TreeEntry{
			{ObjectType: repository.Blob, Hash: empty, Name: "version-4"},
			{ObjectType: repository.Blob, Hash: cbh, Name: "ops"},
			{ObjectType: repository.Blob, Hash: empty, Name: fmt.Sprintf("edit-clock-%d", T)},
		}
		if th, err = repo.StoreTree(entries); err != nil {
			tb.Fatalf("harness: %v", err)
		}
	}
	if signer >= 0 {
		commit, err = repo.StoreSignedCommit(th, pool[signer].PGPEntity(), parents...)
	} else {
		commit, err = repo.StoreCommit(th, parents...)
	}
	if err != nil {
		tb.Fatalf("harness: store commit: %v", err)
	}
	alteration := ""
	if variant == "altered" {
		alteration = "tree"
		// keep the signature, change the content: another tree with the same meaning for the reader
		th2, err := repo.StoreTree(append(entries, repository.TreeEntry{ObjectType: repository.Blob, Hash: empty, Name: "zz-smuggled"}))
		if err != nil {
			tb.Fatalf("harness: %v", err)
		}
		gr, err := gogit.PlainOpen(dir)
		if err != nil {
			tb.Fatalf("harness: %v", err)
		}
		co, err := gr.CommitObject(plumbing.NewHash(string(commit)))
		if err != nil {
			tb.Fatalf("harness: %v", err)
		}
		switch {
		case c.Alter == "parent" && child && altRoot != "":
			co.ParentHashes = []plumbing.Hash{plumbing.NewHash(string(altRoot))}
			alteration = "parent"
		case c.Alter == "date":
			co.Author.When = co.Author.When.Add(-36 * time.Hour)
			co.Committer.When = co.Committer.When.Add(-36 * time.Hour)
			alteration = "date"
		default:
			co.TreeHash = plumbing.NewHash(string(th2))
		}
		obj := gr.Storer.NewEncodedObject()
		obj.SetType(plumbing.CommitObject)
		if err := co.Encode(obj); err != nil {
			tb.Fatalf("harness: %v", err)
		}
		h, err := gr.Storer.SetEncodedObject(obj)
		if err != nil {
			tb.Fatalf("harness: %v", err)
		}
		commit = repository.Hash(h.String())
	}

	// classification
	rel := "no-key-in-force"
	if len(inForce) > 0 {
		rel = "key-in-force"
	}
	pattern := []string{}
	for _, v := range ref {
		pattern = append(pattern, fmt.Sprintf("%d", len(v.keys)))
	}
	rep.Case(fmt.Sprintf("%s|%s|%s|clk%v|%s", strings.Join(pattern, ""), rel, variant+alteration, c.ClockAtFirst, shapeName(c.Shape)),
		len(inForce) > 0 && variant != "right",
		[]string{"variant:" + variant, rel, fmt.Sprintf("versions:%d", len(ref)), fmt.Sprintf("expect-accept:%v", wantAccept), "shape:" + shapeName(c.Shape), "altered:" + alteration, fmt.Sprintf("in-place-rotation:%v", inPlaceRotations > 0)}, c)

	detail := func(extra string) string {
		return fmt.Sprintf("versions (bugs-edit time / keys): %+v\ncommit at edit time %d, variant %s (signer key %d), keys in force %v, expected accept=%v\n%s", ref, T, variant, signer, inForce, wantAccept, extra)
	}
	// ---- local read
	if err := repo.UpdateRef("refs/bugs/"+bugId, commit); err != nil {
		tb.Fatalf("harness: %v", err)
	}
	got, rerr, panicked := safeRead(repo, bugId)
	_ = repo.RemoveRef("refs/bugs/" + bugId)
	if panicked != "" {
		if fail("read-panics/"+variant+"/"+Normalize(panicked), detail("bug.Read panicked: "+panicked)) {
			return
		}
	}
	if wantAccept && (rerr != nil || got == nil) {
		if fail("valid-commit-refused/"+variant+"/"+Normalize(fmt.Sprint(rerr)), detail(fmt.Sprint(rerr))) {
			return
		}
	}
	if !wantAccept && rerr == nil && panicked == "" {
		if fail("bad-signature-accepted/"+variant, detail("bug.Read returned the bug")) {
			return
		}
	}
	// ---- merge agrees
	if panicked == "" {
		if err := repo.UpdateRef("refs/remotes/origin/bugs/"+bugId, commit); err != nil {
			tb.Fatalf("harness: %v", err)
		}
		var mine *entity.MergeResult
		for res := range bug.MergeAll(repo, Resolvers(repo), "origin", author) {
			r := res
			if string(res.Id) == bugId {
				mine = &r
			}
		}
		local, _ := repo.RefExist("refs/bugs/" + bugId)
		if mine == nil {
			fail("merge-no-report", detail(""))
			return
		}
		accepted := mine.Err == nil && mine.Status == entity.MergeStatusNew
		if accepted != wantAccept {
			if fail("merge-disagrees/"+variant, detail(fmt.Sprintf("merge status=%v err=%v reason=%q", mine.Status, mine.Err, mine.Reason))) {
				return
			}
		}
		if local != accepted {
			fail("merge-ref-disagrees-with-report", detail(""))
			return
		}
	}
	if panicked != "" || prop != "C08" {
		return
	}
	// ---- a pull through the cache of another replica agrees. That replica met the author at the first version,
	// its cache was built then (or opened again since); the later versions and the commit arrive in one pull:
	// the keys in force are those of the history as it is after the pull.
	idRef := "refs/identities/" + string(author.Id())
	idCommits, err := repo.ListCommits(idRef)
	if err != nil || len(idCommits) == 0 {
		tb.Fatalf("harness: identity commits: %v", err)
	}
	first, last := idCommits[0], idCommits[len(idCommits)-1]
	if cm, err := repo.ReadCommit(first); err != nil || len(cm.Parents) != 0 {
		first, last = last, first
	}
	_ = repo.RemoveRef("refs/bugs/" + bugId)
	_ = repo.RemoveRef("refs/remotes/origin/bugs/" + bugId)
	if err := repo.UpdateRef(idRef, first); err != nil {
		tb.Fatalf("harness: %v", err)
	}
	hostDir := mkdirTemp("c08h-")
	defer os.RemoveAll(hostDir)
	host, err := repository.InitGoGitRepo(hostDir, "git-bug")
	if err != nil {
		tb.Fatalf("harness: %v", err)
	}
	defer host.Close()
	if err := host.AddRemote("origin", dir); err != nil {
		tb.Fatalf("harness: %v", err)
	}
	if err := identity.Pull(host, "origin"); err != nil {
		tb.Fatalf("harness: identity pull: %v", err)
	}
	hostUser, err := identity.NewIdentity(host, "host user", "h@example.org")
	if err == nil {
		err = hostUser.Commit(host)
	}
	if err == nil {
		err = identity.SetUserIdentity(host, hostUser)
	}
	if err != nil {
		tb.Fatalf("harness: host user: %v", err)
	}
	// in one case out of four one update of the identities' search index fails during the pull (the reference update
	// before it and everything after it work): the verdict on the commit does not depend on the search index
	fi := faultindex.New(host, "identities")
	rc, err := cache.NewRepoCacheNoEvents(fi)
	if err != nil {
		tb.Fatalf("harness: host cache: %v", err)
	}
	defer func() { _ = rc.Close() }()
	loaded := c.Seed%3 == 0
	if loaded {
		_, _ = rc.Identities().Resolve(author.Id())
	}
	if c.Seed%3 == 1 {
		// the cache is closed and opened again: loaded from its files this time
		_ = rc.Close()
		if rc, err = cache.NewRepoCacheNoEvents(fi); err != nil {
			tb.Fatalf("harness: host cache: %v", err)
		}
	}
	if err := repo.UpdateRef(idRef, last); err != nil {
		tb.Fatalf("harness: %v", err)
	}
	if err := repo.UpdateRef("refs/bugs/"+bugId, commit); err != nil {
		tb.Fatalf("harness: %v", err)
	}
	if _, err := rc.Fetch("origin"); err != nil {
		tb.Fatalf("harness: fetch: %v", err)
	}
	if (c.Seed/3)%4 == 0 {
		fi.Arm(int((c.Seed / 12) % 2))
	}
	var viaCache *entity.MergeResult
	for res := range rc.MergeAll("origin") {
		r := res
		if string(res.Id) == bugId {
			viaCache = &r
		}
	}
	rep.Class("pulled-through-a-cache-that-knew-the-first-version", 1)
	if fi.Failed > 0 {
		rep.Class("an-index-update-failed-during-that-pull", 1)
	}
	if viaCache == nil {
		fail("cache-pull-no-report", detail(""))
		return
	}
	if accepted := viaCache.Err == nil && viaCache.Status == entity.MergeStatusNew; accepted != wantAccept {
		fail("cache-pull-disagrees/"+variant, detail(fmt.Sprintf("the other replica's cache (author loaded: %v) pulls the identity's %d versions and the commit together: status=%v err=%v reason=%q", loaded, len(ref), viaCache.Status, viaCache.Err, viaCache.Reason)))
	}
}

func mustClocks(repo repository.ClockedRepo) map[string]uint64 {
	out := map[string]uint64{}
	cl, err := repo.AllClocks()
	if err != nil {
		return out
	}
	for n, c := range cl {
		out[n] = uint64(c.Time())
	}
	return out
}

func TestC08Signatures(t *testing.T) {
	Drive(t, "C08", genC08, runC08)
}

// TestC07SignedHistories: C07's clause "hostile data is reported invalid, the local refs stay as they were" for the
// one kind of hostile data the structural catalogue cannot express: commits attributed to an author who has a
// signing key in force, served unsigned, signed by a stranger or altered under a kept signature, as the first
// commit, as a child with operations or as a child with an empty pack. Same machinery as C08, reported as C07.
func TestC07SignedHistories(t *testing.T) {
	gen := func(t *rapid.T) c08Case {
		c := genC08(t)
		c.Prop = "C07"
		c.Variant = rapid.SampledFrom([]string{"unsigned", "stranger", "altered", "removed", "future"}).Draw(t, "hostileVariant")
		return c
	}
	Drive(t, "C07", gen, runC08)
}
