package harness

import (
	"crypto/sha256"
	"encoding/base64"
	"encoding/hex"
	"fmt"
	"net/http"
	"strconv"
	"strings"
	"testing"

	"pgregory.net/rapid"

	"github.com/gorilla/mux"

	"github.com/MichaelMure/git-bug/api/auth"
	"github.com/MichaelMure/git-bug/api/graphql"
	"github.com/MichaelMure/git-bug/api/graphql/connections"
	"github.com/MichaelMure/git-bug/api/graphql/models"
	"github.com/MichaelMure/git-bug/cache"
	"github.com/MichaelMure/git-bug/entities/bug"
	"github.com/MichaelMure/git-bug/entities/identity"
	"github.com/MichaelMure/git-bug/entity"
	"github.com/MichaelMure/git-bug/entity/dag"
	"github.com/MichaelMure/git-bug/repository"

	"verif/harness/internal/faultrepo"
	"verif/harness/internal/report"
)

// C20 layer 1: the generated Relay pagination functions against a reference pager.

type pageReq struct {
	N      int     `json:"n"`
	First  *int    `json:"first"`
	Last   *int    `json:"last"`
	After  *string `json:"after"`
	Before *string `json:"before"`
	Type   string  `json:"type"`
}

type pageRes struct {
	Idx     []int // index in the source of every returned node, from the edges
	NodeIdx []int // same, from the nodes list
	Cursors []string
	Info    models.PageInfo
	Total   int
}

// refCursor is an independent encoding of the documented cursor format.
func refCursor(k int) string {
	return base64.StdEncoding.EncodeToString([]byte("cursor:" + strconv.Itoa(k)))
}

func fakeId(i int) entity.Id {
	h := sha256.Sum256([]byte("id-" + strconv.Itoa(i)))
	return entity.Id(hex.EncodeToString(h[:]))
}

var c20Identities []identity.Interface

func c20Identity(i int) identity.Interface {
	for len(c20Identities) <= i {
		id, err := identity.NewIdentity(repository.NewMockRepoClock(), "n"+strconv.Itoa(len(c20Identities)), "")
		if err != nil {
			panic(err)
		}
		c20Identities = append(c20Identities, id)
	}
	return c20Identities[i]
}

// pagers wraps each generated connection function with the edge/connection
// makers the resolvers use, over a synthetic list of length n whose element i
// can be recognised.
var c20Pagers = map[string]func(n int, in models.ConnectionInput) (pageRes, error){
	"label": func(n int, in models.ConnectionInput) (pageRes, error) {
		src := make([]bug.Label, n)
		for i := range src {
			src[i] = bug.Label(strconv.Itoa(i))
		}
		edger := func(v bug.Label, offset int) connections.Edge {
			return models.LabelEdge{Node: v, Cursor: connections.OffsetToCursor(offset)}
		}
		maker := func(edges []*models.LabelEdge, nodes []bug.Label, info *models.PageInfo, total int) (*models.LabelConnection, error) {
			return &models.LabelConnection{Edges: edges, Nodes: nodes, PageInfo: info, TotalCount: total}, nil
		}
		con, err := connections.LabelCon(src, edger, maker, in)
		if err != nil {
			return pageRes{}, err
		}
		r := pageRes{Info: *con.PageInfo, Total: con.TotalCount}
		for _, e := range con.Edges {
			k, _ := strconv.Atoi(string(e.Node))
			r.Idx = append(r.Idx, k)
			r.Cursors = append(r.Cursors, e.Cursor)
		}
		for _, nd := range con.Nodes {
			k, _ := strconv.Atoi(string(nd))
			r.NodeIdx = append(r.NodeIdx, k)
		}
		return r, nil
	},
	"comment": func(n int, in models.ConnectionInput) (pageRes, error) {
		src := make([]bug.Comment, n)
		for i := range src {
			src[i] = bug.Comment{Message: strconv.Itoa(i)}
		}
		edger := func(v bug.Comment, offset int) connections.Edge {
			return models.CommentEdge{Node: &v, Cursor: connections.OffsetToCursor(offset)}
		}
		maker := func(edges []*models.CommentEdge, nodes []bug.Comment, info *models.PageInfo, total int) (*models.CommentConnection, error) {
			var out []*bug.Comment
			for _, c := range nodes {
				c := c
				out = append(out, &c)
			}
			return &models.CommentConnection{Edges: edges, Nodes: out, PageInfo: info, TotalCount: total}, nil
		}
		con, err := connections.CommentCon(src, edger, maker, in)
		if err != nil {
			return pageRes{}, err
		}
		r := pageRes{Info: *con.PageInfo, Total: con.TotalCount}
		for _, e := range con.Edges {
			k, _ := strconv.Atoi(e.Node.Message)
			r.Idx = append(r.Idx, k)
			r.Cursors = append(r.Cursors, e.Cursor)
		}
		for _, nd := range con.Nodes {
			k, _ := strconv.Atoi(nd.Message)
			r.NodeIdx = append(r.NodeIdx, k)
		}
		return r, nil
	},
	"timeline": func(n int, in models.ConnectionInput) (pageRes, error) {
		src := make([]bug.TimelineItem, n)
		for i := range src {
			src[i] = &bug.SetTitleTimelineItem{Title: strconv.Itoa(i)}
		}
		edger := func(v bug.TimelineItem, offset int) connections.Edge {
			return models.TimelineItemEdge{Node: v, Cursor: connections.OffsetToCursor(offset)}
		}
		maker := func(edges []*models.TimelineItemEdge, nodes []bug.TimelineItem, info *models.PageInfo, total int) (*models.TimelineItemConnection, error) {
			return &models.TimelineItemConnection{Edges: edges, Nodes: nodes, PageInfo: info, TotalCount: total}, nil
		}
		con, err := connections.TimelineItemCon(src, edger, maker, in)
		if err != nil {
			return pageRes{}, err
		}
		r := pageRes{Info: *con.PageInfo, Total: con.TotalCount}
		for _, e := range con.Edges {
			k, _ := strconv.Atoi(e.Node.(*bug.SetTitleTimelineItem).Title)
			r.Idx = append(r.Idx, k)
			r.Cursors = append(r.Cursors, e.Cursor)
		}
		for _, nd := range con.Nodes {
			k, _ := strconv.Atoi(nd.(*bug.SetTitleTimelineItem).Title)
			r.NodeIdx = append(r.NodeIdx, k)
		}
		return r, nil
	},
	"operation": func(n int, in models.ConnectionInput) (pageRes, error) {
		src := make([]dag.Operation, n)
		for i := range src {
			src[i] = dag.NewNoOpOp[*bug.Snapshot](bug.NoOpOp, nil, int64(i+1))
		}
		edger := func(v dag.Operation, offset int) connections.Edge {
			return models.OperationEdge{Node: v, Cursor: connections.OffsetToCursor(offset)}
		}
		maker := func(edges []*models.OperationEdge, nodes []dag.Operation, info *models.PageInfo, total int) (*models.OperationConnection, error) {
			return &models.OperationConnection{Edges: edges, Nodes: nodes, PageInfo: info, TotalCount: total}, nil
		}
		con, err := connections.OperationCon(src, edger, maker, in)
		if err != nil {
			return pageRes{}, err
		}
		r := pageRes{Info: *con.PageInfo, Total: con.TotalCount}
		for _, e := range con.Edges {
			r.Idx = append(r.Idx, int(e.Node.Time().Unix())-1)
			r.Cursors = append(r.Cursors, e.Cursor)
		}
		for _, nd := range con.Nodes {
			r.NodeIdx = append(r.NodeIdx, int(nd.Time().Unix())-1)
		}
		return r, nil
	},
	"identity": func(n int, in models.ConnectionInput) (pageRes, error) {
		src := make([]models.IdentityWrapper, n)
		for i := range src {
			src[i] = models.NewLoadedIdentity(c20Identity(i))
		}
		edger := func(v models.IdentityWrapper, offset int) connections.Edge {
			return models.IdentityEdge{Node: v, Cursor: connections.OffsetToCursor(offset)}
		}
		maker := func(edges []*models.IdentityEdge, nodes []models.IdentityWrapper, info *models.PageInfo, total int) (*models.IdentityConnection, error) {
			return &models.IdentityConnection{Edges: edges, Nodes: nodes, PageInfo: info, TotalCount: total}, nil
		}
		con, err := connections.IdentityCon(src, edger, maker, in)
		if err != nil {
			return pageRes{}, err
		}
		r := pageRes{Info: *con.PageInfo, Total: con.TotalCount}
		for _, e := range con.Edges {
			k, _ := strconv.Atoi(e.Node.Name()[1:])
			r.Idx = append(r.Idx, k)
			r.Cursors = append(r.Cursors, e.Cursor)
		}
		for _, nd := range con.Nodes {
			k, _ := strconv.Atoi(nd.Name()[1:])
			r.NodeIdx = append(r.NodeIdx, k)
		}
		return r, nil
	},
	"lazybug": func(n int, in models.ConnectionInput) (pageRes, error) {
		src := make([]entity.Id, n)
		pos := map[entity.Id]int{}
		for i := range src {
			src[i] = fakeId(i)
			pos[src[i]] = i
		}
		edger := func(v entity.Id, offset int) connections.Edge {
			return connections.LazyBugEdge{Id: v, Cursor: connections.OffsetToCursor(offset)}
		}
		var r pageRes
		maker := func(edges []*connections.LazyBugEdge, nodes []entity.Id, info *models.PageInfo, total int) (*models.BugConnection, error) {
			r = pageRes{Info: *info, Total: total}
			for _, e := range edges {
				r.Idx = append(r.Idx, pos[e.Id])
				r.Cursors = append(r.Cursors, e.Cursor)
			}
			for _, nd := range nodes {
				r.NodeIdx = append(r.NodeIdx, pos[nd])
			}
			return &models.BugConnection{PageInfo: info, TotalCount: total}, nil
		}
		_, err := connections.LazyBugCon(src, edger, maker, in)
		return r, err
	},
	"lazyidentity": func(n int, in models.ConnectionInput) (pageRes, error) {
		src := make([]entity.Id, n)
		pos := map[entity.Id]int{}
		for i := range src {
			src[i] = fakeId(i)
			pos[src[i]] = i
		}
		edger := func(v entity.Id, offset int) connections.Edge {
			return connections.LazyIdentityEdge{Id: v, Cursor: connections.OffsetToCursor(offset)}
		}
		var r pageRes
		maker := func(edges []*connections.LazyIdentityEdge, nodes []entity.Id, info *models.PageInfo, total int) (*models.IdentityConnection, error) {
			r = pageRes{Info: *info, Total: total}
			for _, e := range edges {
				r.Idx = append(r.Idx, pos[e.Id])
				r.Cursors = append(r.Cursors, e.Cursor)
			}
			for _, nd := range nodes {
				r.NodeIdx = append(r.NodeIdx, pos[nd])
			}
			return &models.IdentityConnection{PageInfo: info, TotalCount: total}, nil
		}
		_, err := connections.LazyIdentityCon(src, edger, maker, in)
		return r, err
	},
}

var c20Types = []string{"label", "comment", "timeline", "operation", "identity", "lazybug", "lazyidentity"}

// cursorPos decodes a cursor with the documented format; ok only for 0<=k<n.
func cursorPos(c *string, n int) (pos int, given, valid bool) {
	if c == nil {
		return 0, false, false
	}
	for k := 0; k < n; k++ {
		if *c == refCursor(k) {
			return k, true, true
		}
	}
	return 0, true, false
}

// c20Check runs one request and returns ("", "") or (signature aspect, detail).
func c20Check(req pageReq) (string, string, bool) {
	in := models.ConnectionInput{First: req.First, Last: req.Last, After: req.After, Before: req.Before}
	res, err := c20Pagers[req.Type](req.N, in)
	n := req.N

	negative := (req.First != nil && *req.First < 0) || (req.Last != nil && *req.Last < 0)
	if negative {
		if err == nil {
			return "negative-size-accepted", fmt.Sprintf("%+v", res), false
		}
		return "", "", false
	}
	a, aGiven, aValid := cursorPos(req.After, n)
	b, bGiven, bValid := cursorPos(req.Before, n)
	strict := (!aGiven || aValid) && (!bGiven || bValid)
	if aValid && bValid && b <= a {
		strict = false // crossing window: the statement does not define it
	}
	if err != nil {
		if strict {
			return "valid-request-refused", err.Error(), false
		}
		return "", "", false // rejected: allowed for undecodable / out-of-range cursors
	}

	// always: contiguous, in order, duplicate free, inside the list; cursors designate positions; count
	if res.Total != n {
		return "total-count", fmt.Sprintf("want %d got %d", n, res.Total), false
	}
	if len(res.Idx) != len(res.NodeIdx) {
		return "nodes-vs-edges", fmt.Sprintf("edges %v nodes %v", res.Idx, res.NodeIdx), false
	}
	for i, k := range res.Idx {
		if k < 0 || k >= n {
			return "element-outside-list", fmt.Sprintf("%v", res.Idx), false
		}
		if i > 0 && k != res.Idx[i-1]+1 {
			return "not-contiguous-in-order", fmt.Sprintf("%v", res.Idx), false
		}
		if res.NodeIdx[i] != k {
			return "nodes-vs-edges", fmt.Sprintf("edges %v nodes %v", res.Idx, res.NodeIdx), false
		}
		if res.Cursors[i] != refCursor(k) {
			return "edge-cursor", fmt.Sprintf("element %d has cursor %q want %q", k, res.Cursors[i], refCursor(k)), false
		}
	}
	if len(res.Idx) > 0 {
		if res.Info.StartCursor != res.Cursors[0] || res.Info.EndCursor != res.Cursors[len(res.Cursors)-1] {
			return "start-end-cursor", fmt.Sprintf("start %q end %q edges %v", res.Info.StartCursor, res.Info.EndCursor, res.Cursors), false
		}
	}
	if req.First != nil && len(res.Idx) > *req.First {
		return "more-than-first", fmt.Sprintf("first=%d got %v", *req.First, res.Idx), false
	}
	if req.Last != nil && len(res.Idx) > *req.Last {
		return "more-than-last", fmt.Sprintf("last=%d got %v", *req.Last, res.Idx), false
	}
	if !strict {
		return "", "", false
	}

	// reference pager (Relay): window by after/before, then first, then last
	lo, hi := 0, n
	if aValid {
		lo = a + 1
	}
	if bValid {
		hi = b
	}
	if hi < lo {
		hi = lo
	}
	wlo, whi := lo, hi
	if req.First != nil && whi-wlo > *req.First {
		whi = wlo + *req.First
	}
	if req.Last != nil && whi-wlo > *req.Last {
		wlo = whi - *req.Last
	}
	var want []int
	for k := wlo; k < whi; k++ {
		want = append(want, k)
	}
	if fmt.Sprint(want) != fmt.Sprint(res.Idx) {
		return "wrong-window", fmt.Sprintf("want %v got %v", want, res.Idx), false
	}
	forward := (req.First != nil || req.After != nil) && req.Last == nil && req.Before == nil
	backward := (req.Last != nil || req.Before != nil) && req.First == nil && req.After == nil
	plain := req.First == nil && req.After == nil && req.Last == nil && req.Before == nil
	if forward || plain {
		more := whi < n
		if res.Info.HasNextPage != more {
			return "has-next-page", fmt.Sprintf("returned %v of %d elements, hasNextPage=%v", res.Idx, n, res.Info.HasNextPage), false
		}
	}
	if backward || plain {
		more := wlo > 0
		if res.Info.HasPreviousPage != more {
			return "has-previous-page", fmt.Sprintf("returned %v of %d elements, hasPreviousPage=%v", res.Idx, n, res.Info.HasPreviousPage), false
		}
	}
	nontrivial := (aValid && a > 0 && a < n-1) || (bValid && b > 0 && b < n-1) || (len(want) > 0 && len(want) < n)
	return "", "", nontrivial
}

func intp(i int) *int       { return &i }
func strp(s string) *string { return &s }

// TestC20Exhaustive enumerates the full finite space up to length 8.
func TestC20Exhaustive(t *testing.T) {
	rep := report.For("C20", t.Name())
	defer rep.Close()
	if req, ok := ReplayCase[pageReq](t); ok {
		if aspect, detail, _ := safeC20(req); aspect != "" {
			rep.Fail(t, "C20/layer1/"+req.Type+"/"+aspect, detail, req)
		}
		return
	}
	maxN := 8
	sizes := []*int{nil, intp(-1)}
	for k := 0; k <= 10; k++ {
		sizes = append(sizes, intp(k))
	}
	total := 0
	for _, typ := range c20Types {
		fps := map[string]bool{}
		for n := 0; n <= maxN; n++ {
			cursors := []*string{nil}
			for k := 0; k < n; k++ {
				cursors = append(cursors, strp(refCursor(k)))
			}
			cursors = append(cursors, strp(refCursor(n)), strp(refCursor(n+5)), strp(refCursor(-1)),
				strp("foreign text"), strp("%%%not-base64%%%"), strp(""), strp(base64.StdEncoding.EncodeToString([]byte("cursor:abc"))),
				strp(base64.StdEncoding.EncodeToString([]byte("1"))))
			for _, first := range sizes {
				for _, last := range sizes {
					for ai, after := range cursors {
						for bi, before := range cursors {
							req := pageReq{N: n, First: first, Last: last, After: after, Before: before, Type: typ}
							aspect, detail, nontrivial := safeC20(req)
							total++
							if aspect != "" {
								if rep.Fail(t, "C20/layer1/"+typ+"/"+aspect, detail, req) {
									continue
								}
							}
							if nontrivial {
								fp := fmt.Sprintf("%s|n=%d|f=%s|l=%s|a=%d|b=%d", typ, n, sizeClass(first, n), sizeClass(last, n), ai, bi)
								if !fps[fp] {
									fps[fp] = true
									rep.Case(fp, true, []string{"type:" + typ}, req)
								} else {
									rep.Count(1, "")
								}
							} else {
								rep.Count(1, "trivial")
							}
						}
					}
				}
			}
		}
	}
	rep.Note("requests_enumerated", total)
	rep.Note("space", "7 connection functions x lengths 0..8 x first,last in {nil,-1,0..10} x after,before in {nil, every valid cursor, 8 invalid kinds}")
	rep.SetExhaustive(true)
}

// sizeClass abstracts a page size relative to the list length.
func sizeClass(p *int, n int) string {
	switch {
	case p == nil:
		return "nil"
	case *p < 0:
		return "neg"
	case *p == 0:
		return "0"
	case *p == 1:
		return "1"
	case *p < n:
		return "<n"
	case *p == n:
		return "=n"
	default:
		return ">n"
	}
}

func fmtIntp(p *int) string {
	if p == nil {
		return "nil"
	}
	return strconv.Itoa(*p)
}

func safeC20(req pageReq) (aspect, detail string, nontrivial bool) {
	defer func() {
		if r := recover(); r != nil {
			aspect, detail = "panic", fmt.Sprint(r)
		}
	}()
	return c20Check(req)
}

// TestC20Random goes beyond the exhaustive bound (length up to 200).
func TestC20Random(t *testing.T) {
	gen := func(t *rapid.T) pageReq {
		n := rapid.IntRange(0, 200).Draw(t, "n")
		size := func(label string) *int {
			switch rapid.IntRange(0, 5).Draw(t, label+"Kind") {
			case 0:
				return nil
			case 1:
				return intp(rapid.IntRange(-3, -1).Draw(t, label))
			default:
				return intp(rapid.IntRange(0, n+3).Draw(t, label))
			}
		}
		cursor := func(label string) *string {
			switch rapid.IntRange(0, 6).Draw(t, label+"Kind") {
			case 0, 1:
				return nil
			case 2:
				return strp(rapid.String().Draw(t, label))
			case 3:
				return strp(refCursor(rapid.IntRange(-5, n+5).Draw(t, label)))
			default:
				if n == 0 {
					return nil
				}
				return strp(refCursor(rapid.IntRange(0, n-1).Draw(t, label)))
			}
		}
		return pageReq{N: n, First: size("first"), Last: size("last"), After: cursor("after"), Before: cursor("before"),
			Type: rapid.SampledFrom(c20Types).Draw(t, "type")}
	}
	Drive(t, "C20", gen, func(tb report.TB, rep *report.Reporter, req pageReq) {
		aspect, detail, nontrivial := safeC20(req)
		fp := fmt.Sprintf("%s|n=%d|f=%s|l=%s|a=%v|b=%v", req.Type, req.N/10, sizeClass(req.First, req.N), sizeClass(req.Last, req.N), cursorClass(req.After, req.N), cursorClass(req.Before, req.N))
		rep.Case(fp, nontrivial, []string{"type:" + req.Type}, req)
		if aspect != "" {
			rep.Fail(tb, "C20/layer1/"+req.Type+"/"+aspect, detail, req)
		}
	})
}

func cursorClass(c *string, n int) string {
	pos, given, valid := cursorPos(c, n)
	switch {
	case !given:
		return "nil"
	case !valid:
		return "invalid"
	case pos == 0:
		return "first"
	case pos == n-1:
		return "last"
	default:
		return fmt.Sprintf("inner%d", pos*4/n)
	}
}

// ---------------------------------------------------------------- layer 2: page walks over the served GraphQL API

type c20WalkCase struct {
	Seed     uint64 `json:"seed"`
	NIdent   int    `json:"n_ident"`
	NBugs    int    `json:"n_bugs"`
	Comments []int  `json:"comments"` // per bug: number of extra comments (authors rotate)
	Labels   []int  `json:"labels"`   // per bug: number of labels
	// FailK >= 0: before the walks a user adds a comment to the walked bug through the API, and the FailK-th storage
	// operation of that request fails (the request is answered with an error, or succeeds when it needs fewer)
	FailK int `json:"fail_k"`
	// CreateK >= 0: at the end, another user of the same server creates a bug while a client walks allBugs in
	// creation order: the client's first page (size CreatePage) is served just before the CreateK-th storage
	// operation of the creation, the following pages after it
	CreateK    int `json:"create_k"`
	CreatePage int `json:"create_page"`
}

func genC20Walk(t *rapid.T) c20WalkCase {
	c := c20WalkCase{Seed: rapid.Uint64().Draw(t, "seed"), NIdent: rapid.IntRange(1, 7).Draw(t, "nIdent"), NBugs: rapid.IntRange(1, 6).Draw(t, "nBugs")}
	for i := 0; i < c.NBugs; i++ {
		c.Comments = append(c.Comments, rapid.IntRange(0, 5).Draw(t, "comments"))
		c.Labels = append(c.Labels, rapid.IntRange(0, 4).Draw(t, "labels"))
	}
	c.FailK = rapid.IntRange(-6, 8).Draw(t, "failK")
	c.CreateK = rapid.IntRange(-4, 8).Draw(t, "createK")
	c.CreatePage = rapid.IntRange(1, 3).Draw(t, "createPage")
	return c
}

type gqlPage struct {
	keys    []string
	cursors []string
	hasNext bool
	hasPrev bool
	start   string
	end     string
	total   int
}

// connPage sends one request for a connection reachable at path and decodes the page.
func connPage(h http.Handler, pathFmt string, args string, nodeKey string) (gqlPage, error) {
	sel := fmt.Sprintf("totalCount pageInfo { hasNextPage hasPreviousPage startCursor endCursor } edges { cursor node { %s } } nodes { %s }", nodeKey, nodeKey)
	argStr := ""
	if args != "" {
		argStr = "(" + args + ")"
	}
	q := fmt.Sprintf(pathFmt, argStr, sel)
	_, body, raw := gqlDo(h, q, nil)
	if errs, _ := body["errors"].([]any); len(errs) > 0 {
		return gqlPage{}, fmt.Errorf("errors: %s", truncate(raw, 300))
	}
	// descend to the connection object: the only map-valued chain under data
	var cur any = body["data"]
	for {
		m, ok := cur.(map[string]any)
		if !ok {
			return gqlPage{}, fmt.Errorf("unexpected response %s", truncate(raw, 300))
		}
		if _, isConn := m["pageInfo"]; isConn {
			break
		}
		if len(m) != 1 {
			return gqlPage{}, fmt.Errorf("unexpected response shape %s", truncate(raw, 300))
		}
		for _, v := range m {
			cur = v
		}
	}
	conn := cur.(map[string]any)
	var p gqlPage
	p.total = int(conn["totalCount"].(float64))
	pi := conn["pageInfo"].(map[string]any)
	p.hasNext, _ = pi["hasNextPage"].(bool)
	p.hasPrev, _ = pi["hasPreviousPage"].(bool)
	p.start, _ = pi["startCursor"].(string)
	p.end, _ = pi["endCursor"].(string)
	keyField := strings.Fields(nodeKey)[len(strings.Fields(nodeKey))-1]
	keyField = strings.Trim(keyField, "{} ")
	for _, e := range conn["edges"].([]any) {
		em := e.(map[string]any)
		p.cursors = append(p.cursors, em["cursor"].(string))
		node, _ := em["node"].(map[string]any)
		p.keys = append(p.keys, fmt.Sprint(node[keyField]))
	}
	var nodeKeys []string
	for _, n := range conn["nodes"].([]any) {
		nm, _ := n.(map[string]any)
		nodeKeys = append(nodeKeys, fmt.Sprint(nm[keyField]))
	}
	if strings.Join(nodeKeys, ",") != strings.Join(p.keys, ",") {
		return p, fmt.Errorf("nodes %v differ from edges %v", nodeKeys, p.keys)
	}
	return p, nil
}

func runC20Walk(tb report.TB, rep *report.Reporter, c c20WalkCase) {
	w, err := NewCWorld(1, c.Seed)
	if err != nil {
		tb.Fatalf("harness: %v", err)
	}
	defer w.Close()
	r := w.R[0]
	var authors []*cache.IdentityCache
	me, _ := r.Cache.GetUserIdentity()
	authors = append(authors, me)
	for i := 1; i < c.NIdent; i++ {
		// homonyms (one person, one identity per machine) and equal titles: any ordering of a served list by a
		// displayed attribute has ties
		ic, err := r.Cache.Identities().NewRaw(fmt.Sprintf("walker %d", i%3), "w@example.org", "", "", nil, nil)
		if err != nil {
			tb.Fatalf("harness: %v", err)
		}
		authors = append(authors, ic)
	}
	labelPool := []string{"bug", "ui", "prod", "Good first issue", "wontfix", "docs"}
	var bugIds []string
	for i := 0; i < c.NBugs; i++ {
		bc, _, err := r.Cache.Bugs().NewRaw(authors[i%len(authors)], int64(1000+i/3), fmt.Sprintf("walk bug %d", i%4), "m", nil, nil) // several bugs per second (a script, an import): wall-clock ties
		if err != nil {
			tb.Fatalf("harness: %v", err)
		}
		for k := 0; k < c.Comments[i]; k++ {
			_, _, _ = bc.AddCommentRaw(authors[(i+k+1)%len(authors)], int64(2000+k), fmt.Sprintf("comment %d", k), nil, nil)
		}
		if c.Labels[i] > 0 {
			_, _, _ = bc.ChangeLabelsRaw(authors[(i+2)%len(authors)], 3000, labelPool[i%3 : i%3+c.Labels[i]-0][:min(c.Labels[i], 3)], nil, nil)
		}
		if i%2 == 1 {
			_, _ = bc.CloseRaw(authors[i%len(authors)], 4000, nil)
		}
		if err := bc.CommitAsNeeded(); err != nil {
			tb.Fatalf("harness: %v", err)
		}
		bugIds = append(bugIds, string(bc.Id()))
	}
	// hand the repository over to the API server
	if err := r.Cache.Close(); err != nil {
		tb.Fatalf("harness: %v", err)
	}
	r.Cache = nil
	repo, err := repository.OpenGoGitRepo(r.Path, "git-bug", nil)
	if err != nil {
		tb.Fatalf("harness: %v", err)
	}
	fr := faultrepo.New(repo, -1)
	fr.Transient = true
	mrc := cache.NewMultiRepoCache()
	_, events := mrc.RegisterDefaultRepository(fr)
	for ev := range events {
		if ev.Err != nil {
			tb.Fatalf("harness: %v", ev.Err)
		}
	}
	defer mrc.Close()
	h := graphql.NewHandler(mrc, nil)
	userId := me.Id()

	type listSpec struct{ name, pathFmt, key string }
	lists := []listSpec{
		{"allBugs", "{ repository { allBugs%s { %s } } }", "id"},
		{"allBugs(query)", "{ repository { allBugs%s { %s } } }", "id"},
		{"allIdentities", "{ repository { allIdentities%s { %s } } }", "id"},
		{"validLabels", "{ repository { validLabels%s { %s } } }", "name"},
	}
	bid := bugIds[int(c.Seed%uint64(len(bugIds)))]
	for _, sub := range []struct{ f, key string }{{"comments", "id"}, {"timeline", "id"}, {"operations", "id"}, {"actors", "id"}, {"participants", "id"}} {
		lists = append(lists, listSpec{"bug." + sub.f, `{ repository { bug(prefix: "` + bid + `") { ` + sub.f + `%s { %s } } } }`, sub.key})
	}
	// ---- a request that fails half-way (or not), then the lists: what is paged through is what is stored
	mutationFailed, failedOp := false, ""
	if c.FailK >= 0 {
		router := mux.NewRouter()
		router.Use(auth.Middleware(userId))
		router.Path("/graphql").Handler(h)
		fr.AbortAt = len(fr.Log) + c.FailK
		_, body, _ := gqlDo(router, fmt.Sprintf(`mutation { addComment(input: {prefix: %q, message: "sent while the disk was full"}) { bug { id } } }`, bid), nil)
		mutationFailed = body == nil || body["errors"] != nil
		if fr.AbortAt < len(fr.Log) && strings.HasSuffix(fr.Log[fr.AbortAt], "(failed)") {
			failedOp = strings.Fields(strings.TrimSuffix(fr.Log[fr.AbortAt], "(failed)"))[0]
		}
		fr.AbortAt = -1
	}
	// The comparison with git is made unless the request failed and the bug may legitimately be ahead of its
	// reference: the failed operation was the reference update itself (commits written, reference pending), or the
	// cache says operations are still waiting for a commit.
	compareWithStored := true
	if mutationFailed {
		pending := true
		if rcd, err := mrc.DefaultRepo(); err == nil {
			if bc, err := rcd.Bugs().Resolve(entity.Id(bid)); err == nil {
				pending = bc.NeedCommit()
			}
		}
		compareWithStored = failedOp != "" && failedOp != "UpdateRef" && !pending
	}
	storedIds := func(what string) []string {
		ro, err := repository.OpenGoGitRepo(r.Path, "git-bug", nil)
		if err != nil {
			tb.Fatalf("harness: %v", err)
		}
		defer ro.Close()
		b, err := bug.Read(ro, entity.Id(bid))
		if err != nil {
			tb.Fatalf("harness: stored bug unreadable: %v", err)
		}
		var out []string
		if what == "bug.operations" {
			for _, op := range b.Operations() {
				out = append(out, string(op.Id()))
			}
		} else {
			for _, cm := range b.Compile().Comments {
				out = append(out, string(cm.CombinedId()))
			}
		}
		return out
	}
	pages := 0
	multi := false
	for _, l := range lists {
		extra := ""
		if l.name == "allBugs(query)" {
			extra = `query: "status:open sort:id"`
		}
		join := func(a, b string) string {
			if a == "" {
				return b
			}
			if b == "" {
				return a
			}
			return a + ", " + b
		}
		fail := func(sig, detail string) bool {
			return rep.Fail(tb, "C20/graphql/"+l.name+"/"+sig, detail, c)
		}
		full, err := connPage(h, l.pathFmt, extra, l.key)
		if err != nil {
			if fail("request-fails", err.Error()) {
				return
			}
			continue
		}
		// the unpaginated list itself is stable and duplicate free
		again, _ := connPage(h, l.pathFmt, extra, l.key)
		if strings.Join(full.keys, ",") != strings.Join(again.keys, ",") {
			if fail("list-order-changes-between-requests", fmt.Sprintf("first  %v\nsecond %v", full.keys, again.keys)) {
				return
			}
			continue
		}
		if compareWithStored && (l.name == "bug.operations" || l.name == "bug.comments") {
			if want := storedIds(l.name); strings.Join(want, ",") != strings.Join(full.keys, ",") {
				if fail("served-list-differs-from-the-stored-bug", fmt.Sprintf("a mutation was sent before: %v (failed: %v at %s)\nstored %v\nserved %v", c.FailK >= 0, mutationFailed, failedOp, want, full.keys)) {
					return
				}
			}
		}
		n := len(full.keys)
		if full.total != n || len(setOf(full.keys)) != n {
			if fail("unpaginated-list-inconsistent", fmt.Sprintf("totalCount %d, %d edges, %d distinct", full.total, n, len(setOf(full.keys)))) {
				return
			}
		}
		for size := 1; size <= n+1; size++ {
			for _, dir := range []string{"forward", "backward"} {
				var got []string
				cursor := ""
				for step := 0; step <= n+2; step++ {
					args := ""
					if dir == "forward" {
						args = fmt.Sprintf("first: %d", size)
						if cursor != "" {
							args += fmt.Sprintf(`, after: %q`, cursor)
						}
					} else {
						args = fmt.Sprintf("last: %d", size)
						if cursor != "" {
							args += fmt.Sprintf(`, before: %q`, cursor)
						}
					}
					p, err := connPage(h, l.pathFmt, join(extra, args), l.key)
					pages++
					if err != nil {
						if fail("page-request-fails", fmt.Sprintf("%s (%s): %v", args, dir, err)) {
							return
						}
						break
					}
					where := fmt.Sprintf("%s walk with page size %d over %d elements, step %d (%s)", dir, size, n, step, args)
					if p.total != n {
						if fail("total-count", fmt.Sprintf("%s: totalCount %d", where, p.total)) {
							return
						}
					}
					if len(p.keys) > size {
						if fail("page-larger-than-requested", where) {
							return
						}
					}
					if len(p.keys) > 0 && (p.start != p.cursors[0] || p.end != p.cursors[len(p.cursors)-1]) {
						if fail("start-end-cursor", where) {
							return
						}
					}
					more := false
					if dir == "forward" {
						got = append(got, p.keys...)
						more = p.hasNext
						cursor = p.end
					} else {
						got = append(append([]string(nil), p.keys...), got...)
						more = p.hasPrev
						cursor = p.start
					}
					if step > 0 {
						multi = true
					}
					if !more || len(p.keys) == 0 {
						break
					}
				}
				if strings.Join(got, ",") != strings.Join(full.keys, ",") {
					if fail("walk-does-not-visit-every-element-once-in-order/"+dir, fmt.Sprintf("%s walk with page size %d\nlist %v\nwalk %v", dir, size, full.keys, got)) {
						return
					}
				}
			}
		}
	}
	// ---- a walk in creation order while somebody else creates a bug: a creation can only append to that order,
	// so the walk visits every bug that existed when it started exactly once, in order
	if c.CreateK >= 0 {
		if rcd, err := mrc.DefaultRepo(); err == nil {
			pathFmt, extra := "{ repository { allBugs%s { %s } } }", `query: "sort:creation-asc"`
			start, err := connPage(h, pathFmt, extra, "id")
			if err != nil {
				tb.Fatalf("harness: %v", err)
			}
			creator, err := rcd.GetUserIdentity()
			if err != nil {
				tb.Fatalf("harness: %v", err)
			}
			var page1 gqlPage
			var page1Err error
			served := false
			fr.HookAt = len(fr.Log) + c.CreateK
			fr.Hook = func() {
				served = true
				page1, page1Err = connPage(h, pathFmt, fmt.Sprintf("%s, first: %d", extra, c.CreatePage), "id")
			}
			_, _, cerr := rcd.Bugs().NewRaw(creator, 9_999_999, "created while somebody pages through the list", "m", nil, nil)
			fr.Hook = nil
			if cerr != nil {
				tb.Fatalf("harness: creation: %v", cerr)
			}
			if served && page1Err == nil {
				walk := append([]string(nil), page1.keys...)
				cursor, more := page1.end, page1.hasNext
				for step := 0; more && step < len(start.keys)+3; step++ {
					p, err := connPage(h, pathFmt, fmt.Sprintf("%s, first: %d, after: %q", extra, c.CreatePage, cursor), "id")
					if err != nil || len(p.keys) == 0 {
						break
					}
					walk = append(walk, p.keys...)
					cursor, more = p.end, p.hasNext
				}
				old := setOf(start.keys)
				var seenOld []string
				for _, k := range walk {
					if old[k] {
						seenOld = append(seenOld, k)
					}
				}
				rep.Class("walks-across-a-creation", 1)
				if strings.Join(seenOld, ",") != strings.Join(start.keys, ",") {
					if rep.Fail(tb, "C20/graphql/allBugs(creation-asc)/walk-across-a-creation-repeats-or-skips", fmt.Sprintf("page size %d, first page served before storage operation #%d of the creation\nlist when the walk started %v\nwalk %v", c.CreatePage, c.CreateK, start.keys, walk), c) {
						return
					}
				}
			}
		}
	}
	rep.Class("pages-requested", pages)
	rep.Case(fmt.Sprintf("walk|i%d|b%d|c%v|l%v", c.NIdent, c.NBugs, c.Comments, c.Labels), multi, []string{fmt.Sprintf("identities:%d", c.NIdent), fmt.Sprintf("bugs:%d", c.NBugs), fmt.Sprintf("a-mutation-failed-half-way-before-the-walks:%v", mutationFailed), "failed-storage-operation:" + failedOp}, c)
}

func TestC20GraphQL(t *testing.T) {
	Drive(t, "C20", genC20Walk, runC20Walk)
}
