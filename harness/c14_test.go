package harness

import (
	"encoding/json"
	"fmt"
	"os"
	"path/filepath"
	"sort"
	"strings"
	"testing"

	"pgregory.net/rapid"

	"github.com/MichaelMure/git-bug/cache"
	"github.com/MichaelMure/git-bug/entities/bug"
	"github.com/MichaelMure/git-bug/entities/identity"
	"github.com/MichaelMure/git-bug/entity"
	"github.com/MichaelMure/git-bug/query"
	"github.com/MichaelMure/git-bug/repository"

	"verif/harness/internal/entropy"
	"verif/harness/internal/ondisk"
	"verif/harness/internal/report"
)

// C14: removing an entity removes all of it, only it, and is repeatable; wipe leaves nothing behind.

type c14Case struct {
	Seed         uint64 `json:"seed"`
	NRemotes     int    `json:"n_remotes"` // 0..3 configured remotes
	PushedTo     []bool `json:"pushed_to"` // which remotes hold the victim (=> remote-tracking refs)
	Others       int    `json:"others"`    // other bugs
	SharePfx     int    `json:"share_pfx"` // how many other bugs share a 2-char id prefix with the victim
	Edits        int    `json:"edits"`     // commits on the victim before removal
	Entity       string `json:"entity"`    // bug | identity
	Mode         string `json:"mode"`      // dag | cache | cli
	OthersPushed bool   `json:"others_pushed"`
	// Packed: the refs are packed (git pack-refs --all, what git gc does) before the removal, so that they
	// live in .git/packed-refs and not as loose files
	Packed bool `json:"packed,omitempty"`
	// OnlyRemote (entity API only): the victim was fetched but never merged, or its local ref is gone already: it is
	// known through its remote-tracking refs only
	OnlyRemote bool `json:"only_remote,omitempty"`
	// Select (CLI only): another bug is the selected one (git-bug bug select) while the victim is removed by id
	Select bool `json:"select,omitempty"`
	// AfterPack (with Packed): what happens between the packing of the refs and the removal, so that a ref exists
	// both as a loose file and in packed-refs: "" nothing, "edit" the victim gets one more commit, "fetch" its
	// remotes are fetched again (which rewrites the remote-tracking refs as loose files)
	AfterPack string `json:"after_pack,omitempty"`
	// LateRemote (entity API and cache): the repository handle is already open and has listed its remotes once when
	// the user adds one more remote with stock git in another terminal and the victim is pushed there
	LateRemote bool `json:"late_remote,omitempty"`
}

func genC14(t *rapid.T) c14Case {
	c := c14Case{Seed: rapid.Uint64().Draw(t, "seed")}
	c.NRemotes = rapid.IntRange(0, 3).Draw(t, "nRemotes")
	for i := 0; i < c.NRemotes; i++ {
		c.PushedTo = append(c.PushedTo, rapid.IntRange(0, 2).Draw(t, "pushed") > 0)
	}
	c.Others = rapid.IntRange(0, 6).Draw(t, "others")
	c.SharePfx = rapid.IntRange(0, 2).Draw(t, "sharePfx")
	if c.SharePfx > c.Others {
		c.SharePfx = c.Others
	}
	c.Edits = rapid.IntRange(0, 3).Draw(t, "edits")
	c.Entity = rapid.SampledFrom([]string{"bug", "bug", "bug", "identity"}).Draw(t, "entity")
	c.Mode = rapid.SampledFrom([]string{"dag", "cache", "cli"}).Draw(t, "mode")
	if c.Entity == "identity" && c.Mode == "cli" {
		c.Mode = "cache" // there is no CLI command removing an identity
	}
	c.OthersPushed = rapid.Bool().Draw(t, "othersPushed")
	c.Packed = rapid.IntRange(0, 2).Draw(t, "packed") == 0
	anyHolder := false
	for _, p := range c.PushedTo {
		anyHolder = anyHolder || p
	}
	c.OnlyRemote = c.Mode == "dag" && anyHolder && rapid.IntRange(0, 3).Draw(t, "onlyRemote") == 0
	c.Select = c.Mode == "cli" && c.Others > 0 && rapid.Bool().Draw(t, "select")
	if c.Packed {
		c.AfterPack = rapid.SampledFrom([]string{"", "edit", "fetch"}).Draw(t, "afterPack")
	}
	c.LateRemote = c.Mode != "cli" && rapid.IntRange(0, 3).Draw(t, "lateRemote") == 0
	return c
}

func gitBugRefs(repo repository.RepoData) map[string]string {
	out := map[string]string{}
	for _, p := range []string{"refs/bugs/", "refs/identities/", "refs/remotes/"} {
		for k, v := range refsUnder(repo, p) {
			out[k] = v
		}
	}
	return out
}

func runC14(tb report.TB, rep *report.Reporter, c c14Case) {
	entropy.Seed(c.Seed)
	dir := mkdirTemp("c14-")
	defer os.RemoveAll(dir)
	main := filepath.Join(dir, "main")
	repo, err := repository.InitGoGitRepo(main, "git-bug")
	if err != nil {
		tb.Fatalf("harness: %v", err)
	}
	remoteNames := []string{"origin", "team/backup", "third"}[:c.NRemotes] // a remote name may contain a slash
	for _, rn := range remoteNames {
		rp := filepath.Join(dir, "remote-"+rn)
		if _, err := repository.InitBareGoGitRepo(rp, "git-bug"); err != nil {
			tb.Fatalf("harness: %v", err)
		}
		if err := repo.AddRemote(rn, rp); err != nil {
			tb.Fatalf("harness: %v", err)
		}
	}
	fail := func(sig, detail string) bool {
		return rep.Fail(tb, "C14/"+c.Entity+"/"+c.Mode+"/"+sig, detail, c)
	}
	mkIdent := func(n int, name string) *identity.Identity {
		id, _, _, err := ondisk.WriteIdentity(repo, "", []ondisk.IdentityVersion{{Version: 2, UnixTime: 1600000000 + int64(n), Name: name, Nonce: NonceFor(c.Seed, 10_000_000+n)}})
		if err != nil {
			tb.Fatalf("harness: %v", err)
		}
		i, err := identity.ReadLocal(repo, entity.Id(id))
		if err != nil {
			tb.Fatalf("harness: %v", err)
		}
		return i
	}
	me := mkIdent(0, "remover")
	if err := identity.SetUserIdentity(repo, me); err != nil {
		tb.Fatalf("harness: %v", err)
	}
	loner := mkIdent(1, "unreferenced identity") // referenced by no bug: removable
	for n := 2; ; n++ {                          // a bystander whose id shares two characters with it (ground in memory, then written)
		blob, _ := json.Marshal(ondisk.IdentityVersion{Version: 2, Times: map[string]uint64{}, UnixTime: 1600000000 + int64(n), Name: "bystander", Nonce: NonceFor(c.Seed, 10_000_000+n)})
		if strings.HasPrefix(ondisk.Sha(blob), string(loner.Id())[:2]) {
			_ = mkIdent(n, "bystander")
			break
		}
	}
	_ = mkIdent(100_000, "another bystander")

	ctr := 0
	mkBug := func(prefix, title string, commits int) string {
		var create *bug.CreateOperation
		for {
			ctr++
			create = bug.NewCreateOp(me, 1000, title, "body", nil)
			create.Nonce = NonceFor(c.Seed, 10_100_000+ctr)
			if strings.HasPrefix(string(create.Id()), prefix) {
				break
			}
		}
		b := bug.NewBug()
		b.Append(create)
		if err := b.Commit(repo); err != nil {
			tb.Fatalf("harness: %v", err)
		}
		for k := 0; k < commits; k++ {
			if _, _, err := bug.AddComment(b, me, int64(2000+k), fmt.Sprintf("comment %d on %s", k, title), nil, nil); err != nil {
				tb.Fatalf("harness: %v", err)
			}
			if err := b.Commit(repo); err != nil {
				tb.Fatalf("harness: %v", err)
			}
		}
		return string(b.Id())
	}
	victimTok := fmt.Sprintf("victimtok%d", c.Seed%9973)
	victim := mkBug("", "the victim "+victimTok, c.Edits)
	var others []string
	for i := 0; i < c.Others; i++ {
		pfx := ""
		if i < c.SharePfx {
			pfx = victim[:2]
		}
		others = append(others, mkBug(pfx, fmt.Sprintf("other bug %d othertok%d", i, i), i%2))
	}
	victimRefPrefix := "refs/bugs/"
	victimId := victim
	if c.Entity == "identity" {
		victimId = string(loner.Id())
		victimRefPrefix = "refs/identities/"
	}
	// pushes: remote-tracking refs appear for what was pushed
	for i, rn := range remoteNames {
		if c.PushedTo[i] {
			if _, err := identity.Push(repo, rn); err != nil {
				tb.Fatalf("harness: push: %v", err)
			}
			if _, err := bug.Push(repo, rn); err != nil {
				tb.Fatalf("harness: push: %v", err)
			}
		} else if c.OthersPushed && len(others) > 0 {
			// this remote knows other entities but not the victim: push then forget the victim there
			if _, err := identity.Push(repo, rn); err != nil {
				tb.Fatalf("harness: push: %v", err)
			}
			if _, err := bug.Push(repo, rn); err != nil {
				tb.Fatalf("harness: push: %v", err)
			}
			_ = repo.RemoveRef("refs/remotes/" + rn + "/" + strings.TrimPrefix(victimRefPrefix, "refs/") + victimId)
		}
	}
	// other things in the repository that must not move
	extraRefs := map[string]bool{}
	if h, err := repo.ResolveRef("refs/bugs/" + victim); err == nil {
		_ = repo.UpdateRef("refs/heads/unrelated-branch", h)
		_ = repo.UpdateRef("refs/tags/v1", h)
		_ = repo.UpdateRef("refs/remotes/origin/main", h) // a normal remote-tracking branch
		extraRefs["refs/heads/unrelated-branch"], extraRefs["refs/tags/v1"], extraRefs["refs/remotes/origin/main"] = true, true, true
	}
	allRefs := func() map[string]string {
		out := gitBugRefs(repo)
		for k, v := range refsUnder(repo, "refs/heads/") {
			out[k] = v
		}
		for k, v := range refsUnder(repo, "refs/tags/") {
			out[k] = v
		}
		return out
	}
	if c.OnlyRemote {
		if err := repo.RemoveRef(victimRefPrefix + victimId); err != nil {
			tb.Fatalf("harness: %v", err)
		}
	}
	if c.Packed {
		if res := RunGit(main, "pack-refs", "--all"); res.Code != 0 {
			tb.Fatalf("harness: git pack-refs: %s", res.Out)
		}
		switch {
		case c.AfterPack == "edit" && c.Entity == "bug" && !c.OnlyRemote:
			vb, err := bug.Read(repo, entity.Id(victimId))
			if err != nil {
				tb.Fatalf("harness: %v", err)
			}
			if _, _, err := bug.AddComment(vb, me, 9000, "one more comment after git gc", nil, nil); err != nil {
				tb.Fatalf("harness: %v", err)
			}
			if err := vb.Commit(repo); err != nil {
				tb.Fatalf("harness: %v", err)
			}
		case c.AfterPack == "fetch":
			for _, rn := range remoteNames {
				_, _ = identity.Fetch(repo, rn)
				_, _ = bug.Fetch(repo, rn)
			}
		}
	}
	before := allRefs()
	othersBefore, _ := readAllBugs(repo)

	expectedGone := map[string]bool{victimRefPrefix + victimId: true}
	holders := 0
	for i, rn := range remoteNames {
		ref := "refs/remotes/" + rn + "/" + strings.TrimPrefix(victimRefPrefix, "refs/") + victimId
		if _, ok := before[ref]; ok {
			expectedGone[ref] = true
			if c.PushedTo[i] {
				holders++
			}
		}
	}
	pushedClass := fmt.Sprintf("remotes:%d/holding:%d", c.NRemotes, holders)
	rep.Case(fmt.Sprintf("%s|%s|%s|o%d|s%d|e%d", c.Entity, c.Mode, pushedClass, c.Others, c.SharePfx, c.Edits), holders >= 1 && c.Others >= 1,
		[]string{"entity:" + c.Entity, "mode:" + c.Mode, pushedClass, fmt.Sprintf("packed-refs:%v", c.Packed), fmt.Sprintf("known-through-remote-tracking-refs-only:%v", c.OnlyRemote), fmt.Sprintf("another-bug-selected:%v", c.Select), "after-packing:" + c.AfterPack}, c)

	// ---- the removal
	_ = repo.Close()
	if c.Select {
		if res := RunCLI(main, "bug", "select", others[len(others)-1]); res.Code != 0 {
			tb.Fatalf("harness: bug select: %s", res.Out)
		}
	}
	var liveLookups func(rc *cache.RepoCache)
	// lateRemote: the handle that will do the removal is open and has listed its remotes; the user adds one more
	// remote with stock git in another terminal, and the victim is pushed there through that handle
	lateDone := false
	lateRemote := func(h *repository.GoGitRepo) {
		if !c.LateRemote || lateDone {
			return
		}
		lateDone = true
		_, _ = h.GetRemotes()
		lp := filepath.Join(dir, "late.git")
		if _, err := repository.InitBareGoGitRepo(lp, "git-bug"); err != nil {
			tb.Fatalf("harness: %v", err)
		}
		if res := RunGit(main, "remote", "add", "late", lp); res.Code != 0 {
			tb.Fatalf("harness: git remote add: %s", res.Out)
		}
		if _, err := identity.Push(h, "late"); err != nil {
			tb.Fatalf("harness: push to the late remote: %v", err)
		}
		if _, err := bug.Push(h, "late"); err != nil {
			tb.Fatalf("harness: push to the late remote: %v", err)
		}
		rep.Class("remote-added-by-stock-git-while-the-handle-was-open", 1)
		before = allRefs()
		if ref := "refs/remotes/late/" + strings.TrimPrefix(victimRefPrefix, "refs/") + victimId; before[ref] != "" {
			expectedGone[ref] = true
		}
	}
	remove := func() (string, error) {
		switch c.Mode {
		case "dag":
			r2, err := repository.OpenGoGitRepo(main, "git-bug", nil)
			if err != nil {
				return "", err
			}
			defer r2.Close()
			lateRemote(r2)
			if c.Entity == "bug" {
				return "", bug.Remove(r2, entity.Id(victimId))
			}
			return "", identity.Remove(r2, entity.Id(victimId))
		case "cache":
			r2, err := repository.OpenGoGitRepo(main, "git-bug", nil)
			if err != nil {
				return "", err
			}
			if c.Seed%4 < 2 {
				// an earlier run left its cache files: this one loads them and reads entities when they are first used
				if pre, err := cache.NewRepoCacheNoEvents(r2); err == nil {
					_ = pre.Close()
					_ = r2.Close()
					if r2, err = repository.OpenGoGitRepo(main, "git-bug", nil); err != nil {
						return "", err
					}
				}
			}
			rc, err := cache.NewRepoCacheNoEvents(r2)
			if err != nil {
				return "", err
			}
			defer rc.Close()
			lateRemote(r2)
			if c.Seed%2 == 0 {
				// the entity was looked at in this session before it is removed
				if c.Entity == "bug" {
					_, _ = rc.Bugs().Resolve(entity.Id(victimId))
				} else {
					_, _ = rc.Identities().Resolve(entity.Id(victimId))
				}
			}
			// the shortest prefix that is unique
			var err2 error
			if c.Entity == "bug" {
				err2 = rc.Bugs().Remove(uniquePrefix(victimId, others))
			} else {
				err2 = rc.Identities().Remove(victimId[:12])
			}
			if err2 == nil && liveLookups != nil {
				liveLookups(rc) // the cache that performed the removal must not serve the entity any more
			}
			return "", err2
		default:
			res := RunCLI(main, "bug", "rm", uniquePrefix(victimId, others))
			if res.Code != 0 {
				return res.Out, fmt.Errorf("exit %d: %s", res.Code, res.Out)
			}
			return res.Out, nil
		}
	}
	// ---- not findable any more; survives rebuild, reopen and a merge without a new fetch
	lookups := func(when string, rc *cache.RepoCache) bool {
		if c.Entity == "identity" {
			if _, err := rc.Identities().Resolve(entity.Id(victimId)); err == nil {
				return fail("still-resolvable", when+": identity resolves")
			}
			if _, err := rc.Identities().ResolvePrefix(victimId[:10]); err == nil {
				return fail("still-resolvable-by-prefix", when)
			}
			for _, id := range rc.Identities().AllIds() {
				if string(id) == victimId {
					return fail("still-listed", when)
				}
			}
			return false
		}
		if _, err := rc.Bugs().Resolve(entity.Id(victimId)); err == nil {
			return fail("still-resolvable", when+": bug resolves by id")
		}
		if _, err := rc.Bugs().ResolveExcerpt(entity.Id(victimId)); err == nil {
			return fail("still-resolvable", when+": excerpt resolves by id")
		}
		for n := 1; n <= 64; n += 3 {
			b, err := rc.Bugs().ResolvePrefix(victimId[:n])
			if err == nil && string(b.Id()) == victimId {
				return fail("still-resolvable-by-prefix", fmt.Sprintf("%s: prefix %q", when, victimId[:n]))
			}
			if mm, ok := err.(*entity.ErrMultipleMatch); ok {
				for _, m := range mm.Matching {
					if string(m) == victimId {
						return fail("still-listed-among-matches", when)
					}
				}
			}
		}
		for _, qs := range []string{"status:open", "title:victim", victimTok, "sort:id"} {
			q, _ := query.Parse(qs)
			res, err := safeQuery(rc, q)
			if err != nil {
				return fail("query-fails-after-removal/"+Normalize(err.Error()), fmt.Sprintf("%s: query %q: %v", when, qs, err))
			}
			for _, id := range res {
				if string(id) == victimId {
					return fail("still-found-by-query", fmt.Sprintf("%s: query %q", when, qs))
				}
			}
		}
		// the others are all still served
		ids := sortedIds(rc.Bugs().AllIds())
		want := append([]string(nil), others...)
		sort.Strings(want)
		if strings.Join(ids, ",") != strings.Join(want, ",") {
			return fail("cache-lists-wrong-bugs", fmt.Sprintf("%s\nwant %v\ngot  %v", when, want, ids))
		}
		for i, id := range others {
			q, _ := query.Parse(fmt.Sprintf("othertok%d", i))
			res, err := safeQuery(rc, q)
			found := false
			for _, x := range res {
				if string(x) == id {
					found = true
				}
			}
			if err != nil || !found {
				return fail("other-entity-no-longer-searchable", fmt.Sprintf("%s: %s (%v)", when, id, err))
			}
		}
		return false
	}
	liveFailed := false
	liveLookups = func(live *cache.RepoCache) {
		liveFailed = lookups("the cache that performed the removal", live) || liveFailed
		if liveFailed {
			return
		}
		// the session goes on: more entities are opened than the cache keeps in memory, so the eviction walks over
		// everything that was ever loaded, the removed entity included
		func() {
			defer func() {
				if rcv := recover(); rcv != nil {
					liveFailed = fail("session-after-the-removal-panics/"+Normalize(fmt.Sprint(rcv)), fmt.Sprintf("after the removal, with a cache size of 1, resolving the other entities: %v\n%s", rcv, PanicSite(allGoroutines()))) || true
				}
			}()
			live.Bugs().SetCacheSize(1)
			live.Identities().SetCacheSize(1)
			for _, id := range live.Bugs().AllIds() {
				_, _ = live.Bugs().Resolve(id)
			}
			for _, id := range live.Identities().AllIds() {
				_, _ = live.Identities().Resolve(id)
			}
		}()
	}
	if _, err := remove(); err != nil {
		if fail("removal-fails/"+Normalize(err.Error()), err.Error()) {
			return
		}
	}
	if liveFailed {
		return
	}
	repo, err = repository.OpenGoGitRepo(main, "git-bug", nil)
	if err != nil {
		tb.Fatalf("harness: %v", err)
	}
	defer func() { _ = repo.Close() }()
	after := allRefs()
	checkFrame := func(when string, now map[string]string) bool {
		var gone, changed, appeared []string
		for k, v := range before {
			nv, ok := now[k]
			if !ok {
				gone = append(gone, k)
			} else if nv != v {
				changed = append(changed, k)
			}
		}
		for k := range now {
			if _, ok := before[k]; !ok {
				appeared = append(appeared, k)
			}
		}
		sort.Strings(gone)
		for _, g := range gone {
			if !expectedGone[g] {
				return fail("removed-something-else", fmt.Sprintf("%s: ref %s disappeared; only %v may go", when, g, keysOf(expectedGone)))
			}
		}
		for g := range expectedGone {
			if _, still := now[g]; still {
				kind := "local-ref-survives"
				if strings.HasPrefix(g, "refs/remotes/") {
					kind = "remote-tracking-ref-survives"
				}
				return fail(kind, fmt.Sprintf("%s: %s still exists", when, g))
			}
		}
		if len(changed) > 0 || len(appeared) > 0 {
			return fail("other-refs-touched", fmt.Sprintf("%s: changed %v appeared %v", when, changed, appeared))
		}
		return false
	}
	if checkFrame("after the removal", after) {
		return
	}
	// other entities read back unchanged
	othersAfter, bad := readAllBugs(repo)
	for id, e := range bad {
		if fail("other-entity-broken", id+": "+e) {
			return
		}
	}
	for id, ops := range othersBefore {
		if id == victimId {
			continue
		}
		if strings.Join(othersAfter[id], ",") != strings.Join(ops, ",") {
			if fail("other-entity-changed", id) {
				return
			}
		}
	}
	rc, err := cache.NewRepoCacheNoEvents(repo)
	if err != nil {
		if fail("cache-does-not-open-after-removal/"+Normalize(err.Error()), err.Error()) {
			return
		}
	}
	if lookups("cache opened after the removal", rc) {
		_ = rc.Close()
		return
	}
	// a merge without a new fetch must not bring it back
	for _, rn := range remoteNames {
		for res := range rc.MergeAll(rn) {
			_ = res
		}
	}
	if checkFrame("after MergeAll without a fetch", allRefs()) {
		_ = rc.Close()
		return
	}
	if lookups("after MergeAll without a fetch", rc) {
		_ = rc.Close()
		return
	}
	_ = rc.Close()
	// rebuild from scratch
	_ = os.RemoveAll(filepath.Join(main, ".git", "git-bug", "cache"))
	_ = os.RemoveAll(filepath.Join(main, ".git", "git-bug", "indexes"))
	repo, err = repository.OpenGoGitRepo(main, "git-bug", nil)
	if err != nil {
		tb.Fatalf("harness: %v", err)
	}
	rc, err = cache.NewRepoCacheNoEvents(repo)
	if err != nil {
		tb.Fatalf("harness: %v", err)
	}
	if lookups("after a cache rebuild", rc) {
		_ = rc.Close()
		return
	}
	_ = rc.Close()
	// ---- repeating the removal does no further harm
	_, rerr := remove()
	_ = rerr // an error such as not-found is fine
	repo, err = repository.OpenGoGitRepo(main, "git-bug", nil)
	if err != nil {
		tb.Fatalf("harness: %v", err)
	}
	if checkFrame("after repeating the removal", allRefs()) {
		return
	}
	again, bad2 := readAllBugs(repo)
	if len(bad2) > 0 || len(again) != len(othersAfter) {
		fail("repeated-removal-damages-others", fmt.Sprint(bad2))
	}
}

func uniquePrefix(id string, others []string) string {
	for n := 1; n <= len(id); n++ {
		unique := true
		for _, o := range others {
			if strings.HasPrefix(o, id[:n]) {
				unique = false
			}
		}
		if unique {
			return id[:n]
		}
	}
	return id
}

func TestC14Remove(t *testing.T) {
	Drive(t, "C14", genC14, runC14)
}

// ---------------------------------------------------------------- wipe

type c14WipeCase struct {
	Seed          uint64 `json:"seed"`
	WithIdentity  bool   `json:"with_identity"`
	Bugs          int    `json:"bugs"`
	Bridge        bool   `json:"bridge"`
	Remote        bool   `json:"remote"`
	RemoteOnlyBug bool   `json:"remote_only_bug"` // a remote-tracking ref of a bug that is not local
	ExtraConfig   bool   `json:"extra_config"`
	Packed        bool   `json:"packed,omitempty"` // git pack-refs --all before the wipe
}

func genC14Wipe(t *rapid.T) c14WipeCase {
	return c14WipeCase{Seed: rapid.Uint64().Draw(t, "seed"), WithIdentity: rapid.IntRange(0, 3).Draw(t, "ident") > 0,
		Bugs: rapid.IntRange(0, 4).Draw(t, "bugs"), Bridge: rapid.Bool().Draw(t, "bridge"), Remote: rapid.Bool().Draw(t, "remote"),
		RemoteOnlyBug: rapid.Bool().Draw(t, "remoteOnly"), ExtraConfig: rapid.Bool().Draw(t, "extraConfig"),
		Packed: rapid.IntRange(0, 2).Draw(t, "packed") == 0}
}

func runC14Wipe(tb report.TB, rep *report.Reporter, c c14WipeCase) {
	dir := mkdirTemp("c14w-")
	defer os.RemoveAll(dir)
	main := filepath.Join(dir, "main")
	if res := RunGit(dir, "init", "-q", main); res.Code != 0 {
		tb.Fatalf("harness: git init: %s", res.Out)
	}
	RunGit(main, "commit", "-q", "--allow-empty", "-m", "host commit")
	RunGit(main, "tag", "v1")
	if c.ExtraConfig {
		RunGit(main, "config", "alias.st", "status")
		RunGit(main, "config", "git-bugx.keep", "yes") // a foreign section whose name merely starts the same
	}
	if !c.WithIdentity {
		c.Bugs = 0
	}
	cls := []string{fmt.Sprintf("identity:%v", c.WithIdentity), fmt.Sprintf("bugs:%d", c.Bugs), fmt.Sprintf("bridge:%v", c.Bridge), fmt.Sprintf("remote-only-bug:%v", c.Remote && c.RemoteOnlyBug && c.Bugs > 0)}
	rep.Case(strings.Join(cls, "|"), c.WithIdentity || c.Bridge, cls, c)
	fail := func(sig, detail string) bool { return rep.Fail(tb, "C14/wipe/"+sig, detail, c) }
	if c.WithIdentity {
		if res := RunCLI(main, "user", "new", "-n", "Wiper", "-e", "w@example.org", "--non-interactive"); res.Code != 0 {
			tb.Fatalf("harness: user new: %s", res.Out)
		}
	}
	for i := 0; i < c.Bugs; i++ {
		if res := RunCLI(main, "bug", "new", "-t", fmt.Sprintf("bug %d", i), "-m", "m", "--non-interactive"); res.Code != 0 {
			tb.Fatalf("harness: bug new: %s", res.Out)
		}
	}
	if c.Remote {
		rp := filepath.Join(dir, "remote.git")
		RunGit(dir, "init", "-q", "--bare", rp)
		remoteName := "origin"
		if c.Seed%2 == 1 {
			remoteName = "team/origin" // a remote name may contain a slash
		}
		RunGit(main, "remote", "add", remoteName, rp)
		if c.WithIdentity {
			if res := RunCLI(main, "push", remoteName); res.Code != 0 {
				tb.Fatalf("harness: push: %s", res.Out)
			}
			if c.RemoteOnlyBug && c.Bugs > 0 {
				// a bug known through its remote-tracking ref only
				ids := strings.Fields(RunCLI(main, "bug", "-f", "id").Out)
				if len(ids) > 0 {
					if res := RunGit(main, "update-ref", "-d", "refs/bugs/"+fullId(main, ids[0])); res.Code != 0 {
						tb.Fatalf("harness: %s", res.Out)
					}
					_ = os.RemoveAll(filepath.Join(main, ".git", "git-bug", "cache"))
				}
			}
		}
	}
	if c.Bridge {
		RunGit(main, "config", "git-bug.bridge.mybridge.target", "gitlab")
		RunGit(main, "config", "git-bug.bridge.mybridge.project-id", "42")
	}
	if c.Packed {
		if res := RunGit(main, "pack-refs", "--all"); res.Code != 0 {
			tb.Fatalf("harness: git pack-refs: %s", res.Out)
		}
	}
	hostBefore := RunGit(main, "for-each-ref", "refs/heads", "refs/tags").Out
	res := RunCLI(main, "wipe")
	if res.Code != 0 {
		if fail("command-fails/"+Normalize(lastLine(res.Out)), fmt.Sprintf("git-bug wipe exited %d:\n%s", res.Code, res.Out)) {
			return
		}
	}
	left := RunGit(main, "for-each-ref", "--format=%(refname)").Out
	for _, ref := range strings.Fields(left) {
		parts := strings.Split(ref, "/")
		isGitBug := strings.HasPrefix(ref, "refs/bugs/") || strings.HasPrefix(ref, "refs/identities/") ||
			(len(parts) >= 5 && parts[1] == "remotes" && (parts[len(parts)-2] == "bugs" || parts[len(parts)-2] == "identities") && len(parts[len(parts)-1]) == 64)
		if isGitBug {
			kind := "local-ref-left"
			if parts[1] == "remotes" {
				kind = "remote-tracking-ref-left"
			}
			if fail(kind, ref) {
				return
			}
		}
	}
	cfg := RunGit(main, "config", "--local", "--list").Out
	for _, line := range strings.Split(cfg, "\n") {
		if strings.HasPrefix(line, "git-bug.") {
			if fail("configuration-left", line) {
				return
			}
		}
	}
	if c.ExtraConfig && (!strings.Contains(cfg, "alias.st=status") || !strings.Contains(cfg, "git-bugx.keep=yes")) {
		if fail("foreign-configuration-removed", cfg) {
			return
		}
	}
	if entries, err := os.ReadDir(filepath.Join(main, ".git", "git-bug")); err == nil && len(entries) > 0 {
		var names []string
		for _, e := range entries {
			names = append(names, e.Name())
		}
		if fail("local-storage-left", fmt.Sprintf(".git/git-bug still holds %v", names)) {
			return
		}
	}
	if RunGit(main, "for-each-ref", "refs/heads", "refs/tags").Out != hostBefore {
		fail("host-refs-touched", "")
	}
}

func lastLine(s string) string {
	lines := strings.Split(strings.TrimSpace(s), "\n")
	return lines[len(lines)-1]
}

func fullId(dir, prefix string) string {
	out := RunGit(dir, "for-each-ref", "--format=%(refname)", "refs/bugs/").Out
	for _, ref := range strings.Fields(out) {
		id := strings.TrimPrefix(ref, "refs/bugs/")
		if strings.HasPrefix(id, prefix) {
			return id
		}
	}
	return prefix
}

func TestC14Wipe(t *testing.T) {
	Drive(t, "C14", genC14Wipe, runC14Wipe)
}

// ---------------------------------------------------------------- RemoveAll through the cache (what wipe calls)

type c14AllCase struct {
	Seed       uint64 `json:"seed"`
	Identities int    `json:"identities"`
	Bugs       int    `json:"bugs"`
	Packed     bool   `json:"packed"`
	Remote     bool   `json:"remote"`
}

func genC14All(t *rapid.T) c14AllCase {
	return c14AllCase{Seed: rapid.Uint64().Draw(t, "seed"), Identities: rapid.IntRange(1, 24).Draw(t, "identities"), Bugs: rapid.IntRange(0, 24).Draw(t, "bugs"),
		Packed: rapid.IntRange(0, 3).Draw(t, "packed") > 0, Remote: rapid.Bool().Draw(t, "remote")}
}

// runC14All: RepoCache.RemoveAll (the first step of wipe) leaves no local git-bug ref, whatever the number of
// entities and wherever the refs are stored (loose files or .git/packed-refs).
func runC14All(tb report.TB, rep *report.Reporter, c c14AllCase) {
	entropy.Seed(c.Seed)
	dir := mkdirTemp("c14all-")
	defer os.RemoveAll(dir)
	main := filepath.Join(dir, "main")
	repo, err := repository.InitGoGitRepo(main, "git-bug")
	if err != nil {
		tb.Fatalf("harness: %v", err)
	}
	var me *identity.Identity
	for n := 0; n < c.Identities; n++ {
		id, _, _, err := ondisk.WriteIdentity(repo, "", []ondisk.IdentityVersion{{Version: 2, UnixTime: 1600000000 + int64(n), Name: fmt.Sprintf("user %d", n), Nonce: NonceFor(c.Seed, 11_000_000+n)}})
		if err != nil {
			tb.Fatalf("harness: %v", err)
		}
		if n == 0 {
			if me, err = identity.ReadLocal(repo, entity.Id(id)); err != nil {
				tb.Fatalf("harness: %v", err)
			}
		}
	}
	for n := 0; n < c.Bugs; n++ {
		create := bug.NewCreateOp(me, 1000, fmt.Sprintf("bug %d", n), "body", nil)
		create.Nonce = NonceFor(c.Seed, 11_100_000+n)
		b := bug.NewBug()
		b.Append(create)
		if err := b.Commit(repo); err != nil {
			tb.Fatalf("harness: %v", err)
		}
	}
	if c.Remote {
		rp := filepath.Join(dir, "remote")
		if _, err := repository.InitBareGoGitRepo(rp, "git-bug"); err != nil {
			tb.Fatalf("harness: %v", err)
		}
		if err := repo.AddRemote("origin", rp); err != nil {
			tb.Fatalf("harness: %v", err)
		}
		if _, err := identity.Push(repo, "origin"); err != nil {
			tb.Fatalf("harness: %v", err)
		}
		if _, err := bug.Push(repo, "origin"); err != nil {
			tb.Fatalf("harness: %v", err)
		}
		if _, err := identity.Fetch(repo, "origin"); err != nil {
			tb.Fatalf("harness: %v", err)
		}
		if _, err := bug.Fetch(repo, "origin"); err != nil {
			tb.Fatalf("harness: %v", err)
		}
	}
	_ = repo.Close()
	if c.Packed {
		if res := RunGit(main, "pack-refs", "--all"); res.Code != 0 {
			tb.Fatalf("harness: git pack-refs: %s", res.Out)
		}
	}
	cls := []string{fmt.Sprintf("packed:%v", c.Packed), fmt.Sprintf("remote:%v", c.Remote)}
	if c.Bugs > 0 && c.Identities > 1 {
		cls = append(cls, "both-kinds-several")
	}
	rep.Case(fmt.Sprintf("i%d|b%d|%v|%v", c.Identities, c.Bugs, c.Packed, c.Remote), c.Packed && c.Bugs > 0, cls, c)
	r2, err := repository.OpenGoGitRepo(main, "git-bug", nil)
	if err != nil {
		tb.Fatalf("harness: %v", err)
	}
	rc, err := cache.NewRepoCacheNoEvents(r2)
	if err != nil {
		_ = r2.Close()
		tb.Fatalf("harness: cache: %v", err)
	}
	err = rc.RemoveAll()
	_ = rc.Close()
	if err != nil {
		rep.Fail(tb, "C14/remove-all/fails/"+Normalize(err.Error()), err.Error(), c)
		return
	}
	// judged by stock git
	left := strings.Fields(RunGit(main, "for-each-ref", "--format=%(refname)", "refs/bugs", "refs/identities", "refs/remotes/origin/bugs", "refs/remotes/origin/identities").Out)
	if len(left) > 0 {
		where := "loose"
		if c.Packed {
			where = "packed"
		}
		rep.Fail(tb, "C14/remove-all/ref-left/"+where, fmt.Sprintf("RepoCache.RemoveAll returned nil, %d of %d git-bug refs are still there: %v", len(left), c.Identities+c.Bugs, left), c)
	}
}

func TestC14RemoveAll(t *testing.T) {
	Drive(t, "C14", genC14All, runC14All)
}
