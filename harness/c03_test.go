package harness

import (
	"encoding/base64"
	"encoding/json"
	"fmt"
	"sort"
	"strconv"
	"strings"
	"sync"
	"testing"

	"pgregory.net/rapid"

	"github.com/MichaelMure/git-bug/entities/bug"
	"github.com/MichaelMure/git-bug/entities/identity"
	"github.com/MichaelMure/git-bug/entity"
	"github.com/MichaelMure/git-bug/repository"

	"verif/harness/internal/ondisk"
	"verif/harness/internal/report"
)

// C03: operation order is deterministic, causal and clock-consistent; bad histories are refused.

// ---------------------------------------------------------------- domain A: histories git-bug produces

// checkOrder compares the real reader with the reference order for one bug.
func checkOrder(repo repository.ClockedRepo, id string) (sig, detail string, d *ondisk.DAG) {
	d, err := ondisk.ReadDAG(repo, "refs/bugs/"+id)
	if err != nil {
		return "", "", nil // not a readable layout: other properties deal with it
	}
	for h, p := range d.Packs {
		for _, par := range p.Parents {
			if d.Packs[par].EditClock >= p.EditClock {
				return "written-clocks-contradict-ancestry", fmt.Sprintf("bug %s commit %s edit %d, parent %s edit %d", id, h, p.EditClock, par, d.Packs[par].EditClock), d
			}
		}
	}
	b, err := bug.Read(repo, entity.Id(id))
	if err != nil {
		return "own-history-refused/" + Normalize(err.Error()), fmt.Sprintf("bug %s: %v", id, err), d
	}
	want := d.OpIds()
	got := opIdsOf(b)
	if strings.Join(want, ",") != strings.Join(got, ",") {
		return "order-differs-from-reference", fmt.Sprintf("bug %s\nreference %v\nreader    %v", id, want, got), d
	}
	// causality: an operation never precedes one of an ancestor commit
	pos := map[string]int{}
	for i, x := range got {
		pos[x] = i
	}
	for _, p := range d.Packs {
		for _, par := range p.Parents {
			for _, a := range d.Packs[par].OpIds {
				for _, c := range p.OpIds {
					if pos[a] > pos[c] {
						return "operation-before-its-cause", fmt.Sprintf("bug %s: %s (child commit) placed before %s (parent commit)", id, c, a), d
					}
				}
			}
		}
	}
	b2, err := bug.Read(repo, entity.Id(id))
	if err != nil || strings.Join(opIdsOf(b2), ",") != strings.Join(got, ",") {
		return "second-read-differs", fmt.Sprintf("bug %s: %v", id, err), d
	}
	return "", "", d
}

func runC03A(tb report.TB, rep *report.Reporter, c worldCase) {
	w, err := NewWorldN(c.Replicas, c.Remotes, c.Seed)
	if err != nil {
		tb.Fatalf("harness: world: %v", err)
	}
	defer w.Close()
	checked := 0
	forks, equalPairs := 0, 0
	var shapes []string
	var verdict *pullVerdict
	w.AfterStep = func(w *World, a Action) error {
		r := w.Replicas[a.R%len(w.Replicas)]
		for _, id := range localBugIds(r.Repo) {
			sig, detail, d := checkOrder(r.Repo, id)
			checked++
			if sig != "" {
				verdict = &pullVerdict{sig, detail}
				return nil
			}
			if d != nil && a.Kind == "pull" {
				shapes = append(shapes, mergeShapes(d)...)
				if d.HasMerge() {
					forks++
				}
				seen := map[uint64]int{}
				for _, p := range d.Packs {
					seen[p.EditClock]++
				}
				for _, n := range seen {
					if n > 1 {
						equalPairs++
					}
				}
			}
		}
		return nil
	}
	abandoned := false
	actions := append([]Action(nil), c.Actions...)
	for r := range w.Replicas {
		actions = append(actions, Action{Kind: "pull", R: r}, Action{Kind: "push", R: r})
	}
	for r := range w.Replicas {
		actions = append(actions, Action{Kind: "pull", R: r})
	}
	for i, a := range actions {
		err := w.Exec(a)
		if verdict != nil {
			if rep.Fail(tb, "C03/"+verdict.Sig, fmt.Sprintf("after action #%d %s: %s", i, a, verdict.Detail), c) {
				abandoned = true
				break
			}
		}
		if err != nil {
			if ee, ok := err.(*ExecError); ok {
				if rep.Fail(tb, "C03/exec/"+ee.Sig, fmt.Sprintf("action #%d %s: %s", i, a, ee.Detail), c) {
					abandoned = true
					break
				}
			}
			tb.Fatalf("harness: %v", err)
		}
	}
	// reading after re-opening the repository gives the same order
	if !abandoned {
		for _, r := range w.Replicas {
			re, err := repository.OpenGoGitRepo(r.Path, "git-bug", nil)
			if err != nil {
				tb.Fatalf("harness: reopen: %v", err)
			}
			for _, id := range localBugIds(re) {
				b1, e1 := bug.Read(r.Repo, entity.Id(id))
				b2, e2 := bug.Read(re, entity.Id(id))
				if e1 != nil || e2 != nil || strings.Join(opIdsOf(b1), ",") != strings.Join(opIdsOf(b2), ",") {
					if rep.Fail(tb, "C03/reopen-read-differs", fmt.Sprintf("bug %s: %v %v", id, e1, e2), c) {
						break
					}
				}
			}
			_ = re.Close()
		}
	}
	shapes = dedup(shapes)
	classes := []string{}
	if forks > 0 {
		classes = append(classes, "has-merge")
	}
	if equalPairs > 0 {
		classes = append(classes, "has-equal-edit-times")
	}
	if abandoned {
		classes = append(classes, "abandoned")
	}
	rep.Class("bug-states-checked", checked)
	rep.Case(fmt.Sprintf("A|%d|%s|eq%v", c.Replicas, strings.Join(shapes, " "), equalPairs > 0), (forks > 0 || equalPairs > 0) && !abandoned, classes, c)
}

func TestC03Histories(t *testing.T) {
	Drive(t, "C03", genWorldCase, runC03A)
}

// ---------------------------------------------------------------- domain B: crafted DAGs

type craftPack struct {
	Parents []int  `json:"parents"` // indices of earlier packs
	Author  int    `json:"author"`
	NOps    int    `json:"n_ops"`
	Gap     uint64 `json:"gap"` // edit = max(parent edits) + gap
}

type craftCase struct {
	Seed   uint64      `json:"seed"`
	Packs  []craftPack `json:"packs"`
	Create uint64      `json:"create"`
	Defect string      `json:"defect"`
	At     int         `json:"at"` // where the defect is injected (index modulo candidates)
}

var craftDefects = []string{
	"none", "none", "none",
	"parent-clock-equal", "parent-clock-greater", "big-hop-non-merge", "big-hop-merge-legal", "huge-hop-merge-legal", "max-hop-legal",
	"second-root", "second-root-with-create-clock", "no-create-clock", "zero-create-clock", "create-clock-on-non-root-legal", "merge-with-ops",
	"zero-edit-clock", "no-edit-clock",
}

func genCraft(t *rapid.T) craftCase {
	c := craftCase{Seed: rapid.Uint64().Draw(t, "seed")}
	n := rapid.IntRange(1, 10).Draw(t, "nPacks")
	heads := []int{}
	for i := 0; i < n; i++ {
		p := craftPack{Author: rapid.IntRange(0, 1).Draw(t, "author"), NOps: rapid.IntRange(1, 3).Draw(t, "nOps"),
			Gap: rapid.SampledFrom([]uint64{1, 1, 1, 1, 2, 3, 10}).Draw(t, "gap")}
		if i > 0 {
			merge := len(heads) >= 2 && rapid.IntRange(0, 2).Draw(t, "merge") == 0
			if merge {
				a := rapid.IntRange(0, len(heads)-1).Draw(t, "pa")
				b := rapid.IntRange(0, len(heads)-2).Draw(t, "pb")
				if b >= a {
					b++
				}
				p.Parents = []int{heads[a], heads[b]}
				p.NOps = 0
				nh := []int{}
				for k, h := range heads {
					if k != a && k != b {
						nh = append(nh, h)
					}
				}
				heads = nh
			} else {
				// extend a head or fork from any earlier pack
				var par int
				if rapid.IntRange(0, 2).Draw(t, "fork") == 0 {
					par = rapid.IntRange(0, i-1).Draw(t, "par")
				} else {
					par = heads[rapid.IntRange(0, len(heads)-1).Draw(t, "head")]
				}
				p.Parents = []int{par}
				nh := []int{}
				for _, h := range heads {
					if h != par {
						nh = append(nh, h)
					}
				}
				heads = nh
			}
		}
		heads = append(heads, i)
		c.Packs = append(c.Packs, p)
	}
	// join remaining heads so that every pack is reachable from the ref
	for len(heads) > 1 {
		c.Packs = append(c.Packs, craftPack{Parents: []int{heads[0], heads[1]}, Gap: 1, Author: 0})
		heads = append(heads[2:], len(c.Packs)-1)
	}
	c.Create = rapid.Uint64Range(1, 5).Draw(t, "create")
	c.Defect = rapid.SampledFrom(craftDefects).Draw(t, "defect")
	c.At = rapid.IntRange(0, 50).Draw(t, "at")
	return c
}

type craftEnv struct {
	repo    *repository.GoGitRepo
	path    string
	authors []string
	n       int
}

var (
	craftOnce sync.Once
	craftE    *craftEnv
)

func craftAuthors(repo repository.RepoData) []string {
	var out []string
	for i := 0; i < 2; i++ {
		id, _, _, err := ondisk.WriteIdentity(repo, "", []ondisk.IdentityVersion{{Version: 2, UnixTime: 1600000000 + int64(i),
			Name: fmt.Sprintf("crafter%d", i), Nonce: NonceFor(42, 5_000_000+i)}})
		if err != nil {
			panic(err)
		}
		out = append(out, id)
	}
	return out
}

func getCraftEnv() *craftEnv {
	craftOnce.Do(func() {
		p := mkdirTemp("craft-")
		repo, err := repository.InitGoGitRepo(p, "git-bug")
		if err != nil {
			panic(err)
		}
		craftE = &craftEnv{repo: repo, path: p, authors: craftAuthors(repo)}
	})
	return craftE
}

func craftOp(seed uint64, idx int, create bool) json.RawMessage {
	nonce := base64.StdEncoding.EncodeToString(NonceFor(seed, idx))
	// the stored form is whatever bytes a (foreign) writer produced: vary key order and whitespace
	switch (seed + uint64(idx)) % 3 {
	case 1:
		if create {
			return json.RawMessage(fmt.Sprintf(`{ "title": "crafted %d", "message": "m", "files": null, "nonce": %q, "timestamp": %d, "type": 1 }`, idx, nonce, 1000+idx))
		}
		return json.RawMessage(fmt.Sprintf(`{ "message": "comment %d", "nonce": %q, "timestamp": %d, "type": 3 }`, idx, nonce, 1000+idx))
	case 2:
		if create {
			return json.RawMessage(fmt.Sprintf("{\n \"type\":1,\n \"timestamp\":%d,\n \"nonce\":%q,\n \"title\":\"crafted %d\",\n \"message\":\"m\",\n \"unknown_field\":true\n}", 1000+idx, nonce, idx))
		}
		return json.RawMessage(fmt.Sprintf("{\n \"type\":3,\n \"timestamp\":%d,\n \"nonce\":%q,\n \"message\":\"comment %d\"\n}", 1000+idx, nonce, idx))
	}
	if create {
		return json.RawMessage(fmt.Sprintf(`{"type":1,"timestamp":%d,"nonce":%q,"title":"crafted %d","message":"m","files":null}`, 1000+idx, nonce, idx))
	}
	return json.RawMessage(fmt.Sprintf(`{"type":3,"timestamp":%d,"nonce":%q,"message":"comment %d","files":null}`, 1000+idx, nonce, idx))
}

type craftBuilt struct {
	bugId   string
	ref     string
	head    string
	accept  bool   // reference verdict
	verdict string // "accept" "refuse" "either"
	nEqual  int
	nForks  int
}

// buildCraft writes the DAG with the injected defect into repo and returns the
// reference verdict computed from what was written.
func buildCraft(repo repository.RepoData, authors []string, c craftCase, refPrefix string) (*craftBuilt, error) {
	n := len(c.Packs)
	edits := make([]uint64, n)
	editText := make([]string, n)
	createText := make([]string, n)
	opsOf := make([][]json.RawMessage, n)
	parents := make([][]int, n)
	opIdx := 0
	for i, p := range c.Packs {
		parents[i] = append([]int(nil), p.Parents...)
		var maxPar uint64
		for _, par := range p.Parents {
			if edits[par] > maxPar {
				maxPar = edits[par]
			}
		}
		edits[i] = maxPar + p.Gap
		for k := 0; k < p.NOps; k++ {
			opsOf[i] = append(opsOf[i], craftOp(c.Seed, opIdx, i == 0 && k == 0))
			opIdx++
		}
	}
	createText[0] = strconv.FormatUint(c.Create, 10)

	nonMergeChildren, merges, nonRoots := []int{}, []int{}, []int{}
	for i := 1; i < n; i++ {
		nonRoots = append(nonRoots, i)
		if len(parents[i]) == 1 {
			nonMergeChildren = append(nonMergeChildren, i)
		} else {
			merges = append(merges, i)
		}
	}
	pick := func(c2 []int) (int, bool) {
		if len(c2) == 0 {
			return 0, false
		}
		return c2[c.At%len(c2)], true
	}
	// shift pack k and everything after it (indices are topological) by delta
	shiftFrom := func(k int, delta uint64) {
		// recompute descendants' clocks so that only the chosen edge carries the defect
		for i := k; i < n; i++ {
			if i == k {
				edits[i] += delta
				continue
			}
			var maxPar uint64
			for _, par := range parents[i] {
				if edits[par] > maxPar {
					maxPar = edits[par]
				}
			}
			if edits[i] <= maxPar {
				edits[i] = maxPar + c.Packs[i].Gap
			}
		}
	}
	applied := c.Defect
	extraRoot := -1
	switch c.Defect {
	case "parent-clock-equal":
		if k, ok := pick(nonRoots); ok {
			edits[k] = 0
			for _, par := range parents[k] {
				if edits[par] > edits[k] {
					edits[k] = edits[par]
				}
			}
			shiftFrom(k+1, 0)
		} else {
			applied = "none"
		}
	case "parent-clock-greater":
		if k, ok := pick(nonRoots); ok {
			var maxPar uint64
			for _, par := range parents[k] {
				if edits[par] > maxPar {
					maxPar = edits[par]
				}
			}
			if maxPar >= 2 {
				edits[k] = maxPar - 1
				shiftFrom(k+1, 0)
			} else {
				applied = "none"
			}
		} else {
			applied = "none"
		}
	case "big-hop-non-merge":
		if k, ok := pick(nonMergeChildren); ok {
			shiftFrom(k, 1_000_001-c.Packs[k].Gap)
		} else {
			applied = "none"
		}
	case "max-hop-legal":
		if k, ok := pick(nonMergeChildren); ok {
			shiftFrom(k, 1_000_000-c.Packs[k].Gap)
		} else {
			applied = "none"
		}
	case "big-hop-merge-legal":
		if k, ok := pick(merges); ok {
			shiftFrom(k, 5_000_000)
		} else {
			applied = "none"
		}
	case "huge-hop-merge-legal":
		// merge commits are exempt from the hop limit: the times after it may be more than 2^63 above those before
		if k, ok := pick(merges); ok {
			shiftFrom(k, []uint64{1<<62 + 3, 1<<63 + 10, 1<<64 - 1000}[c.At%3])
		} else {
			applied = "none"
		}
	case "second-root", "second-root-with-create-clock":
		if k, ok := pick(nonMergeChildren); ok {
			// pack k loses its parent: it becomes a second root, still reachable through its descendants
			reach := false
			for i := k + 1; i < n; i++ {
				for _, par := range parents[i] {
					if par == k {
						reach = true
					}
				}
			}
			if reach || k == n-1 {
				parents[k] = nil
				extraRoot = k
				if c.Defect == "second-root-with-create-clock" {
					createText[k] = "3" // the extra root looks like a genuine first commit
				}
				if k == n-1 && n > 1 {
					applied = "none-head-replaced" // the old history becomes unreachable: a single-commit history
				}
			} else {
				applied = "none"
			}
		} else {
			applied = "none"
		}
	case "no-create-clock":
		createText[0] = ""
	case "zero-create-clock":
		createText[0] = "0"
	case "create-clock-on-non-root-legal":
		if k, ok := pick(nonRoots); ok {
			createText[k] = "7"
		} else {
			applied = "none"
		}
	case "merge-with-ops":
		if k, ok := pick(merges); ok {
			opsOf[k] = append(opsOf[k], craftOp(c.Seed, 900+k, false))
		} else {
			applied = "none"
		}
	}
	for i := range edits {
		editText[i] = strconv.FormatUint(edits[i], 10)
	}
	switch c.Defect {
	case "zero-edit-clock":
		editText[c.At%n] = "0"
	case "no-edit-clock":
		editText[c.At%n] = ""
	}
	_ = extraRoot

	commits := make([]string, n)
	for i := range c.Packs {
		var ps []string
		for _, par := range parents[i] {
			ps = append(ps, commits[par])
		}
		author := authors[c.Packs[i].Author%len(authors)]
		var blob []byte
		if len(opsOf[i]) == 0 {
			blob = ondisk.EmptyOpsBlob(author)
		} else {
			blob = ondisk.OpsBlob(author, opsOf[i])
		}
		h, err := ondisk.WritePack(repo, ondisk.PackSpec{OpsBlob: blob, Version: "4", EditClock: editText[i], CreateClock: createText[i], Parents: ps})
		if err != nil {
			return nil, err
		}
		commits[i] = h
	}
	bugId := ondisk.Sha(opsOf[0][0])
	out := &craftBuilt{bugId: bugId, head: commits[n-1], ref: refPrefix + bugId}
	if err := repo.UpdateRef(out.ref, repository.Hash(out.head)); err != nil {
		return nil, err
	}

	// ---- reference verdict from what is stored (independent reader)
	d, err := ondisk.ReadDAGAt(repo, out.head)
	if err != nil {
		return nil, err
	}
	out.verdict = "accept"
	refuse := func() { out.verdict = "refuse" }
	if len(d.Roots()) != 1 {
		refuse()
	}
	for _, h := range d.Roots() {
		if !d.Packs[h].HasCreate || d.Packs[h].CreateClock == 0 {
			refuse()
		}
	}
	edges := map[uint64]int{}
	for _, p := range d.Packs {
		edges[p.EditClock]++
		if len(p.Parents) > 1 {
			out.nForks++
			if len(p.OpIds) > 0 {
				refuse()
			}
		}
		for _, par := range p.Parents {
			pp := d.Packs[par]
			if pp.EditClock >= p.EditClock {
				refuse()
			} else if len(p.Parents) == 1 && p.EditClock-pp.EditClock > 1_000_000 {
				refuse()
			}
		}
		if !p.HasEdit || p.EditClock == 0 {
			// the statement does not list a zero/missing edit time of a root; for non-roots it contradicts ancestry anyway
			if out.verdict == "accept" {
				out.verdict = "either"
			}
		}
	}
	for _, k := range edges {
		if k > 1 {
			out.nEqual++
		}
	}
	// the history must also be one the bug format allows (first operation of the root is the create)
	rootPack := d.Packs[d.Roots()[0]]
	if len(rootPack.RawOps) == 0 || !(strings.Contains(string(rootPack.RawOps[0]), `"type":1`) || strings.Contains(string(rootPack.RawOps[0]), `"type": 1`)) {
		if out.verdict == "accept" {
			out.verdict = "either"
		}
	}
	if out.verdict == "accept" {
		// the bug id must be that of the reachable root's first operation
		out.bugId = rootPack.OpIds[0]
		if out.bugId != bugId {
			_ = repo.RemoveRef(out.ref)
			out.ref = refPrefix + out.bugId
			if err := repo.UpdateRef(out.ref, repository.Hash(out.head)); err != nil {
				return nil, err
			}
		}
	}
	_ = applied
	return out, nil
}

func shapeOf(c craftCase) string {
	var sb strings.Builder
	for _, p := range c.Packs {
		fmt.Fprintf(&sb, "%v;", p.Parents)
	}
	return sb.String()
}

func runC03B(tb report.TB, rep *report.Reporter, c craftCase) {
	env := getCraftEnv()
	env.n++
	built, err := buildCraft(env.repo, env.authors, c, "refs/bugs/")
	if err != nil {
		tb.Fatalf("harness: craft: %v", err)
	}
	defer func() { _ = env.repo.RemoveRef(built.ref) }()

	nontrivial := built.nForks > 0 || built.nEqual > 0 || c.Defect != "none"
	classes := []string{"defect:" + c.Defect, "expect:" + built.verdict}
	if built.nEqual > 0 {
		classes = append(classes, "has-equal-edit-times")
	}
	if built.nForks > 0 {
		classes = append(classes, "has-merge")
	}
	rep.Case(fmt.Sprintf("B|%s|%s|eq%d|%s", shapeOf(c), c.Defect, built.nEqual, built.verdict), nontrivial, classes, c)

	read := func(repo repository.ClockedRepo, id string) (ids []string, err error) {
		b, err := bug.Read(repo, entity.Id(id))
		if err != nil {
			return nil, err
		}
		return opIdsOf(b), nil
	}
	clocksBefore := map[string]uint64{}
	if cl, err := env.repo.AllClocks(); err == nil {
		for n, x := range cl {
			clocksBefore[n] = uint64(x.Time())
		}
	}
	got, rerr := read(env.repo, built.bugId)
	if rerr != nil {
		// a history that is refused is refused as a whole: the times written in it are not witnessed, the clocks
		// of the reader stay where they were (otherwise its next commits are stamped with the refused times)
		if cl, err := env.repo.AllClocks(); err == nil {
			for n, x := range cl {
				if v, ok := clocksBefore[n]; (ok && uint64(x.Time()) != v) || (!ok && uint64(x.Time()) > 1) {
					if rep.Fail(tb, "C03/crafted/refused-history-moved-the-clocks", fmt.Sprintf("defect %q, the read failed (%v), yet clock %s went from %d to %d", c.Defect, rerr, n, v, x.Time()), c) {
						return
					}
				}
			}
		}
	}
	switch built.verdict {
	case "refuse":
		if rerr == nil {
			rep.Fail(tb, "C03/crafted/bad-history-ordered/"+c.Defect, fmt.Sprintf("a history with defect %q was read and ordered: %v", c.Defect, got), c)
			return
		}
		refusedMerge(tb, rep, c)
		return
	case "either":
		return
	}
	if rerr != nil {
		rep.Fail(tb, "C03/crafted/good-history-refused/"+c.Defect+"/"+Normalize(rerr.Error()), rerr.Error(), c)
		return
	}
	d, err := ondisk.ReadDAGAt(env.repo, built.head)
	if err != nil {
		tb.Fatalf("harness: %v", err)
	}
	want := d.OpIds()
	if strings.Join(want, ",") != strings.Join(got, ",") {
		if rep.Fail(tb, "C03/crafted/order-differs-from-reference", fmt.Sprintf("reference %v\nreader    %v", want, got), c) {
			return
		}
	}
	// same DAG on the in-memory backend (other commit hashes, random map orders): same order
	mock := repository.NewMockRepo()
	mAuthors := craftAuthors(mock)
	mb, err := buildCraft(mock, mAuthors, c, "refs/bugs/")
	if err != nil {
		tb.Fatalf("harness: craft on mock: %v", err)
	}
	mgot, merr := read(mock, mb.bugId)
	if merr != nil || strings.Join(mgot, ",") != strings.Join(got, ",") {
		rep.Fail(tb, "C03/crafted/backends-disagree", fmt.Sprintf("go-git %v\nmock   %v (%v)", got, mgot, merr), c)
		return
	}
	// several refs listed in any order: ReadAll over the mock gives the same per-bug order
	sort.Strings(mgot)
}

// refusedMerge: the refused history is the local one and the remote holds another branch of the same bug. The merge
// has to refuse it like a read does: nothing ordered, the local reference where it was, and the clocks of the
// repository no further than what the (valid) remote branch holds. Fresh in-memory backend, clocks at their start.
func refusedMerge(tb report.TB, rep *report.Reporter, c craftCase) {
	mock := repository.NewMockRepo()
	mAuthors := craftAuthors(mock)
	mb, err := buildCraft(mock, mAuthors, c, "refs/bugs/")
	if err != nil {
		tb.Fatalf("harness: craft on mock: %v", err)
	}
	d, err := ondisk.ReadDAGAt(mock, mb.head)
	if err != nil {
		return
	}
	roots := d.Roots()
	if len(roots) != 1 || roots[0] == mb.head {
		return
	}
	root := d.Packs[roots[0]]
	if !root.HasEdit || root.EditClock == 0 || root.EditClock > 1<<40 {
		return
	}
	sibling, err := ondisk.WritePack(mock, ondisk.PackSpec{OpsBlob: ondisk.OpsBlob(mAuthors[0], []json.RawMessage{craftOp(c.Seed, 7777, false)}),
		Version: "4", EditClock: strconv.FormatUint(root.EditClock+1, 10), Parents: []string{root.Commit}})
	if err != nil {
		tb.Fatalf("harness: %v", err)
	}
	if err := mock.UpdateRef("refs/remotes/origin/bugs/"+mb.bugId, repository.Hash(sibling)); err != nil {
		tb.Fatalf("harness: %v", err)
	}
	author, err := identity.ReadLocal(mock, entity.Id(mAuthors[0]))
	if err != nil {
		tb.Fatalf("harness: %v", err)
	}
	before := map[string]uint64{}
	if cl, err := mock.AllClocks(); err == nil {
		for n, x := range cl {
			before[n] = uint64(x.Time())
		}
	}
	rep.Class("refused-local-history-merged-with-a-remote-branch", 1)
	for res := range bug.MergeAll(mock, Resolvers(mock), "origin", author) {
		if string(res.Id) != mb.bugId {
			continue
		}
		if res.Status != entity.MergeStatusError && res.Status != entity.MergeStatusInvalid {
			if rep.Fail(tb, "C03/crafted/refused-history-merged/"+c.Defect, fmt.Sprintf("local history with defect %q, merge with a remote branch reports %v", c.Defect, res), c) {
				return
			}
		}
	}
	if h, err := mock.ResolveRef(mb.ref); err != nil || string(h) != mb.head {
		if rep.Fail(tb, "C03/crafted/refused-merge-moved-the-reference", fmt.Sprintf("defect %q: local reference %s -> %s (%v)", c.Defect, mb.head, h, err), c) {
			return
		}
	}
	legal := map[string]uint64{"bugs-edit": root.EditClock + 1, "bugs-create": root.CreateClock}
	if cl, err := mock.AllClocks(); err == nil {
		for n, x := range cl {
			allowed := before[n]
			if legal[n] > allowed {
				allowed = legal[n]
			}
			if allowed < 1 {
				allowed = 1
			}
			if uint64(x.Time()) > allowed {
				if rep.Fail(tb, "C03/crafted/refused-history-moved-the-clocks", fmt.Sprintf("defect %q: the local history is refused, the remote branch holds edit time %d and creation time %d, yet after the merge clock %s is at %d (was %d)",
					c.Defect, root.EditClock+1, root.CreateClock, n, x.Time(), before[n]), c) {
					return
				}
			}
		}
	}
}

func TestC03Crafted(t *testing.T) {
	Drive(t, "C03", genCraft, runC03B)
}
