package harness

import (
	"encoding/json"
	"fmt"
	"os"
	"path/filepath"
	"sort"
	"strings"
	"time"

	"pgregory.net/rapid"

	"github.com/MichaelMure/git-bug/cache"
	"github.com/MichaelMure/git-bug/entities/identity"
	"github.com/MichaelMure/git-bug/entity"
	"github.com/MichaelMure/git-bug/query"
	"github.com/MichaelMure/git-bug/repository"

	"verif/harness/internal/entropy"
	"verif/harness/internal/ondisk"
)

// ---------------------------------------------------------------- cache-level world

// CReplica is a repository used only through cache.RepoCache, like the CLI, the web UI and the bridges do.
type CReplica struct {
	Idx   int
	Path  string
	Repo  *repository.GoGitRepo
	Cache *cache.RepoCache
	User  entity.Id
}

type CWorld struct {
	Dir        string
	RemotePath string
	R          []*CReplica
	Seed       uint64
	Tokens     []string // unique words planted in titles and comments, for full-text search
	seq        int
}

var cUserNames = []string{"Alice Anderson", "bob BUILDER", "Carol"}

// NewCWorld builds n replicas sharing a bare remote, one user each, every identity known everywhere.
func NewCWorld(n int, seed uint64) (*CWorld, error) {
	entropy.Seed(seed)
	w := &CWorld{Dir: mkdirTemp("cworld-"), Seed: seed}
	w.RemotePath = filepath.Join(w.Dir, "remote")
	if _, err := repository.InitBareGoGitRepo(w.RemotePath, "git-bug"); err != nil {
		return nil, err
	}
	for i := 0; i < n; i++ {
		p := filepath.Join(w.Dir, fmt.Sprintf("c%d", i))
		repo, err := repository.InitGoGitRepo(p, "git-bug")
		if err != nil {
			return nil, err
		}
		if err := repo.AddRemote("origin", w.RemotePath); err != nil {
			return nil, err
		}
		rc, err := cache.NewRepoCacheNoEvents(repo)
		if err != nil {
			return nil, err
		}
		r := &CReplica{Idx: i, Path: p, Repo: repo, Cache: rc}
		ic, err := rc.Identities().NewRaw(cUserNames[i%len(cUserNames)], fmt.Sprintf("u%d@example.org", i), fmt.Sprintf("login%d", i), "", nil,
			map[string]string{"origin-id": fmt.Sprintf("user-%d", i)})
		if err != nil {
			return nil, err
		}
		if err := rc.SetUserIdentity(ic); err != nil {
			return nil, err
		}
		r.User = ic.Id()
		w.R = append(w.R, r)
	}
	for _, r := range w.R {
		if _, err := r.Cache.Push("origin"); err != nil {
			return nil, fmt.Errorf("initial push: %w", err)
		}
	}
	for _, r := range w.R {
		if err := r.Cache.Pull("origin"); err != nil {
			return nil, fmt.Errorf("initial pull: %w", err)
		}
	}
	return w, nil
}

func (w *CWorld) Close() {
	for _, r := range w.R {
		if r.Cache != nil {
			_ = r.Cache.Close()
		}
	}
	_ = os.RemoveAll(w.Dir)
}

// Reopen closes the cache and the repository and opens them again (cache loaded from disk).
func (w *CWorld) Reopen(r *CReplica) error {
	if err := r.Cache.Close(); err != nil {
		return fmt.Errorf("close: %w", err)
	}
	repo, err := repository.OpenGoGitRepo(r.Path, "git-bug", nil)
	if err != nil {
		return err
	}
	rc, err := cache.NewRepoCacheNoEvents(repo)
	if err != nil {
		return err
	}
	r.Repo, r.Cache = repo, rc
	return nil
}

// ---------------------------------------------------------------- actions

type CAction struct {
	Kind    string            `json:"kind"` // new edit push pull remove cachesize reopen newident mutident
	R       int               `json:"r"`
	Bug     int               `json:"bug,omitempty"`
	Edits   []CEdit           `json:"edits,omitempty"`
	Title   string            `json:"title,omitempty"`
	Message string            `json:"message,omitempty"`
	Size    int               `json:"size,omitempty"`
	Time    int64             `json:"time,omitempty"`
	Meta    map[string]string `json:"meta,omitempty"`
}

type CEdit struct {
	Kind   string   `json:"kind"` // comment title open close labels editcomment editcreate setmeta
	Text   string   `json:"text,omitempty"`
	Add    []string `json:"add,omitempty"`
	Remove []string `json:"remove,omitempty"`
	Target int      `json:"target,omitempty"`
}

func GenCActions(n int, minLen, maxLen int) *rapid.Generator[[]CAction] {
	edit := rapid.Custom(func(t *rapid.T) CEdit {
		e := CEdit{Kind: rapid.SampledFrom([]string{"comment", "comment", "title", "open", "close", "labels", "labels", "editcomment", "editcreate", "setmeta"}).Draw(t, "ekind")}
		switch e.Kind {
		case "comment", "editcomment", "editcreate":
			e.Text = rapid.OneOf(rapid.SampledFrom([]string{"plain words here", "Crash in the PARSER", "needs more coffee"}), GenMessage()).Draw(t, "text")
			e.Target = rapid.IntRange(0, 6).Draw(t, "target")
		case "title":
			e.Text = rapid.OneOf(rapid.SampledFrom([]string{"Crash on start", "crash ON exit", "Docs typo"}), GenTitle()).Draw(t, "text")
		case "labels":
			e.Add = rapid.SliceOfN(rapid.SampledFrom([]string{"bug", "ui", "Good first issue", "wontfix"}), 0, 2).Draw(t, "add")
			e.Remove = rapid.SliceOfN(rapid.SampledFrom([]string{"bug", "ui", "Good first issue", "wontfix"}), 0, 2).Draw(t, "remove")
		case "setmeta":
			e.Target = rapid.IntRange(0, 6).Draw(t, "target")
			e.Text = rapid.SampledFrom([]string{"k1", "k2", "gitlab-id"}).Draw(t, "key")
		}
		return e
	})
	one := rapid.Custom(func(t *rapid.T) CAction {
		a := CAction{Kind: rapid.SampledFrom([]string{"new", "new", "edit", "edit", "edit", "edit", "edit", "push", "push", "pull", "pull", "pull", "remove", "cachesize", "reopen", "rebuild", "dropindex", "gc", "newident", "mutident"}).Draw(t, "kind"),
			R: rapid.IntRange(0, n-1).Draw(t, "r"), Time: rapid.Int64Range(1_000_000, 2_000_000_000).Draw(t, "time")}
		switch a.Kind {
		case "new":
			a.Title = rapid.OneOf(rapid.SampledFrom([]string{"Crash on start", "Feature: dark mode", "docs"}), GenTitle()).Draw(t, "title")
			a.Message = GenMessage().Draw(t, "message")
			if rapid.IntRange(0, 2).Draw(t, "hasMeta") == 0 {
				a.Meta = map[string]string{"gitlab-id": fmt.Sprint(rapid.IntRange(1, 4).Draw(t, "gid"))}
			}
		case "edit":
			a.Bug = rapid.IntRange(0, 7).Draw(t, "bug")
			a.Edits = rapid.SliceOfN(edit, 1, 3).Draw(t, "edits")
		case "remove":
			a.Bug = rapid.IntRange(0, 7).Draw(t, "bug")
		case "cachesize":
			a.Size = rapid.IntRange(1, 3).Draw(t, "size")
			a.Bug = rapid.IntRange(0, 7).Draw(t, "bug")
		case "mutident":
			a.Title = rapid.SampledFrom([]string{"Alice Renamed", "bob again", "Zed"}).Draw(t, "name")
		case "newident":
			a.Title = rapid.SampledFrom([]string{"Dave", "Eve Adams", "mallory"}).Draw(t, "name")
		}
		return a
	})
	return rapid.SliceOfN(one, minLen, maxLen)
}

func sortedIds(ids []entity.Id) []string {
	out := make([]string, len(ids))
	for i, id := range ids {
		out[i] = string(id)
	}
	sort.Strings(out)
	return out
}

// CExecResult tells what an action did, for classification.
type CExecResult struct {
	PullUpdatedExisting bool
	Evicted             bool
	Reopened            bool
	Removed             string
	EditedBug           string
	Rebuilt             bool
}

// Exec runs one action through the cache API. Handles are resolved anew for every action, the way
// the CLI commands and the GraphQL resolvers work.
func (w *CWorld) Exec(a CAction) (res CExecResult, err error) {
	r := w.R[a.R%len(w.R)]
	rc := r.Cache
	me, err := rc.GetUserIdentity()
	if err != nil {
		return res, &ExecError{"no-user-identity/" + Normalize(err.Error()), err.Error()}
	}
	ids := sortedIds(rc.Bugs().AllIds())
	switch a.Kind {
	case "new":
		w.seq++
		tok := fmt.Sprintf("tok%dx%d", w.seq, w.Seed%1000)
		w.Tokens = append(w.Tokens, tok)
		_, _, err := rc.Bugs().NewRaw(me, a.Time, a.Title+" "+tok, a.Message, nil, a.Meta)
		if err != nil {
			return res, nil // refused by validation: legal
		}
	case "edit":
		if len(ids) == 0 {
			return res, nil
		}
		id := ids[a.Bug%len(ids)]
		res.EditedBug = id
		bc, err := rc.Bugs().Resolve(entity.Id(id))
		if err != nil {
			return res, &ExecError{"resolve/" + Normalize(err.Error()), fmt.Sprintf("bug %s listed by the cache cannot be resolved: %v", id, err)}
		}
		var diskBefore []string
		if d, err := ondisk.ReadDAG(r.Repo, "refs/bugs/"+id); err == nil {
			diskBefore = d.OpIds()
		}
		for _, e := range a.Edits {
			snap := bc.Snapshot()
			switch e.Kind {
			case "comment":
				w.seq++
				tok := fmt.Sprintf("cmt%dx%d", w.seq, w.Seed%1000)
				w.Tokens = append(w.Tokens, tok)
				_, _, _ = bc.AddCommentRaw(me, a.Time, e.Text+" "+tok, nil, nil)
			case "title":
				_, _ = bc.SetTitleRaw(me, a.Time, e.Text, nil)
			case "open":
				_, _ = bc.OpenRaw(me, a.Time, nil)
			case "close":
				_, _ = bc.CloseRaw(me, a.Time, nil)
			case "labels":
				_, _, _ = bc.ChangeLabelsRaw(me, a.Time, e.Add, e.Remove, nil)
			case "editcomment":
				if len(snap.Comments) > 0 {
					c := snap.Comments[e.Target%len(snap.Comments)]
					_, _ = bc.EditCommentRaw(me, a.Time, c.CombinedId(), e.Text, nil)
				}
			case "editcreate":
				_, _, _ = bc.EditCreateCommentRaw(me, a.Time, e.Text, nil)
			case "setmeta":
				ops := snap.Operations
				_, _ = bc.SetMetadataRaw(me, a.Time, ops[e.Target%len(ops)].Id(), map[string]string{e.Text: "v" + fmt.Sprint(e.Target)})
			}
		}
		if bc.NeedCommit() {
			if err := bc.Commit(); err != nil {
				return res, &ExecError{"commit/" + Normalize(err.Error()), fmt.Sprintf("bug %s: %v", id, err)}
			}
			if d, err := ondisk.ReadDAG(r.Repo, "refs/bugs/"+id); err == nil {
				after := setOf(d.OpIds())
				for _, x := range diskBefore {
					if !after[x] {
						return res, &ExecError{"edit-drops-stored-operations", fmt.Sprintf("replica %d bug %s: a commit through the cache removed stored operation %s from the history", r.Idx, id, x)}
					}
				}
			}
		}
	case "push":
		out, err := rc.Push("origin")
		if os.Getenv("VERIF_DEBUG_SYNC") != "" {
			fmt.Fprintf(os.Stderr, "push r%d: %q err=%v\n", a.R, out, err)
		}
		if err != nil && !isPushRejection(err) {
			return res, &ExecError{"push/" + Normalize(err.Error()), err.Error()}
		}
	case "pull":
		before := map[string]string{}
		for _, id := range ids {
			if h, err := r.Repo.ResolveRef("refs/bugs/" + id); err == nil {
				before[id] = string(h)
			}
		}
		if _, err := rc.Fetch("origin"); err != nil {
			return res, &ExecError{"fetch/" + Normalize(err.Error()), err.Error()}
		}
		for mr := range rc.MergeAll("origin") {
			if mr.Err != nil {
				return res, &ExecError{"merge-error/" + Normalize(mr.Err.Error()), mr.Err.Error()}
			}
			if mr.Status == entity.MergeStatusInvalid {
				return res, &ExecError{"merge-invalid-in-honest-world/" + Normalize(mr.Reason), fmt.Sprintf("%s: %s", mr.Id, mr.Reason)}
			}
			if mr.Status == entity.MergeStatusUpdated {
				if _, ok := before[string(mr.Id)]; ok {
					res.PullUpdatedExisting = true
				}
			}
		}
	case "remove":
		if len(ids) == 0 {
			return res, nil
		}
		id := ids[a.Bug%len(ids)]
		if err := rc.Bugs().Remove(id); err != nil {
			return res, &ExecError{"remove/" + Normalize(err.Error()), err.Error()}
		}
		res.Removed = id
	case "cachesize":
		rc.Bugs().SetCacheSize(a.Size)
		if len(ids) > a.Size {
			res.Evicted = true
		}
		for k := 0; k < len(ids) && k < 4; k++ {
			if _, err := rc.Bugs().Resolve(entity.Id(ids[(a.Bug+k)%len(ids)])); err != nil {
				return res, &ExecError{"resolve-under-small-cache/" + Normalize(err.Error()), err.Error()}
			}
		}
	case "reopen":
		if err := w.Reopen(r); err != nil {
			return res, &ExecError{"reopen/" + Normalize(err.Error()), err.Error()}
		}
		res.Reopened = true
	case "gc":
		// between two sessions the user's git collects garbage: objects and refs get packed
		if err := r.Cache.Close(); err != nil {
			return res, &ExecError{"close/" + Normalize(err.Error()), err.Error()}
		}
		if g := RunGit(r.Path, "gc", "-q", "--prune=now"); g.Code != 0 {
			return res, &ExecError{"stock-git-gc-fails/" + Normalize(g.Out), g.Out}
		}
		repo, err := repository.OpenGoGitRepo(r.Path, "git-bug", nil)
		if err != nil {
			return res, err
		}
		nrc, err := cache.NewRepoCacheNoEvents(repo)
		if err != nil {
			return res, &ExecError{"open-after-gc/" + Normalize(err.Error()), err.Error()}
		}
		r.Repo, r.Cache = repo, nrc
		res.Reopened = true
	case "rebuild":
		// the cache files are lost (or of an older format): the next open builds the cache from git, and the
		// process goes on working with that instance
		if err := r.Cache.Close(); err != nil {
			return res, &ExecError{"close/" + Normalize(err.Error()), err.Error()}
		}
		if err := os.RemoveAll(filepath.Join(r.Path, ".git", "git-bug", "cache")); err != nil {
			return res, err
		}
		repo, err := repository.OpenGoGitRepo(r.Path, "git-bug", nil)
		if err != nil {
			return res, err
		}
		nrc, err := cache.NewRepoCacheNoEvents(repo)
		if err != nil {
			return res, &ExecError{"rebuild/" + Normalize(err.Error()), err.Error()}
		}
		r.Repo, r.Cache = repo, nrc
		res.Reopened = true
		res.Rebuilt = true
	case "race":
		// two requests of one long-lived process edit the same bug at the same moment (comment || labels), a few
		// times in a row, with the schedule perturbed at the cache's lock boundaries; both are acknowledged
		if len(ids) == 0 {
			return res, nil
		}
		id := ids[a.Bug%len(ids)]
		res.EditedBug = id
		user, err := rc.GetUserIdentity()
		if err != nil {
			return res, err
		}
		// the first request is parked just before its K-th acquisition of a cache mutex (K = a.Size), the second one
		// runs meanwhile (or waits for a lock the first holds), then the first goes on
		mark, parked, release, stop := parkAt(a.Size)
		first := make(chan struct{})
		go func() {
			defer close(first)
			mark()
			if bc, err := rc.Bugs().Resolve(entity.Id(id)); err == nil {
				_, _, _ = bc.AddCommentRaw(user, int64(1_900_000+w.seq*10), "at the same moment", nil, nil)
				_ = bc.CommitAsNeeded()
			}
		}()
		select {
		case <-parked:
		case <-first:
		case <-time.After(20 * time.Second):
		}
		second := make(chan struct{})
		go func() {
			defer close(second)
			if bc, err := rc.Bugs().Resolve(entity.Id(id)); err == nil {
				_, _, _ = bc.ChangeLabelsRaw(user, int64(1_900_001+w.seq*10), []string{fmt.Sprintf("race-%d", w.seq)}, nil, nil)
				_ = bc.CommitAsNeeded()
			}
		}()
		select {
		case <-second:
		case <-time.After(150 * time.Millisecond):
		}
		release()
		for _, ch := range []chan struct{}{first, second} {
			select {
			case <-ch:
			case <-time.After(30 * time.Second):
				stop()
				return res, &ExecError{"simultaneous-requests-never-return", "two requests on one bug, the first parked before its lock acquisition #" + fmt.Sprint(a.Size)}
			}
		}
		stop()
		w.seq++
	case "dropindex":
		// the search index directory is lost while the cache files survive (a partial restore, a cleaning tool, an
		// interrupted rebuild): the next open has to notice
		if err := r.Cache.Close(); err != nil {
			return res, &ExecError{"close/" + Normalize(err.Error()), err.Error()}
		}
		if err := os.RemoveAll(filepath.Join(r.Path, ".git", "git-bug", "indexes")); err != nil {
			return res, err
		}
		repo, err := repository.OpenGoGitRepo(r.Path, "git-bug", nil)
		if err != nil {
			return res, err
		}
		nrc, err := cache.NewRepoCacheNoEvents(repo)
		if err != nil {
			return res, &ExecError{"open-without-index-directory/" + Normalize(err.Error()), err.Error()}
		}
		r.Repo, r.Cache = repo, nrc
		res.Reopened = true
	case "newident":
		if _, err := rc.Identities().NewRaw(a.Title, "x@example.org", "", "", nil, map[string]string{"origin-id": fmt.Sprintf("extra-%d", w.seq)}); err != nil {
			return res, &ExecError{"new-identity/" + Normalize(err.Error()), err.Error()}
		}
		w.seq++
	case "mutident":
		ic, err := rc.Identities().Resolve(r.User)
		if err != nil {
			return res, &ExecError{"resolve-identity/" + Normalize(err.Error()), err.Error()}
		}
		if err := ic.Mutate(r.Repo, func(m *identity.Mutator) { m.Name = a.Title }); err != nil {
			return res, &ExecError{"mutate-identity/" + Normalize(err.Error()), err.Error()}
		}
		if ic.NeedCommit() {
			if err := ic.Commit(); err != nil {
				return res, &ExecError{"commit-identity/" + Normalize(err.Error()), err.Error()}
			}
		}
	default:
		panic("unknown action " + a.Kind)
	}
	return res, nil
}

// ---------------------------------------------------------------- what a cache serves

// CacheView is everything observable through the cache API, in a canonical form.
type CacheView map[string]string

var cQueryBattery = []string{
	"status:open", "status:closed", "status:open status:closed", "author:alice", "author:bob", "author:login1", "actor:alice", "actor:bob",
	"participant:carol", "participant:alice participant:bob", "label:bug", "label:bug label:ui", `label:"Good first issue"`, "no:label",
	"title:crash", "title:crash title:start", "metadata:gitlab-id:1", "metadata:gitlab-id:1 metadata:gitlab-id:2",
	"sort:id", "sort:id-asc", "sort:creation", "sort:creation-asc", "sort:edit", "sort:edit-asc", "status:open label:bug sort:id-desc",
	"crash", "coffee parser", "status:closed crash",
}

// ViewOf collects the view of a cache. extraQueries are added to the fixed battery.
func ViewOf(rc *cache.RepoCache, tokens []string, extraQueries []string) (CacheView, error) {
	v := CacheView{}
	bugIds := sortedIds(rc.Bugs().AllIds())
	v["bug-ids"] = strings.Join(bugIds, ",")
	for _, id := range bugIds {
		ex, err := rc.Bugs().ResolveExcerpt(entity.Id(id))
		if err != nil {
			v["excerpt/"+id] = "ERR " + err.Error()
			continue
		}
		md, _ := json.Marshal(ex.CreateMetadata)
		v["excerpt/"+id] = fmt.Sprintf("create=%d/%d edit=%d/%d author=%s status=%d labels=%q title=%q comments=%d actors=%v participants=%v meta=%s",
			ex.CreateLamportTime, ex.CreateUnixTime, ex.EditLamportTime, ex.EditUnixTime, ex.AuthorId, ex.Status, ex.Labels, ex.Title, ex.LenComments,
			sortedIds(ex.Actors), sortedIds(ex.Participants), md)
		bc, err := rc.Bugs().Resolve(entity.Id(id))
		if err != nil {
			v["snapshot/"+id] = "ERR " + err.Error()
			continue
		}
		st := ProjectSnapshot(bc.Snapshot())
		sj, _ := json.Marshal(st)
		v["snapshot/"+id] = string(sj)
	}
	identIds := sortedIds(rc.Identities().AllIds())
	v["identity-ids"] = strings.Join(identIds, ",")
	for _, id := range identIds {
		ex, err := rc.Identities().ResolveExcerpt(entity.Id(id))
		if err != nil {
			v["identity-excerpt/"+id] = "ERR " + err.Error()
		} else {
			md, _ := json.Marshal(ex.ImmutableMetadata)
			v["identity-excerpt/"+id] = fmt.Sprintf("name=%q login=%q meta=%s", ex.Name, ex.Login, md)
		}
		ic, err := rc.Identities().Resolve(entity.Id(id))
		if err != nil {
			v["identity/"+id] = "ERR " + err.Error()
		} else {
			md, _ := json.Marshal(ic.MutableMetadata())
			v["identity/"+id] = fmt.Sprintf("name=%q login=%q email=%q meta=%s", ic.Name(), ic.Login(), ic.Email(), md)
		}
	}
	v["valid-labels"] = fmt.Sprintf("%q", rc.Bugs().ValidLabels())
	queries := append(append([]string(nil), cQueryBattery...), extraQueries...)
	for _, t := range tokens {
		queries = append(queries, t)
	}
	for _, qs := range queries {
		q, err := query.Parse(qs)
		if err != nil {
			v["query/"+qs] = "PARSE-ERR"
			continue
		}
		res, err := safeQuery(rc, q)
		if err != nil {
			v["query/"+qs] = "ERR " + err.Error()
			continue
		}
		set := sortedIds(res)
		v["query/"+qs] = strings.Join(set, ",")
		if strings.Contains(qs, "sort:id") {
			ordered := make([]string, len(res))
			for i, id := range res {
				ordered[i] = string(id)
			}
			v["query-order/"+qs] = strings.Join(ordered, ",")
		}
	}
	for _, kv := range [][2]string{{"gitlab-id", "1"}, {"gitlab-id", "2"}, {"gitlab-id", "3"}} {
		b, err := rc.Bugs().ResolveBugCreateMetadata(kv[0], kv[1])
		if err != nil {
			v["bug-by-metadata/"+kv[1]] = "ERR " + errClass(err)
		} else {
			v["bug-by-metadata/"+kv[1]] = string(b.Id())
		}
	}
	for _, val := range []string{"user-0", "user-1", "extra-0", "extra-1"} {
		i, err := rc.Identities().ResolveIdentityImmutableMetadata("origin-id", val)
		if err != nil {
			v["identity-by-metadata/"+val] = "ERR " + errClass(err)
		} else {
			v["identity-by-metadata/"+val] = string(i.Id())
		}
	}
	return v, nil
}

func errClass(err error) string {
	switch {
	case entity.IsErrNotFound(err):
		return "not-found"
	case entity.IsErrMultipleMatch(err):
		return "multiple-match"
	}
	return Normalize(err.Error())
}

func safeQuery(rc *cache.RepoCache, q *query.Query) (ids []entity.Id, err error) {
	defer func() {
		if r := recover(); r != nil {
			err = fmt.Errorf("panic: %v", r)
		}
	}()
	return rc.Bugs().Query(q)
}

// RebuiltView copies the repository, drops everything derived (cache files, indexes, lock) and builds a fresh cache there.
func (w *CWorld) RebuiltView(r *CReplica, extraQueries []string) (CacheView, error) {
	tmp := filepath.Join(w.Dir, fmt.Sprintf("rebuild-%d", r.Idx))
	defer os.RemoveAll(tmp)
	if err := copyDir(r.Path, tmp); err != nil {
		return nil, err
	}
	for _, sub := range []string{"cache", "indexes", "lock"} {
		_ = os.RemoveAll(filepath.Join(tmp, ".git", "git-bug", sub))
	}
	repo, err := repository.OpenGoGitRepo(tmp, "git-bug", nil)
	if err != nil {
		return nil, err
	}
	rc, err := cache.NewRepoCacheNoEvents(repo)
	if err != nil {
		return nil, fmt.Errorf("rebuild: %w", err)
	}
	defer rc.Close()
	return ViewOf(rc, w.Tokens, extraQueries)
}

// DiffViews returns the first difference (sorted by key), or "".
func DiffViews(live, rebuilt CacheView) (aspect, detail string) {
	keys := map[string]bool{}
	for k := range live {
		keys[k] = true
	}
	for k := range rebuilt {
		keys[k] = true
	}
	sorted := make([]string, 0, len(keys))
	for k := range keys {
		sorted = append(sorted, k)
	}
	sort.Strings(sorted)
	for _, k := range sorted {
		l, lok := live[k]
		rb, rok := rebuilt[k]
		if l != rb || lok != rok {
			aspect = k
			if i := strings.Index(k, "/"); i > 0 {
				aspect = k[:i]
			}
			if strings.HasPrefix(k, "query/") {
				q := k[len("query/"):]
				if strings.HasPrefix(q, "tok") || strings.HasPrefix(q, "cmt") {
					aspect = "search-planted-token"
				} else if !strings.Contains(q, ":") {
					aspect = "search"
				}
			}
			return aspect, fmt.Sprintf("%s\n  live cache: %s\n  rebuilt   : %s", k, l, rb)
		}
	}
	return "", ""
}
