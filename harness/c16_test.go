package harness

import (
	"context"
	"fmt"
	"os"
	"path/filepath"
	"sort"
	"strings"
	"sync"
	"testing"
	"time"

	"pgregory.net/rapid"

	"github.com/MichaelMure/git-bug/bridge"
	"github.com/MichaelMure/git-bug/bridge/core"
	"github.com/MichaelMure/git-bug/bridge/core/auth"
	"github.com/MichaelMure/git-bug/cache"
	"github.com/MichaelMure/git-bug/entities/bug"
	"github.com/MichaelMure/git-bug/entities/identity"
	"github.com/MichaelMure/git-bug/entity"
	"github.com/MichaelMure/git-bug/repository"
	"github.com/MichaelMure/git-bug/util/text"

	"verif/harness/internal/gitlabsim"
	"verif/harness/internal/ondisk"
	"verif/harness/internal/report"
)

// C16: bridge imports are idempotent, incremental and resumable after failures (simulated GitLab).

type c16Event struct {
	Issue int    `json:"issue"`
	Kind  string `json:"kind"` // comment editcomment title description close reopen addlabel removelabel touch
	User  int    `json:"user"`
	Text  string `json:"text,omitempty"`
	Note  int    `json:"note,omitempty"`
}

type c16Issue struct {
	Author int    `json:"author"`
	Title  string `json:"title"`
	Desc   string `json:"desc"`
}

type c16Round struct {
	NewIssues []c16Issue `json:"new_issues,omitempty"`
	Events    []c16Event `json:"events,omitempty"`
}

type c16Case struct {
	Seed      uint64     `json:"seed"`
	Rounds    []c16Round `json:"rounds"`     // tracker growth before each import round (round 0 = initial state)
	FaultAt   int        `json:"fault_at"`   // replay: a single request index of the faulty round (-1 = enumerate)
	FaultCode int        `json:"fault_code"` // replay: status of the injected failure
}

var c16HostileTexts = []string{
	"plain text", "line one\r\nline two\r\n", "bell \x07 and escape \x1b[31m", "rtl ‮ txet", "emoji 🐛🐞", "  padded  ", "tab\tseparated",
	strings.Repeat("long ", 300), "nul\x00byte", "日本語のコメント", "",
}

func genC16(t *rapid.T) c16Case {
	c := c16Case{Seed: rapid.Uint64().Draw(t, "seed"), FaultAt: -1}
	text := rapid.OneOf(rapid.SampledFrom(c16HostileTexts), GenMessage())
	title := rapid.OneOf(rapid.SampledFrom([]string{"Crash on start", "a title with ** stars", "ctrl\x07title", "  padded title "}), GenTitle())
	nRounds := rapid.IntRange(2, 3).Draw(t, "rounds")
	nIssues := 0
	for r := 0; r < nRounds; r++ {
		var round c16Round
		ni := rapid.IntRange(0, 2).Draw(t, "newIssues")
		if r == 0 && ni == 0 {
			ni = 1
		}
		for i := 0; i < ni; i++ {
			round.NewIssues = append(round.NewIssues, c16Issue{Author: rapid.IntRange(0, 3).Draw(t, "author"), Title: title.Draw(t, "title"), Desc: text.Draw(t, "desc")})
		}
		nIssues += ni
		ne := rapid.IntRange(0, 6).Draw(t, "nEvents")
		for i := 0; i < ne; i++ {
			round.Events = append(round.Events, c16Event{
				Issue: rapid.IntRange(0, nIssues-1).Draw(t, "issue"),
				Kind:  rapid.SampledFrom([]string{"comment", "comment", "editcomment", "title", "description", "close", "reopen", "addlabel", "addlabel", "removelabel", "touch"}).Draw(t, "kind"),
				User:  rapid.IntRange(0, 3).Draw(t, "user"),
				Text:  text.Draw(t, "text"),
				Note:  rapid.IntRange(0, 5).Draw(t, "note"),
			})
		}
		c.Rounds = append(c.Rounds, round)
	}
	if rapid.IntRange(0, 2).Draw(t, "labelComesAndGoes") == 0 {
		// an issue gets its only label in the first round and loses it in the last one: afterwards the tracker lists
		// it without any label, although label events remain to be imported
		k := rapid.IntRange(0, len(c.Rounds[0].NewIssues)-1).Draw(t, "labelIssue")
		l := rapid.IntRange(0, 3).Draw(t, "label")
		c.Rounds[0].Events = append(c.Rounds[0].Events, c16Event{Issue: k, Kind: "addlabel", User: 1, Note: l})
		last := len(c.Rounds) - 1
		c.Rounds[last].Events = append(c.Rounds[last].Events, c16Event{Issue: k, Kind: "removelabel", User: 2, Note: l})
	}
	if rapid.IntRange(0, 2).Draw(t, "descEveryRound") == 0 {
		// the description of one issue is edited again in every round: each import meets the older
		// "changed the description" notes again, next to a new one
		k := rapid.IntRange(0, len(c.Rounds[0].NewIssues)-1).Draw(t, "descIssue")
		for r := range c.Rounds {
			c.Rounds[r].Events = append(c.Rounds[r].Events, c16Event{Issue: k, Kind: "description", User: rapid.IntRange(0, 3).Draw(t, "descUser"),
				Text: fmt.Sprintf("description as of round %d: %s", r, text.Draw(t, "descText"))})
		}
	}
	return c
}

type c16Tracker struct {
	srv *gitlabsim.Server
	seq int
}

var c16T0 = time.Date(2021, 3, 1, 12, 0, 0, 0, time.UTC)

var (
	c16SrvOnce sync.Once
	c16Srv     *gitlabsim.Server
	c16TokenMu sync.Mutex
	c16Token   bool
)

// newC16Tracker: one simulated server per process (one base URL, hence one stored token: the keyring
// under $HOME is shared by all repositories and every listing decrypts every entry).
func newC16Tracker() *c16Tracker {
	c16SrvOnce.Do(func() { c16Srv = gitlabsim.New() })
	c16Srv.Reset()
	t := &c16Tracker{srv: c16Srv}
	names := [][2]string{{"Alice A", "alice"}, {"Bob B", "bob"}, {"Carol C", "carol"}, {"Ghost", "ghost"}}
	for i, n := range names {
		t.srv.Users[i+1] = &gitlabsim.User{ID: i + 1, Name: n[0], Username: n[1], Email: n[1] + "@example.org"}
	}
	return t
}

func (t *c16Tracker) tick() time.Time {
	t.seq++
	return c16T0.Add(time.Duration(t.seq) * time.Minute)
}

// apply grows the tracker. Issues changed now get updated_at = now (real time), like a live tracker.
func (t *c16Tracker) apply(r c16Round, initial bool, ago time.Duration) {
	stamp := func(i *gitlabsim.Issue) {
		if initial {
			i.UpdatedAt = c16T0.Add(time.Duration(t.seq) * time.Minute)
		} else {
			i.UpdatedAt = time.Now().Add(-ago)
		}
	}
	for _, ni := range r.NewIssues {
		is := &gitlabsim.Issue{IID: len(t.srv.Issues) + 1, Title: ni.Title, Description: ni.Desc, AuthorID: ni.Author%4 + 1, State: "opened", CreatedAt: t.tick()}
		stamp(is)
		t.srv.Issues = append(t.srv.Issues, is)
	}
	for _, e := range r.Events {
		if len(t.srv.Issues) == 0 {
			continue
		}
		is := t.srv.Issues[e.Issue%len(t.srv.Issues)]
		uid := e.User%4 + 1
		switch e.Kind {
		case "comment":
			now := t.tick()
			is.Notes = append(is.Notes, gitlabsim.Note{ID: t.srv.NextID(), Body: e.Text, AuthorID: uid, CreatedAt: now, UpdatedAt: now})
		case "editcomment":
			var idx []int
			for k, n := range is.Notes {
				if !n.System {
					idx = append(idx, k)
				}
			}
			if len(idx) == 0 {
				continue
			}
			k := idx[e.Note%len(idx)]
			is.Notes[k].Body = e.Text + " (edited)"
			is.Notes[k].UpdatedAt = t.tick()
		case "title":
			newTitle := strings.TrimSpace(strings.Map(func(r rune) rune {
				if r < 0x20 || r == 0x7f {
					return -1
				}
				return r
			}, e.Text))
			if len(newTitle) > 40 {
				newTitle = strings.TrimSpace(strings.ToValidUTF8(newTitle[:40], "")) // GitLab stores titles trimmed
			}
			// a title that is blank by git-bug's own rule (only spaces and non-graphic runes, e.g. a lone zero-width
			// space) cannot be represented: the importer reports an error for that issue on every run (noted in
			// DESIGN.md, not asserted); the simulated tracker does not hold such titles
			if isEmptyText(newTitle) || strings.Contains(newTitle, "**") || strings.ContainsAny(newTitle, "{}+") {
				newTitle = fmt.Sprintf("retitled %d", t.seq)
			}
			now := t.tick()
			is.Notes = append(is.Notes, gitlabsim.Note{ID: t.srv.NextID(), System: true, AuthorID: uid, CreatedAt: now, UpdatedAt: now,
				Body: fmt.Sprintf("changed title from **%s** to **{+%s+}**", is.Title, newTitle)})
			is.Title = newTitle
		case "description":
			now := t.tick()
			is.Description = e.Text
			is.Notes = append(is.Notes, gitlabsim.Note{ID: t.srv.NextID(), System: true, AuthorID: uid, CreatedAt: now, UpdatedAt: now, Body: "changed the description"})
		case "close":
			is.State = "closed"
			is.States = append(is.States, gitlabsim.StateEvent{ID: t.srv.NextID(), UserID: uid, State: "closed", CreatedAt: t.tick()})
		case "reopen":
			is.State = "opened"
			is.States = append(is.States, gitlabsim.StateEvent{ID: t.srv.NextID(), UserID: uid, State: "reopened", CreatedAt: t.tick()})
		case "addlabel", "removelabel":
			label := []string{"bug", "ui", "Good first issue", "prio::high"}[e.Note%4]
			action := "add"
			if e.Kind == "removelabel" {
				action = "remove"
			}
			is.Labels = append(is.Labels, gitlabsim.LabelEvent{ID: t.srv.NextID(), UserID: uid, Action: action, Label: label, CreatedAt: t.tick()})
		case "touch":
			// something the importer does not model changed (a reaction, a subscription): listed again, nothing new
		}
		stamp(is)
	}
}

type c16Repo struct {
	dir        string
	repo       *repository.GoGitRepo
	rc         *cache.RepoCache
	lastErrors []string // texts of the error events of the import rounds
}

func newC16Repo(baseURL string) (*c16Repo, error) {
	dir := mkdirTemp("c16-")
	repo, err := repository.InitGoGitRepo(dir, "git-bug")
	if err != nil {
		return nil, err
	}
	rc, err := cache.NewRepoCacheNoEvents(repo)
	if err != nil {
		return nil, err
	}
	me, err := rc.Identities().New("importer", "imp@example.org")
	if err != nil {
		return nil, err
	}
	if err := rc.SetUserIdentity(me); err != nil {
		return nil, err
	}
	for k, v := range map[string]string{"target": "gitlab", "base-url": baseURL, "project-id": "42", "default-login": "tester"} {
		if err := repo.LocalConfig().StoreString("git-bug.bridge.sim."+k, v); err != nil {
			return nil, err
		}
	}
	// the token is keyed by the base url: per-run servers have different ports, and the keyring lives under $HOME
	c16TokenMu.Lock()
	defer c16TokenMu.Unlock()
	if !c16Token {
		tok := auth.NewToken("gitlab", "secret-token")
		tok.SetMetadata(auth.MetaKeyLogin, "tester")
		tok.SetMetadata(auth.MetaKeyBaseURL, baseURL)
		if err := auth.Store(rc, tok); err != nil {
			return nil, err
		}
		c16Token = true
	}
	return &c16Repo{dir: dir, repo: repo, rc: rc}, nil
}

func (r *c16Repo) close() {
	if r.rc != nil {
		_ = r.rc.Close()
	}
	_ = os.RemoveAll(r.dir)
}

// importRound runs one "git bug bridge pull".
func (r *c16Repo) importRound() (results []core.ImportResult, hadError bool, err error) {
	b, err := bridge.LoadBridge(r.rc, "sim")
	if err != nil {
		return nil, false, err
	}
	ctx, cancel := context.WithTimeout(context.Background(), 60*time.Second)
	defer cancel()
	ch, err := b.ImportAll(ctx)
	if err != nil {
		return nil, false, err
	}
	for res := range ch {
		results = append(results, res)
		if res.Event == core.ImportEventError {
			hadError = true
			r.lastErrors = append(r.lastErrors, fmt.Sprint(res.Err)+" "+res.String())
		}
	}
	return results, hadError, nil
}

func (r *c16Repo) cursor() string {
	v, err := r.repo.LocalConfig().ReadString("git-bug.bridge.sim.lastImportTime")
	if err != nil {
		return ""
	}
	return v
}

// normalized: per gitlab issue id, the ordered imported operations without volatile parts.
func (r *c16Repo) normalized() (map[string][]string, error) {
	out := map[string][]string{}
	logins := map[string]string{}
	ids, _ := identity.ListLocalIds(r.repo)
	for _, id := range ids {
		if i, err := identity.ReadLocal(r.repo, id); err == nil {
			logins[string(id)] = i.Login() + "/" + i.Name()
		}
	}
	for _, id := range localBugIds(r.repo) {
		b, err := bug.Read(r.repo, entity.Id(id))
		if err == nil {
			err = b.Validate()
		}
		if err != nil {
			return nil, fmt.Errorf("imported bug %s is not valid: %w", id, err)
		}
		d, err := ondisk.ReadDAG(r.repo, "refs/bugs/"+id)
		if err != nil {
			return nil, err
		}
		rops, err := d.ROps()
		if err != nil {
			return nil, err
		}
		key := "?"
		var lines []string
		for i, op := range rops {
			if i == 0 {
				key = op.Meta["gitlab-id"]
			}
			target := ""
			if op.Target != "" {
				for k, o := range rops {
					if o.Id == op.Target {
						target = fmt.Sprintf("->op%d", k)
					}
				}
			}
			msg := op.Message
			if len(msg) > 60 {
				msg = fmt.Sprintf("%s…(%d bytes, sha %s)", msg[:40], len(msg), ondisk.Sha([]byte(msg))[:8])
			}
			if op.Kind == "edit" && target == "->op0" {
				// GitLab keeps no history of the description: which "changed the description" note gets the edit is a heuristic
				// of the importer; only the resulting text is comparable
				lines = append(lines, fmt.Sprintf("edit of the description msg=%q", msg))
				continue
			}
			lines = append(lines, fmt.Sprintf("%s by %s t=%d title=%q msg=%q status=%d +%q -%q gitlab-id=%s %s", op.Kind, logins[op.Author], op.Time, op.Title, msg, op.Status, op.Added, op.Removed, op.Meta["gitlab-id"], target))
		}
		out[key] = lines
	}
	return out, nil
}

// compiled: per gitlab issue id, the compiled state (what a user sees), for comparing an incremental
// import with an import from scratch: the operation lists legitimately differ (an edit seen later is
// recorded as an edit operation), the resulting bugs must not.
func (r *c16Repo) compiled() (map[string][]string, error) {
	out := map[string][]string{}
	for _, id := range localBugIds(r.repo) {
		b, err := bug.Read(r.repo, entity.Id(id))
		if err != nil {
			return nil, err
		}
		snap := b.Compile()
		key, _ := snap.GetCreateMetadata("gitlab-id")
		lines := []string{fmt.Sprintf("title=%q status=%d labels=%q", snap.Title, snap.Status, snap.Labels)}
		for i, c := range snap.Comments {
			msg := c.Message
			if len(msg) > 60 {
				msg = fmt.Sprintf("%s…(%d bytes, sha %s)", msg[:40], len(msg), ondisk.Sha([]byte(msg))[:8])
			}
			lines = append(lines, fmt.Sprintf("comment #%d %q", i, msg))
		}
		out[key] = lines
	}
	return out, nil
}

// expected: what the tracker itself says every issue looks like now, in the format of compiled(). This is the
// reference that does not come from git-bug: title, state, label set (label events applied in order), the
// description and every user note in creation order. Text is normalised with git-bug's own text.Cleanup
// functions (trusted: what "the same text" means after an import).
func (t *c16Tracker) expected() map[string][]string {
	out := map[string][]string{}
	for _, is := range t.srv.Issues {
		status := 1
		if is.State == "closed" {
			status = 2
		}
		set := map[string]bool{}
		for _, e := range is.Labels {
			if e.Action == "add" {
				set[e.Label] = true
			} else {
				delete(set, e.Label)
			}
		}
		labels := make([]bug.Label, 0, len(set))
		for l := range set {
			labels = append(labels, bug.Label(l))
		}
		sort.Slice(labels, func(i, j int) bool { return labels[i] < labels[j] })
		lines := []string{fmt.Sprintf("title=%q status=%d labels=%q", text.CleanupOneLine(is.Title), status, labels)}
		msgs := []string{text.Cleanup(is.Description)}
		notes := append([]gitlabsim.Note(nil), is.Notes...)
		sort.SliceStable(notes, func(i, j int) bool { return notes[i].CreatedAt.Before(notes[j].CreatedAt) })
		for _, n := range notes {
			if !n.System {
				msgs = append(msgs, text.Cleanup(n.Body))
			}
		}
		for i, msg := range msgs {
			if len(msg) > 60 {
				msg = fmt.Sprintf("%s…(%d bytes, sha %s)", msg[:40], len(msg), ondisk.Sha([]byte(msg))[:8])
			}
			lines = append(lines, fmt.Sprintf("comment #%d %q", i, msg))
		}
		out[fmt.Sprint(is.IID)] = lines
	}
	return out
}

// diffExpected compares the tracker's own view with the imported bugs: "aspect: detail" or "".
func diffExpected(want, got map[string][]string) string {
	var ks []string
	for k := range want {
		ks = append(ks, k)
	}
	sort.Strings(ks)
	for _, k := range ks {
		w, g := want[k], got[k]
		if g == nil {
			return fmt.Sprintf("issue-not-imported: issue %s of the tracker has no bug", k)
		}
		if w[0] != g[0] {
			aspect := "title-status-or-labels"
			return fmt.Sprintf("%s: issue %s\ntracker  %s\nimported %s", aspect, k, w[0], g[0])
		}
		if len(w) != len(g) {
			return fmt.Sprintf("comment-count: issue %s: the tracker has the description and %d notes, the bug has %d comments\ntracker  %v\nimported %v", k, len(w)-2, len(g)-1, w[1:], g[1:])
		}
		for i := 1; i < len(w); i++ {
			if w[i] != g[i] {
				return fmt.Sprintf("comment-text: issue %s\ntracker  %s\nimported %s", k, w[i], g[i])
			}
		}
	}
	for k := range got {
		if want[k] == nil {
			return fmt.Sprintf("bug-without-issue: a bug claims gitlab issue %q which the tracker does not have", k)
		}
	}
	return ""
}

func diffNormalized(want, got map[string][]string) string {
	keys := map[string]bool{}
	for k := range want {
		keys[k] = true
	}
	for k := range got {
		keys[k] = true
	}
	var ks []string
	for k := range keys {
		ks = append(ks, k)
	}
	sort.Strings(ks)
	for _, k := range ks {
		w, g := want[k], got[k]
		if strings.Join(w, "\n") != strings.Join(g, "\n") {
			return fmt.Sprintf("issue %s\nimport that never failed (%d ops):\n  %s\nthis repository (%d ops):\n  %s", k, len(w), strings.Join(w, "\n  "), len(g), strings.Join(g, "\n  "))
		}
	}
	return ""
}

func sameMultisets(a, b map[string][]string) bool {
	if len(a) != len(b) {
		return false
	}
	for k, la := range a {
		lb := append([]string(nil), b[k]...)
		la = append([]string(nil), la...)
		// targets of edits are positions: compare without them
		strip := func(l []string) {
			for i := range l {
				if j := strings.Index(l[i], " ->op"); j >= 0 {
					l[i] = l[i][:j]
				}
			}
			sort.Strings(l)
		}
		strip(la)
		strip(lb)
		if strings.Join(la, "\n") != strings.Join(lb, "\n") {
			return false
		}
	}
	return true
}

func totalOps(m map[string][]string) int {
	n := 0
	for _, l := range m {
		n += len(l)
	}
	return n
}

func runC16(tb report.TB, rep *report.Reporter, c c16Case) {
	tr := newC16Tracker()
	fail := func(sig, detail string) bool { return rep.Fail(tb, "C16/"+sig, detail, c) }
	main, err := newC16Repo(tr.srv.URL())
	if err != nil {
		tb.Fatalf("harness: %v", err)
	}
	defer func() { main.close() }()
	last := len(c.Rounds) - 1
	grew := false
	// ---- clean rounds up to the last growth, with idempotence checks in between
	for ri := 0; ri < last; ri++ {
		tr.apply(c.Rounds[ri], ri == 0, 0)
		if ri > 0 && (len(c.Rounds[ri].NewIssues) > 0 || len(c.Rounds[ri].Events) > 0) {
			grew = true
		}
		tr.srv.ResetLog()
		_, hadErr, err := main.importRound()
		if err != nil {
			tb.Fatalf("harness: import: %v", err)
		}
		if hadErr {
			if fail("clean-round-reports-error", fmt.Sprintf("round %d without any injected fault relayed an error event", ri)) {
				return
			}
		}
		before, err := main.normalized()
		if err != nil {
			if fail("imported-bug-invalid/"+Normalize(err.Error()), err.Error()) {
				return
			}
		}
		// everything is listed again (as if touched) but nothing changed: nothing may be added
		for _, is := range tr.srv.Issues {
			is.UpdatedAt = time.Now()
		}
		_, _, err = main.importRound()
		if err != nil {
			tb.Fatalf("harness: import: %v", err)
		}
		after, err := main.normalized()
		if err != nil {
			if fail("imported-bug-invalid/"+Normalize(err.Error()), err.Error()) {
				return
			}
		}
		if d := diffNormalizedIdem(before, after); d != "" {
			if fail("re-import-of-unchanged-tracker-adds-operations", fmt.Sprintf("round %d imported twice:\n%s", ri, d)) {
				return
			}
		}
	}
	// ---- the last growth, then the reference: a fresh repository importing the final state without any fault
	// Time passes: the previous import is an hour old and the tracker changed half an hour ago. (Without this, the 5 s
	// safety margin of the cursor would list the changed issues again in every run of this test and hide a lost update.)
	if cur, err := main.repo.LocalConfig().ReadTimestamp("git-bug.bridge.sim.lastImportTime"); err == nil {
		_ = main.repo.LocalConfig().StoreTimestamp("git-bug.bridge.sim.lastImportTime", cur.Add(-time.Hour))
	}
	tr.apply(c.Rounds[last], last == 0, 30*time.Minute)
	if last > 0 && (len(c.Rounds[last].NewIssues) > 0 || len(c.Rounds[last].Events) > 0) {
		grew = true
	}
	fresh, err := newC16Repo(tr.srv.URL())
	if err != nil {
		tb.Fatalf("harness: %v", err)
	}
	tr.srv.ResetLog()
	_, hadErr, err := fresh.importRound()
	if err != nil || hadErr {
		fresh.close()
		if fail("fresh-import-reports-error", fmt.Sprintf("%v %v", err, fresh.lastErrors)) {
			return
		}
	}
	scratchState, err := fresh.compiled()
	fresh.close()
	if err != nil {
		if fail("imported-bug-invalid/"+Normalize(err.Error()), err.Error()) {
			return
		}
	}
	// the import agrees with the tracker itself (a reference that does not come from git-bug)
	if d := diffExpected(tr.expected(), scratchState); d != "" {
		if fail("import-differs-from-the-tracker/"+d[:strings.Index(d, ":")], d) {
			return
		}
	}
	// snapshot the incremental repository before its last round
	_ = main.rc.Close()
	main.rc = nil
	snap := filepath.Join(main.dir+"-snap", "s")
	defer os.RemoveAll(main.dir + "-snap")
	if err := copyDir(main.dir, snap); err != nil {
		tb.Fatalf("harness: %v", err)
	}
	reopen := func() {
		repo, err := repository.OpenGoGitRepo(main.dir, "git-bug", nil)
		if err != nil {
			tb.Fatalf("harness: %v", err)
		}
		rc, err := cache.NewRepoCacheNoEvents(repo)
		if err != nil {
			tb.Fatalf("harness: %v", err)
		}
		main.repo, main.rc = repo, rc
	}
	restore := func() {
		if main.rc != nil {
			_ = main.rc.Close()
			main.rc = nil
		}
		if err := copyDir(snap, main.dir); err != nil {
			tb.Fatalf("harness: %v", err)
		}
		reopen()
	}
	// ---- dry run of the last round: incrementality + the request list
	reopen()
	tr.srv.ResetLog()
	tr.srv.SetFaults(nil)
	_, hadErr, err = main.importRound()
	if err != nil {
		tb.Fatalf("harness: import: %v", err)
	}
	keys := tr.srv.Keys()
	got, nerr := main.normalized()
	if nerr != nil {
		if fail("imported-bug-invalid/"+Normalize(nerr.Error()), nerr.Error()) {
			return
		}
	}
	if hadErr {
		if fail("clean-round-reports-error", "last round, no fault") {
			return
		}
	}
	incState, cerr := main.compiled()
	if cerr != nil {
		tb.Fatalf("harness: %v", cerr)
	}
	if d := diffNormalized(scratchState, incState); d != "" {
		if fail("incremental-import-state-differs-from-import-from-scratch", "(first list: import from scratch; second: rounds of incremental imports)\n"+d) {
			return
		}
	}
	reference := got // the same rounds, never failed
	rep.Case(fmt.Sprintf("hist|r%d|i%d|n%d|grew%v", len(c.Rounds), len(tr.srv.Issues), len(keys), grew), grew,
		[]string{fmt.Sprintf("rounds:%d", len(c.Rounds)), fmt.Sprintf("requests:%d", len(keys)/5*5), fmt.Sprintf("reference-ops:%d", totalOps(reference)/5*5)}, c)

	// ---- fault enumeration over the requests of the last round
	type fk struct {
		k    int
		code int
	}
	var plan []fk
	if c.FaultAt >= 0 {
		plan = append(plan, fk{c.FaultAt, c.FaultCode})
	} else {
		for k := range keys {
			plan = append(plan, fk{k, 403})
			if k%3 == 0 {
				plan = append(plan, fk{k, 404})
			}
			if k%8 == 1 {
				plan = append(plan, fk{k, 500}) // a single 500 is retried by the client: the round must come out clean
			}
		}
	}
	for _, f := range plan {
		if f.k >= len(keys) {
			continue
		}
		restore()
		kc := c
		kc.FaultAt, kc.FaultCode = f.k, f.code
		key := keys[f.k]
		ffail := func(sig, detail string) bool {
			return rep.Fail(tb, "C16/"+sig, fmt.Sprintf("last round, request %d of %d (%s) answers %d\n%s", f.k, len(keys), key, f.code, detail), kc)
		}
		times := -1
		if f.code == 500 {
			times = 1
		}
		rep.Case(fmt.Sprintf("fault|%s|%d", endpointOf(key), f.code), true, []string{"fault-at:" + endpointOf(key), fmt.Sprintf("fault-code:%d", f.code)}, kc)
		cursorBefore := main.cursor()
		tr.srv.ResetLog()
		tr.srv.SetFaults(map[string]*gitlabsim.Fault{key: {Status: f.code, Times: times}})
		_, faultyErr, err := main.importRound()
		if err != nil {
			tb.Fatalf("harness: import: %v", err)
		}
		hit := false
		for _, k := range tr.srv.Keys() {
			if k == key {
				hit = true
			}
		}
		cursorAfter := main.cursor()
		if f.code == 500 {
			if faultyErr {
				// a transient failure is retried by the client; if it still surfaces, it is an error like any other (checked below)
			}
		}
		if faultyErr && cursorAfter != cursorBefore {
			if ffail("cursor-advanced-though-the-run-reported-an-error", fmt.Sprintf("lastImportTime %q -> %q", cursorBefore, cursorAfter)) {
				continue
			}
		}
		// a clean run afterwards must end like an import that never failed
		tr.srv.ResetLog()
		tr.srv.SetFaults(nil)
		_, cleanErr, err := main.importRound()
		if err != nil {
			tb.Fatalf("harness: import: %v", err)
		}
		got, nerr := main.normalized()
		if nerr != nil {
			if ffail("imported-bug-invalid/"+Normalize(nerr.Error()), nerr.Error()) {
				continue
			}
		}
		if cleanErr {
			if ffail("clean-run-after-failure-reports-error/"+endpointOf(key), "") {
				continue
			}
		}
		if d := diffNormalized(reference, got); d != "" {
			sig := "state-after-failure-and-clean-run-differs-from-never-failed"
			if sameMultisets(reference, got) {
				// nothing lost or invented, but the events that were skipped by the failing run come after the ones it imported
				sig = "operations-out-of-order-after-failure"
			}
			if hit && !faultyErr && f.code != 500 {
				sig = "api-failure-not-reported-and-data-missed"
			}
			if ffail(sig+"/"+endpointOf(key), fmt.Sprintf("the failing run reported an error: %v\n%s", faultyErr, d)) {
				continue
			}
		}
	}
}

// diffNormalizedIdem: like diffNormalized, named for the idempotence message.
func diffNormalizedIdem(before, after map[string][]string) string {
	return diffNormalized(before, after)
}

func endpointOf(key string) string {
	f := strings.Fields(key)
	if len(f) < 2 {
		return key
	}
	p := f[1]
	switch {
	case strings.HasSuffix(p, "/notes"):
		return "notes"
	case strings.HasSuffix(p, "/resource_label_events"):
		return "label-events"
	case strings.HasSuffix(p, "/resource_state_events"):
		return "state-events"
	case strings.Contains(p, "/users/"):
		return "user"
	case strings.HasSuffix(p, "/issues"):
		return "issue-list"
	}
	return "other"
}

func TestC16Import(t *testing.T) {
	Drive(t, "C16", genC16, runC16)
}

// TestC16SlowImport: the tracker changes while an import is running. The run is slow (the simulated tracker
// takes 6.5 s to answer one request, longer than the importer's 5 s safety margin) and error-free; a comment is
// added to an issue the importer has already dealt with. The cursor stored by that run must not be later than
// the moment the run started, otherwise the next incremental import never lists that issue again.
// One fixed scenario, about 8 s.
func TestC16SlowImport(t *testing.T) {
	rep := report.For("C16", t.Name())
	defer rep.Close()
	tr := newC16Tracker()
	defer tr.srv.Reset()
	tr.apply(c16Round{NewIssues: []c16Issue{{Author: 0, Title: "first issue", Desc: "d1"}, {Author: 1, Title: "second issue", Desc: "d2"}},
		Events: []c16Event{{Issue: 0, Kind: "comment", User: 1, Text: "an early comment"}, {Issue: 1, Kind: "comment", User: 2, Text: "another"}}}, true, 0)
	main, err := newC16Repo(tr.srv.URL())
	if err != nil {
		t.Fatalf("harness: %v", err)
	}
	defer main.close()
	fired := false
	tr.srv.OnRequest = func(key string) {
		if fired || !strings.HasPrefix(key, "GET /api/v4/projects/42/issues/2/notes page=1") {
			return
		}
		fired = true
		// the importer is busy with issue 2: somebody comments on issue 1 right now
		tr.srv.Locked(func() {
			is := tr.srv.Issues[0]
			now := time.Now()
			is.Notes = append(is.Notes, gitlabsim.Note{ID: tr.srv.NextID(), Body: "still broken for me", AuthorID: 3, CreatedAt: now, UpdatedAt: now})
			is.UpdatedAt = now
		})
		time.Sleep(6500 * time.Millisecond)
	}
	defer func() { tr.srv.OnRequest = nil }()
	c := map[string]any{"scenario": "comment on issue 1 while the importer reads issue 2, request delayed 6.5 s"}
	rep.Case("slow-import", true, []string{"tracker-changes-during-a-slow-import"}, c)
	if _, hadErr, err := main.importRound(); err != nil || hadErr {
		rep.Fail(t, "C16/slow-import/first-import-reports-error", fmt.Sprintf("%v %v", err, main.lastErrors), c)
		return
	}
	if !fired {
		t.Fatalf("harness: the notes of issue 2 were never requested")
	}
	tr.srv.OnRequest = nil
	// the next incremental import, some time later
	if _, hadErr, err := main.importRound(); err != nil || hadErr {
		rep.Fail(t, "C16/slow-import/second-import-reports-error", fmt.Sprintf("%v %v", err, main.lastErrors), c)
		return
	}
	got, err := main.compiled()
	if err != nil {
		rep.Fail(t, "C16/imported-bug-invalid/"+Normalize(err.Error()), err.Error(), c)
		return
	}
	if d := diffExpected(tr.expected(), got); d != "" {
		rep.Fail(t, "C16/change-made-during-an-import-is-never-imported/"+d[:strings.Index(d, ":")], "a comment was added to an issue while a slow, error-free import was running; the following incremental import does not bring it:\n"+d, c)
	}
}
