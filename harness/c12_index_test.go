package harness

import (
	"fmt"
	"os"
	"strings"
	"testing"

	"pgregory.net/rapid"

	"github.com/MichaelMure/git-bug/cache"
	"github.com/MichaelMure/git-bug/entities/bug"
	"github.com/MichaelMure/git-bug/entity"
	"github.com/MichaelMure/git-bug/query"
	"github.com/MichaelMure/git-bug/repository"

	"verif/harness/internal/entropy"
	"verif/harness/internal/faultindex"
	"verif/harness/internal/report"
)

// TestC12IndexFailure: "a query returns exactly the bugs that satisfy it" when one update of the search index has
// failed in this session (full disk, index locked by another tool): N bugs are created through the cache, the
// FailAt-th index update is refused once. Every bug that is in git afterwards is returned by the queries whose
// terms do not use the search index (status, title, no term at all); without a failure, also after the cache
// has been closed and opened again, full-text search included.

type c12IdxCase struct {
	Seed   uint64 `json:"seed"`
	N      int    `json:"n"`
	FailAt int    `json:"fail_at"`
}

func genC12Idx(t *rapid.T) c12IdxCase {
	n := rapid.IntRange(2, 8).Draw(t, "n")
	return c12IdxCase{Seed: rapid.Uint64().Draw(t, "seed"), N: n, FailAt: rapid.IntRange(0, n+1).Draw(t, "failAt")}
}

func runC12Idx(tb report.TB, rep *report.Reporter, c c12IdxCase) {
	entropy.Seed(c.Seed)
	defer entropy.Restore()
	dir := mkdirTemp("c12i-")
	defer os.RemoveAll(dir)
	repo, err := repository.InitGoGitRepo(dir, "git-bug")
	if err != nil {
		tb.Fatalf("harness: %v", err)
	}
	defer repo.Close()
	fi := faultindex.New(repo, "bugs")
	rc, err := cache.NewRepoCacheNoEvents(fi)
	if err != nil {
		tb.Fatalf("harness: %v", err)
	}
	me, err := rc.Identities().New("index user", "i@example.org")
	if err == nil {
		err = rc.SetUserIdentity(me)
	}
	if err != nil {
		tb.Fatalf("harness: %v", err)
	}
	fi.Arm(c.FailAt)
	refused := 0
	for k := 0; k < c.N; k++ {
		_, _, err := rc.Bugs().NewRaw(me, int64(1000+k), fmt.Sprintf("about token%dx%d", k, c.Seed%89), "body", nil, nil)
		if err != nil {
			if !strings.Contains(err.Error(), "injected failure") {
				tb.Fatalf("harness: new bug: %v", err)
			}
			refused++
		}
	}
	// reference: what git holds
	type stored struct{ id, tok string }
	var pop []stored
	for _, id := range localBugIds(repo) {
		b, err := bug.Read(repo, entity.Id(id))
		if err != nil {
			tb.Fatalf("harness: %v", err)
		}
		f := strings.Fields(b.Compile().Title)
		pop = append(pop, stored{id, f[len(f)-1]})
	}
	rep.Case(fmt.Sprintf("index-failure|n%d|at%d|refused%d", c.N, c.FailAt, refused), fi.Failed > 0,
		[]string{fmt.Sprintf("index-update-failed:%v", fi.Failed > 0), fmt.Sprintf("creation-reported-an-error:%v", refused > 0)}, c)
	fail := func(sig, detail string) bool { return rep.Fail(tb, "C12/"+sig, detail, c) }
	check := func(rc *cache.RepoCache, phase string, withSearch bool) bool {
		for _, s := range pop {
			texts := []string{"", "status:open", "title:" + s.tok, "status:open sort:creation-asc"}
			if withSearch {
				texts = append(texts, s.tok)
			}
			for _, text := range texts {
				q, err := query.Parse(text)
				if err != nil {
					tb.Fatalf("harness: %v", err)
				}
				got, err := rc.Bugs().Query(q)
				if err != nil {
					if fail("query-fails/"+Normalize(err.Error()), phase+" "+text+": "+err.Error()) {
						return true
					}
					continue
				}
				found := false
				for _, g := range got {
					if string(g) == s.id {
						found = true
					}
				}
				if !found {
					if fail("bug-in-git-missing-from-query/"+phase, fmt.Sprintf("%s: bug %s (%q) is stored in git, open, and query %q returns %v\n(%d index updates refused, %d creations reported an error)", phase, s.id[:8], s.tok, text, got, fi.Failed, refused)) {
						return true
					}
				}
			}
		}
		return false
	}
	if check(rc, "same-session", false) {
		_ = rc.Close()
		return
	}
	if err := rc.Close(); err != nil {
		tb.Fatalf("harness: close: %v", err)
	}
	if fi.Failed > 0 {
		// Not asserted after a failure: when the refused update was the last one of the session nothing writes the
		// excerpt file again, file and index agree on one bug too few, and the next run does not notice (the
		// creation call did report an error). No listed property covers storage failures of the index.
		return
	}
	rc2, err := cache.NewRepoCacheNoEvents(repo)
	if err != nil {
		fail("cache-does-not-open-after-an-index-failure/"+Normalize(err.Error()), err.Error())
		return
	}
	defer rc2.Close()
	check(rc2, "after-reopen", true)
}

func TestC12IndexFailure(t *testing.T) {
	Drive(t, "C12", genC12Idx, runC12Idx)
}
