package harness

import (
	"bufio"
	"fmt"
	"net"
	"os"
	"os/exec"
	"path/filepath"
	"strconv"
	"strings"
	"syscall"
	"testing"
	"time"

	"pgregory.net/rapid"

	"verif/harness/internal/report"
)

// C19: only one process at a time can open a repository's cache (real processes).

type c19Step struct {
	Kind   string `json:"kind"` // holder stop ok fail lock
	Signal string `json:"signal,omitempty"`
	Delay  int    `json:"delay_ms,omitempty"`
	Cmd    int    `json:"cmd,omitempty"`
	Lock   string `json:"lock,omitempty"`  // dead-pid live-foreign-pid empty garbage too-long own-dead-child
	Early  bool   `json:"early,omitempty"` // stop the holder before it announced itself
}

type c19Case struct {
	Seed     uint64    `json:"seed"`
	Identity bool      `json:"identity"` // the repository has a user identity (else commands needing one fail in their pre-run)
	Steps    []c19Step `json:"steps"`
	// Worktree: the one-shot commands are typed in a linked working tree of the repository (git worktree add), or in
	// a sub-directory of it, while the long-lived process was started in the main one: it is one repository, one lock
	Worktree string `json:"worktree,omitempty"` // "" | linked | subdir
}

func genC19(t *rapid.T) c19Case {
	c := c19Case{Seed: rapid.Uint64().Draw(t, "seed"), Identity: rapid.IntRange(0, 5).Draw(t, "identity") > 0}
	one := rapid.Custom(func(t *rapid.T) c19Step {
		s := c19Step{Kind: rapid.SampledFrom([]string{"holder", "holder", "stop", "stop", "ok", "ok", "fail", "fail", "lock", "idcfg"}).Draw(t, "kind")}
		switch s.Kind {
		case "stop":
			s.Signal = rapid.SampledFrom([]string{"TERM", "INT", "KILL", "KILL"}).Draw(t, "signal")
			s.Delay = rapid.IntRange(0, 120).Draw(t, "delay")
		case "holder":
			s.Early = rapid.IntRange(0, 4).Draw(t, "early") == 0
		case "ok", "fail":
			s.Cmd = rapid.IntRange(0, 23).Draw(t, "cmd") // reduced modulo the number of commands of its kind
		case "idcfg":
			// the selected identity as the configuration names it: listed twice, in upper case, unknown, or as it should be
			s.Lock = rapid.SampledFrom([]string{"twice", "upper", "unknown", "restore", "restore"}).Draw(t, "idcfg")
		case "lock":
			s.Lock = rapid.SampledFrom([]string{"dead-pid", "live-foreign-pid", "own-dead-child", "empty", "garbage", "too-long", "dead-pid-while-creating-the-index", "dead-pid-7-digits"}).Draw(t, "lock")
		}
		return s
	})
	c.Steps = rapid.SliceOfN(one, 4, 12).Draw(t, "steps")
	c.Worktree = rapid.SampledFrom([]string{"", "", "linked", "subdir"}).Draw(t, "worktree")
	// the non-trivial shape: a refusal while a holder lives, a kill, a recovery
	if rapid.IntRange(0, 2).Draw(t, "planned") > 0 {
		plan := []c19Step{{Kind: "holder"}, {Kind: "ok", Cmd: 1}, {Kind: "fail", Cmd: rapid.IntRange(0, 7).Draw(t, "pfail")}, {Kind: "ok", Cmd: rapid.IntRange(0, 5).Draw(t, "pok")}, {Kind: "stop", Signal: rapid.SampledFrom([]string{"KILL", "KILL", "KILL", "TERM", "INT"}).Draw(t, "psig")}, {Kind: "ok", Cmd: 0}}
		at := rapid.IntRange(0, len(c.Steps)).Draw(t, "at")
		out := append([]c19Step(nil), c.Steps[:at]...)
		out = append(out, plan...)
		c.Steps = append(out, c.Steps[at:]...)
	}
	return c
}

type holderProc struct {
	cmd        *exec.Cmd
	pid        int
	announced  bool // as observed when the harness last looked (see settle)
	announceCh chan struct{}
	exited     chan struct{}
	output     *strings.Builder
}

// settle waits until the starting holder has either announced itself or exited, and records which.
func (h *holderProc) settle() {
	select {
	case <-h.announceCh:
		h.announced = true
	case <-h.exited:
	case <-time.After(20 * time.Second):
	}
}

func (h *holderProc) hasAnnounced() bool {
	select {
	case <-h.announceCh:
		h.announced = true
	default:
	}
	return h.announced
}

func freePort() int {
	l, err := net.Listen("tcp", "127.0.0.1:0")
	if err != nil {
		return 0
	}
	defer l.Close()
	return l.Addr().(*net.TCPAddr).Port
}

// startHolder launches the long-lived process (web UI) and waits until it has announced itself, or died.
func startHolder(dir string, wait bool) (*holderProc, error) {
	cmd := exec.Command(CLIPath(), "webui", "--no-open", "--port", strconv.Itoa(freePort()))
	cmd.Dir = dir
	cmd.Env = append(os.Environ(), "GIT_CONFIG_NOSYSTEM=1")
	stdout, err := cmd.StdoutPipe()
	if err != nil {
		return nil, err
	}
	cmd.Stderr = cmd.Stdout
	if err := cmd.Start(); err != nil {
		return nil, err
	}
	announced := make(chan struct{})
	h := &holderProc{cmd: cmd, pid: cmd.Process.Pid, exited: make(chan struct{}), output: &strings.Builder{}, announceCh: announced}
	go func() {
		sc := bufio.NewScanner(stdout)
		for sc.Scan() {
			line := sc.Text()
			h.output.WriteString(line + "\n")
			if strings.Contains(line, "Press Ctrl+c to quit") {
				select {
				case <-announced:
				default:
					close(announced)
				}
			}
		}
		_ = cmd.Wait()
		close(h.exited)
	}()
	if !wait {
		return h, nil
	}
	h.settle()
	return h, nil
}

func (h *holderProc) alive() bool {
	select {
	case <-h.exited:
		return false
	default:
		return true
	}
}

func (h *holderProc) stop(sig string, wait time.Duration) bool {
	var s syscall.Signal
	switch sig {
	case "TERM":
		s = syscall.SIGTERM
	case "INT":
		s = syscall.SIGINT
	default:
		s = syscall.SIGKILL
	}
	_ = h.cmd.Process.Signal(s)
	select {
	case <-h.exited:
		return true
	case <-time.After(wait):
		// what is it doing? SIGQUIT makes the Go runtime print every goroutine before it exits
		_ = h.cmd.Process.Signal(syscall.SIGQUIT)
		select {
		case <-h.exited:
		case <-time.After(3 * time.Second):
			_ = h.cmd.Process.Kill()
			<-h.exited
		}
		return false
	}
}

func readLock(dir string) (string, bool) {
	b, err := os.ReadFile(filepath.Join(dir, ".git", "git-bug", "lock"))
	if err != nil {
		return "", false
	}
	return string(b), true
}

func runC19(tb report.TB, rep *report.Reporter, c c19Case) {
	dir := mkdirTemp("c19-")
	defer os.RemoveAll(dir)
	if res := RunGit(dir, "init", "-q", "."); res.Code != 0 {
		tb.Fatalf("harness: %s", res.Out)
	}
	if c.Identity {
		if res := RunCLI(dir, "user", "new", "-n", "Locker", "-e", "l@example.org", "--non-interactive"); res.Code != 0 {
			tb.Fatalf("harness: user new: %s", res.Out)
		}
		if res := RunCLI(dir, "bug", "new", "-t", "seed bug", "-m", "m", "--non-interactive"); res.Code != 0 {
			tb.Fatalf("harness: bug new: %s", res.Out)
		}
	}
	if _, has := readLock(dir); has {
		if rep.Fail(tb, "C19/lock-left-by-successful-command", "after user new / bug new", c) {
			return
		}
	}
	cmdDir := dir
	switch c.Worktree {
	case "linked":
		wt := dir + "-wt"
		defer os.RemoveAll(wt)
		if res := RunGit(dir, "-c", "user.name=x", "-c", "user.email=x@example.org", "commit", "-q", "--allow-empty", "-m", "init"); res.Code != 0 {
			tb.Fatalf("harness: %s", res.Out)
		}
		if res := RunGit(dir, "worktree", "add", "-q", wt, "-b", "in-the-other-tree"); res.Code != 0 {
			tb.Fatalf("harness: worktree add: %s", res.Out)
		}
		cmdDir = wt
	case "subdir":
		cmdDir = filepath.Join(dir, "src", "deep")
		if err := os.MkdirAll(cmdDir, 0o755); err != nil {
			tb.Fatalf("harness: %v", err)
		}
	}
	var holder *holderProc
	defer func() {
		if holder != nil && holder.alive() {
			holder.stop("KILL", 5*time.Second)
		}
	}()
	fail := func(i int, sig, detail string) bool {
		return rep.Fail(tb, "C19/"+sig, fmt.Sprintf("step #%d %+v: %s", i, c.Steps[i], detail), c)
	}
	// commands that succeed (given an identity) and commands that fail after the repository was loaded
	okCmds := [][]string{{"bug"}, {"bug", "new", "-t", "another", "-m", "m", "--non-interactive"}, {"user"}, {"label"}, {"bug", "-f", "id"}, {"bug", "status:open"}}
	failCmds := [][]string{{"bug", "show", "ffffffffffffff"}, {"bug", "rm"}, {"bug", "status", "close", "zzzz"}, {"bug", "comment", "new", "0000000", "-m", "x", "--non-interactive"}, {"bug", "sort:nonsense"}, {"bug", "title", "edit", "1234567", "-t", "t", "--non-interactive"},
		// what the shell runs when the user presses TAB: these completions open the repository too
		{"__complete", "bug", "author:"}, {"__complete", "bug", "label:"}}
	refsOf := func() string { return RunGit(dir, "for-each-ref").Out }

	identityUsable := c.Identity
	selected := strings.TrimSpace(RunGit(dir, "config", "--get", "git-bug.identity").Out)
	refusals, recoveries, kills, holderDied, oddIdentity := 0, 0, 0, 0, 0
	var kinds []string
	staleLive := false // a stale lock naming a live foreign process is in place
	for i, s := range c.Steps {
		if holder != nil && s.Kind == "holder" {
			holder.settle() // a holder that is still starting: let the start-up race finish before judging a second start
		}
		if holder != nil {
			holder.hasAnnounced()
		}
		holderAlive := holder != nil && holder.alive()
		kinds = append(kinds, s.Kind+s.Signal+s.Lock)
		switch s.Kind {
		case "idcfg":
			if !c.Identity || selected == "" {
				continue
			}
			RunGit(dir, "config", "--unset-all", "git-bug.identity")
			identityUsable = false
			switch s.Lock {
			case "twice":
				RunGit(dir, "config", "--add", "git-bug.identity", selected)
				RunGit(dir, "config", "--add", "git-bug.identity", selected)
			case "upper":
				RunGit(dir, "config", "git-bug.identity", strings.ToUpper(selected))
			case "unknown":
				RunGit(dir, "config", "git-bug.identity", strings.Repeat("ab", 32))
			default:
				RunGit(dir, "config", "git-bug.identity", selected)
				identityUsable = true
			}
			if !identityUsable {
				oddIdentity++
			}
		case "holder":
			if c.Identity && !identityUsable {
				continue // whether the web UI starts with an oddly configured identity is not the subject
			}
			if !identityUsable && !holderAlive && !staleLive {
				// without a user identity the web UI refuses to start: a command that fails after loading the repository
				lockBefore, hadLock := readLock(dir)
				res := RunCLI(dir, "webui", "--no-open", "--port", strconv.Itoa(freePort()))
				if now, has := readLock(dir); has && res.Code != 0 && (!hadLock || now != lockBefore) {
					if fail(i, "lock-left-by-terminated-command/failure", fmt.Sprintf("webui exited %d and left a lock (before: %q %v)\n%s", res.Code, lockBefore, hadLock, res.Out)) {
						return
					}
				}
				continue
			}
			if holderAlive || staleLive {
				// a second long-lived process must be refused as well
				h2, err := startHolder(dir, true)
				if err != nil {
					tb.Fatalf("harness: %v", err)
				}
				if h2.announced && holderAlive && !holder.alive() {
					// the first web UI ended on its own (it announces itself before it binds its port, and a port picked a
					// moment ago can be taken by another process meanwhile): nobody held the repository any more
					h2.stop("KILL", 5*time.Second)
					holder = nil
					holderDied++
					continue
				}
				if h2.announced {
					h2.stop("KILL", 5*time.Second)
					if fail(i, "second-holder-admitted", "a second web UI started while the repository was locked by a live process") {
						return
					}
				}
				if h2.alive() {
					h2.stop("KILL", 5*time.Second)
				}
				continue
			}
			h, err := startHolder(dir, !s.Early)
			if err != nil {
				tb.Fatalf("harness: %v", err)
			}
			if !s.Early && !h.announced {
				out := h.output.String()
				if h.alive() {
					h.stop("KILL", 5*time.Second)
				}
				if fail(i, "holder-cannot-start/"+Normalize(lastLine(out)), out) {
					return
				}
				continue
			}
			holder = h
		case "stop":
			if !holderAlive {
				continue
			}
			time.Sleep(time.Duration(s.Delay) * time.Millisecond)
			clean := holder.stop(s.Signal, 45*time.Second) // generous: a loaded machine must not turn a slow shutdown into an alarm
			if s.Signal != "KILL" {
				if !clean {
					if fail(i, "holder-ignores-signal/"+s.Signal, "did not exit within 45s\n"+truncate(holder.output.String(), 4000)) {
						return
					}
				}
				// a clean stop releases the lock (when the holder had got as far as taking it and announcing itself)
				if content, has := readLock(dir); has && holder.announced {
					if fail(i, "lock-left-after-clean-stop/"+s.Signal, fmt.Sprintf("lock content %q, holder pid %d", content, holder.pid)) {
						return
					}
				}
			} else {
				kills++
			}
			holder = nil
		case "ok", "fail":
			var args []string
			if s.Kind == "ok" {
				args = okCmds[s.Cmd%len(okCmds)]
			} else {
				args = failCmds[s.Cmd%len(failCmds)]
			}
			lockBefore, hadLock := readLock(dir)
			refsBefore := refsOf()
			res := RunCLI(cmdDir, args...)
			lockAfter, hasLock := readLock(dir)
			announced := holderAlive && holder.announced
			if announced && !holder.alive() {
				// the holder ended on its own before or while the command ran (see above): no verdict on this step
				holder = nil
				holderDied++
				continue
			}
			switch {
			case announced || staleLive:
				refusals++
				pid := ""
				if announced {
					pid = strconv.Itoa(holder.pid)
				} else {
					pid = "1"
				}
				completion := args[0] == "__complete" // a completion helper reports failure through its output, not its exit code or a message
				if res.Code == 0 && !completion {
					if fail(i, "command-runs-while-locked", fmt.Sprintf("%v exited 0 while pid %s holds the repository:\n%s", args, pid, res.Out)) {
						return
					}
				}
				if !completion && (!strings.Contains(res.Out, pid) || !strings.Contains(res.Out, "lock")) {
					if fail(i, "refusal-does-not-name-the-holder", fmt.Sprintf("%v: %q (holder pid %s)", args, res.Out, pid)) {
						return
					}
				}
				if !hasLock || lockAfter != lockBefore || !hadLock {
					if fail(i, "lock-of-live-process-touched", fmt.Sprintf("before %q (%v) after %q (%v)", lockBefore, hadLock, lockAfter, hasLock)) {
						return
					}
				}
				if refsOf() != refsBefore {
					if fail(i, "refused-command-changed-refs", "") {
						return
					}
				}
			case holderAlive && !holder.announced:
				// the holder is still starting: either order of events is legal; only check that somebody keeps a consistent lock
			default:
				// nobody holds the repository: the command runs (whatever its own outcome) and leaves no lock
				if strings.Contains(res.Out, "already locked") {
					if fail(i, "refused-though-nobody-holds-the-lock", fmt.Sprintf("%v: %s (lock before: %q)", args, res.Out, lockBefore)) {
						return
					}
				}
				if hadLock {
					recoveries++
				}
				expectOK := s.Kind == "ok" && identityUsable
				if expectOK && res.Code != 0 {
					if fail(i, "command-fails-after-recovery/"+Normalize(lastLine(res.Out)), fmt.Sprintf("%v exited %d: %s (lock before: %q)", args, res.Code, res.Out, lockBefore)) {
						return
					}
				}
				if hasLock && (!hadLock || lockAfter != lockBefore) {
					outcome := "success"
					if res.Code != 0 {
						outcome = "failure"
					}
					if fail(i, "lock-left-by-terminated-command/"+outcome, fmt.Sprintf("%v exited %d and left lock %q behind\n%s", args, res.Code, lockAfter, res.Out)) {
						return
					}
				}
			}
		case "lock":
			if holderAlive {
				continue
			}
			lockPath := filepath.Join(dir, ".git", "git-bug", "lock")
			_ = os.MkdirAll(filepath.Dir(lockPath), 0o755)
			staleLive = false
			switch s.Lock {
			case "dead-pid", "dead-pid-7-digits":
				_ = os.WriteFile(lockPath, []byte("4194000"), 0o644)
			case "dead-pid-while-creating-the-index":
				// the holder was killed while it built its cache for the first time (or rebuilt it): its lock is
				// there, the cache files are not, and the directory of a search index exists but is still empty
				_ = os.WriteFile(lockPath, []byte("4193999"), 0o644)
				_ = os.RemoveAll(filepath.Join(dir, ".git", "git-bug", "cache"))
				_ = os.RemoveAll(filepath.Join(dir, ".git", "git-bug", "indexes"))
				_ = os.MkdirAll(filepath.Join(dir, ".git", "git-bug", "indexes", []string{"bugs", "identities"}[i%2]), 0o755)
			case "own-dead-child":
				ch := exec.Command("true")
				_ = ch.Run()
				_ = os.WriteFile(lockPath, []byte(strconv.Itoa(ch.Process.Pid)), 0o644)
			case "live-foreign-pid":
				_ = os.WriteFile(lockPath, []byte("1"), 0o644)
				staleLive = true
			case "empty":
				_ = os.WriteFile(lockPath, []byte(""), 0o644) // the holder died between creating the file and writing its pid
			case "garbage":
				_ = os.WriteFile(lockPath, []byte("not-a-pid"), 0o644)
			case "too-long":
				_ = os.WriteFile(lockPath, []byte("123456789012"), 0o644)
			}
			if s.Lock == "garbage" || s.Lock == "too-long" {
				// content no git-bug process can have written: only "no crash, lock of nobody" applies; remove it again
				res := RunCLI(dir, "bug")
				if strings.Contains(res.Out, "panic") {
					if fail(i, "panic-on-garbage-lock", res.Out) {
						return
					}
				}
				_ = os.Remove(lockPath)
			}
		}
		if staleLive {
			// the lock naming a live foreign process must survive every step
			if content, has := readLock(dir); !has || content != "1" {
				if fail(i, "lock-of-live-process-removed", fmt.Sprintf("content now %q (present %v)", content, has)) {
					return
				}
			}
			if s.Kind != "lock" && i+1 < len(c.Steps) && c.Steps[i+1].Kind == "lock" {
				// next step replaces it
			}
		}
		if s.Kind == "lock" && !staleLive {
			// nothing
		}
		// a later "lock" step or the end clears the foreign lock
		if staleLive && (i+1 == len(c.Steps)) {
			_ = os.Remove(filepath.Join(dir, ".git", "git-bug", "lock"))
		}
	}
	rep.Case(strings.Join(kinds, ","), refusals > 0 && recoveries > 0, []string{fmt.Sprintf("identity:%v", c.Identity), fmt.Sprintf("refusals:%d", min(refusals, 3)), fmt.Sprintf("recoveries:%d", min(recoveries, 3)), fmt.Sprintf("kills:%d", min(kills, 2)), fmt.Sprintf("holder-ended-on-its-own:%v", holderDied > 0), fmt.Sprintf("identity-oddly-configured:%v", oddIdentity > 0), "commands-typed-in:" + c.Worktree}, c)
}

func TestC19Lock(t *testing.T) {
	Drive(t, "C19", genC19, runC19)
}
