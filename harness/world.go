package harness

import (
	"fmt"
	"os"
	"path/filepath"
	"sort"
	"strings"

	"pgregory.net/rapid"

	"github.com/MichaelMure/git-bug/entities/bug"
	"github.com/MichaelMure/git-bug/entities/identity"
	"github.com/MichaelMure/git-bug/entity"
	"github.com/MichaelMure/git-bug/repository"

	"verif/harness/internal/entropy"
	"verif/harness/internal/ondisk"
	"verif/harness/internal/refmodel"
)

// ---------------------------------------------------------------- world

// Replica is one non-bare repository of the world, used through the dag-level API.
type Replica struct {
	Idx     int
	Path    string
	Repo    *repository.GoGitRepo
	Authors []identity.Interface // every identity of the world, as read by this replica
	Handles map[string]*bug.Bug  // live handle per bug id, replaced by MergeResult.Entity like the cache does
	Stale   bool                 // the replica was restarted with lowered clock files at some point
}

// RemoteNames are the bare remotes a world can have; every replica has all of the world's remotes configured.
var RemoteNames = []string{"origin", "alt"}

// World is n replicas sharing one bare remote "origin" (and, when asked for, a second one "alt":
// with two remotes two replicas can each publish their own branch and fetch the other's, so both
// merge the same pair of heads).
type World struct {
	Dir            string
	RemotePath     string   // path of "origin"
	Remotes        []string // names
	RemotePaths    map[string]string
	IdEdits        int // identity versions committed by idedit actions
	GCs            int // gc actions executed
	PullAPIs       int // pulls through bug.Pull / identity.Pull
	StaleClocks    int // restarts with lowered clock files
	ForeignIdEdits int // edits of an identity by a replica that does not own it (identities may diverge)
	Moves          int // remotes replaced by a new empty repository (remote set-url on every replica)
	Replicas       []*Replica
	AuthorIds      []string
	Seed           uint64
	opSeq          int

	// model
	BugIds    []string                       // creation order
	Committed map[string][]string            // bug id -> ids of every operation some replica committed
	Files     map[string][]byte              // blob hash -> content of attached files
	ROps      map[string]refmodel.ROp        // op id -> plain value, as generated
	Rejected  int                            // operations the editing helper refused (legal)
	PullLog   []PullReport                   // filled when MonitorPulls
	Monitor   func(w *World, p *PullReport)  // called after every pull
	AfterStep func(w *World, a Action) error // called after every action
}

func mkdirTemp(prefix string) string {
	base := os.Getenv("VERIF_WORK")
	if base == "" {
		base = os.TempDir()
	}
	d, err := os.MkdirTemp(base, prefix)
	if err != nil {
		panic(err)
	}
	return d
}

// NewWorld builds n replicas + remote; identities are written in the documented
// format with fixed unix_time and nonce so that every id is a function of seed.
func NewWorld(n int, seed uint64) (*World, error) { return NewWorldN(n, 1, seed) }

// NewWorldN is NewWorld with nRemotes (1..2) bare remotes.
func NewWorldN(n, nRemotes int, seed uint64) (*World, error) {
	entropy.Seed(seed)
	if nRemotes < 1 {
		nRemotes = 1
	}
	w := &World{Dir: mkdirTemp("world-"), Seed: seed, Committed: map[string][]string{}, Files: map[string][]byte{}, ROps: map[string]refmodel.ROp{}, RemotePaths: map[string]string{}}
	w.RemotePath = filepath.Join(w.Dir, "remote")
	for i := 0; i < nRemotes; i++ {
		name := RemoteNames[i]
		p := w.RemotePath
		if i > 0 {
			p = filepath.Join(w.Dir, "remote-"+name)
		}
		if _, err := repository.InitBareGoGitRepo(p, "git-bug"); err != nil {
			return nil, err
		}
		w.Remotes = append(w.Remotes, name)
		w.RemotePaths[name] = p
	}
	for i := 0; i < n; i++ {
		p := filepath.Join(w.Dir, fmt.Sprintf("r%d", i))
		repo, err := repository.InitGoGitRepo(p, "git-bug")
		if err != nil {
			return nil, err
		}
		for _, name := range w.Remotes {
			if err := repo.AddRemote(name, w.RemotePaths[name]); err != nil {
				return nil, err
			}
		}
		w.Replicas = append(w.Replicas, &Replica{Idx: i, Path: p, Repo: repo, Handles: map[string]*bug.Bug{}})
	}
	// identities: one per replica, all written on replica 0 and distributed
	r0 := w.Replicas[0]
	nIdent := n
	if nIdent < 3 {
		nIdent = 3
	}
	for i := 0; i < nIdent; i++ {
		id, _, _, err := ondisk.WriteIdentity(r0.Repo, "", []ondisk.IdentityVersion{{
			Version: 2, UnixTime: 1600000000 + int64(i), Name: fmt.Sprintf("user%d", i),
			Email: fmt.Sprintf("user%d@example.org", i), Nonce: NonceFor(seed, 1_000_000+i),
		}})
		if err != nil {
			return nil, err
		}
		w.AuthorIds = append(w.AuthorIds, id)
	}
	for _, name := range w.Remotes {
		if _, err := identity.Push(r0.Repo, name); err != nil {
			return nil, err
		}
	}
	for _, r := range w.Replicas {
		if r.Idx != 0 {
			if err := identity.Pull(r.Repo, "origin"); err != nil {
				return nil, fmt.Errorf("identity pull: %w", err)
			}
		}
		for _, id := range w.AuthorIds {
			a, err := identity.ReadLocal(r.Repo, entity.Id(id))
			if err != nil {
				return nil, fmt.Errorf("read identity: %w", err)
			}
			r.Authors = append(r.Authors, a)
		}
	}
	return w, nil
}

func (w *World) Close() {
	for _, r := range w.Replicas {
		_ = r.Repo.Close()
	}
	_ = os.RemoveAll(w.Dir)
}

// Resolvers is what bug.Read uses internally (simple identity resolver).
func Resolvers(repo repository.ClockedRepo) entity.Resolvers {
	return entity.Resolvers{&identity.Identity{}: identity.NewSimpleResolver(repo)}
}

// OpenRemote opens the bare remote afresh (no stale object or ref cache).
func (w *World) OpenRemote() (*repository.GoGitRepo, error) {
	return repository.OpenGoGitRepo(w.RemotePath, "git-bug", nil)
}

// OpenRemoteNamed opens one of the world's remotes.
func (w *World) OpenRemoteNamed(name string) (*repository.GoGitRepo, error) {
	return repository.OpenGoGitRepo(w.RemotePaths[name], "git-bug", nil)
}

// remoteName maps an action's remote index on the world's remotes.
func (w *World) remoteName(i int) string {
	if i < 0 {
		i = -i
	}
	return w.Remotes[i%len(w.Remotes)]
}

// ---------------------------------------------------------------- actions

type Action struct {
	Kind string   `json:"kind"` // new, edit, push, pull, idedit
	R    int      `json:"r"`
	Bug  int      `json:"bug,omitempty"`
	Ops  []OpSpec `json:"ops,omitempty"`
	Rem  int      `json:"rem,omitempty"` // push, pull: which remote (index modulo the world's remotes)
	N    int      `json:"n,omitempty"`   // idedit: how many versions are appended to the replica's own identity
	// edit: Bug indexes the world's bugs in creation order instead of the replica's own sorted list
	// (skipped when the replica does not hold that bug), so that two replicas can be told to edit the same bug
	Global bool `json:"global,omitempty"`
}

func (a Action) String() string {
	switch a.Kind {
	case "new", "edit":
		var ks []string
		for _, o := range a.Ops {
			ks = append(ks, fmt.Sprintf("%s@%d", o.Kind, o.Author))
		}
		return fmt.Sprintf("%s(r%d,b%d,[%s])", a.Kind, a.R, a.Bug, strings.Join(ks, " "))
	}
	if a.Kind == "idedit" {
		return fmt.Sprintf("idedit(r%d,+%d)", a.R, a.N)
	}
	if a.Kind == "gc" || a.Kind == "staleclock" {
		return fmt.Sprintf("%s(r%d)", a.Kind, a.R)
	}
	return fmt.Sprintf("%s(r%d,%s)", a.Kind, a.R, RemoteNames[a.Rem%len(RemoteNames)])
}

// GenActions draws an action list. editWeight etc. tune the mix so that
// diverged merges with unequal branch lengths are common.
func GenActions(nReplicas, minLen, maxLen, nFiles int) *rapid.Generator[[]Action] {
	return GenActionsR(nReplicas, 1, minLen, maxLen, nFiles)
}

// GenActionsR is GenActions for a world with nRemotes remotes; it also draws edits of the replicas' own identities.
func GenActionsR(nReplicas, nRemotes, minLen, maxLen, nFiles int) *rapid.Generator[[]Action] {
	one := rapid.Custom(func(t *rapid.T) Action {
		kind := rapid.SampledFrom([]string{"new", "edit", "edit", "edit", "edit", "edit", "edit", "push", "push", "push", "pull", "pull", "pull", "pull", "idedit", "gc", "fetch", "pullapi", "staleclock", "idforeign"}).Draw(t, "kind")
		a := Action{Kind: kind, R: rapid.IntRange(0, nReplicas-1).Draw(t, "r")}
		switch kind {
		case "push", "pull", "fetch", "pullapi":
			if nRemotes > 1 {
				a.Rem = rapid.IntRange(0, nRemotes-1).Draw(t, "rem")
			}
		case "idedit", "idforeign":
			a.N = rapid.IntRange(1, 3).Draw(t, "n")
		case "new":
			a.Ops = append(a.Ops, GenCreateSpec(nReplicas, nFiles).Draw(t, "create"))
			k := rapid.IntRange(0, 2).Draw(t, "extra")
			for i := 0; i < k; i++ {
				a.Ops = append(a.Ops, GenOpSpec(nReplicas, nFiles).Draw(t, "op"))
			}
		case "edit":
			a.Bug = rapid.IntRange(0, 7).Draw(t, "bug")
			k := rapid.IntRange(1, 4).Draw(t, "k")
			for i := 0; i < k; i++ {
				a.Ops = append(a.Ops, GenOpSpec(nReplicas, nFiles).Draw(t, "op"))
			}
		}
		return a
	})
	// cross: with two remotes, replicas x and y each publish their own branch of one bug on a different
	// remote and fetch the other's, so both merge the same pair of heads on their own (opposite parent order)
	// and hold the same operations under different head commits. Expanded into primitive actions here.
	cross := rapid.Custom(func(t *rapid.T) []Action {
		x := rapid.IntRange(0, nReplicas-1).Draw(t, "x")
		y := (x + rapid.IntRange(1, nReplicas-1).Draw(t, "dy")) % nReplicas
		b := rapid.IntRange(0, 3).Draw(t, "bug")
		edit := func(r int) Action {
			a := Action{Kind: "edit", R: r, Bug: b, Global: true}
			k := rapid.IntRange(1, 3).Draw(t, "k")
			for i := 0; i < k; i++ {
				a.Ops = append(a.Ops, GenOpSpec(nReplicas, nFiles).Draw(t, "op"))
			}
			return a
		}
		out := []Action{{Kind: "pull", R: x, Rem: 0}, {Kind: "pull", R: x, Rem: 1}, {Kind: "push", R: x, Rem: 0}, {Kind: "push", R: x, Rem: 1}}
		if rapid.Bool().Draw(t, "yCatchesUp") {
			out = append(out, Action{Kind: "pull", R: y, Rem: 0}, Action{Kind: "push", R: y, Rem: 0}, Action{Kind: "push", R: y, Rem: 1}, Action{Kind: "pull", R: x, Rem: 0})
		}
		out = append(out, edit(x), edit(y),
			Action{Kind: "push", R: x, Rem: 0}, Action{Kind: "push", R: y, Rem: 1},
			Action{Kind: "pull", R: x, Rem: 1}, Action{Kind: "pull", R: y, Rem: 0})
		return out
	})
	// stalemerge: replica x is ahead on a bug (several commits), y publishes one concurrent commit, x restarts
	// with stale clock files and pulls through the packaged API: the merge commit must still get a time above
	// both branches
	stalemerge := rapid.Custom(func(t *rapid.T) []Action {
		x := rapid.IntRange(0, nReplicas-1).Draw(t, "x")
		y := (x + rapid.IntRange(1, nReplicas-1).Draw(t, "dy")) % nReplicas
		b := rapid.IntRange(0, 3).Draw(t, "bug")
		edit := func(r int) Action {
			return Action{Kind: "edit", R: r, Bug: b, Global: true, Ops: []OpSpec{GenOpSpec(nReplicas, nFiles).Draw(t, "op")}}
		}
		out := []Action{{Kind: "pull", R: x}, {Kind: "push", R: x}, {Kind: "pull", R: y}, edit(y), {Kind: "push", R: y}}
		for k := rapid.IntRange(2, 4).Draw(t, "lead"); k > 0; k-- {
			out = append(out, edit(x))
		}
		return append(out, Action{Kind: "staleclock", R: x, N: rapid.IntRange(0, 3).Draw(t, "n")}, Action{Kind: "pullapi", R: x})
	})
	return rapid.Custom(func(t *rapid.T) []Action {
		var acts []Action
		if rapid.IntRange(0, 3).Draw(t, "withStaleMerge") == 0 {
			acts = append(acts, stalemerge.Draw(t, "stalemerge")...)
		}
		if nRemotes > 1 {
			n := rapid.IntRange(minLen, maxLen).Draw(t, "n")
			for len(acts) < n {
				if rapid.IntRange(0, 11).Draw(t, "macro") == 0 {
					acts = append(acts, cross.Draw(t, "cross")...)
				} else {
					acts = append(acts, one.Draw(t, "action"))
				}
			}
		} else {
			acts = append(acts, rapid.SliceOfN(one, minLen, maxLen).Draw(t, "actions")...)
		}
		// every world starts with a bug that is shared, so that edits have something to diverge on
		first := Action{Kind: "new", R: 0, Ops: []OpSpec{GenCreateSpec(nReplicas, nFiles).Draw(t, "create0")}}
		out := []Action{first, {Kind: "push", R: 0}}
		for r := 1; r < nReplicas; r++ {
			out = append(out, Action{Kind: "pull", R: r})
		}
		return append(out, acts...)
	})
}

// fetchDiagnosis lists, for a failed fetch, the remote-tracking references that the remote's references do not descend from.
func (w *World) fetchDiagnosis(r *Replica, remoteName string) string {
	remote, err := w.OpenRemoteNamed(remoteName)
	if err != nil {
		return ""
	}
	defer remote.Close()
	out := ""
	for _, ns := range []string{"identities", "bugs"} {
		for ref, h := range refsUnder(remote, "refs/"+ns+"/") {
			tr := "refs/remotes/" + remoteName + "/" + strings.TrimPrefix(ref, "refs/")
			th, err := r.Repo.ResolveRef(tr)
			if err != nil || string(th) == h {
				continue
			}
			anc := false
			if commits, err := remote.ListCommits(ref); err == nil {
				for _, c := range commits {
					anc = anc || c == th
				}
			}
			if !anc {
				out += fmt.Sprintf("\n%s: the remote is at %s, the replica's remote-tracking reference at %s, which the remote's history does not contain", ref, h[:8], string(th)[:8])
			}
		}
	}
	return out
}

// emptyRemote: after a move the new place holds nothing until somebody pushes; fetching from it is an error for
// go-git, which git-bug hands on. A pull that fails for that reason merged nothing and lost nothing.
func (w *World) emptyRemote(err error) bool {
	return w.Moves > 0 && err != nil && strings.Contains(err.Error(), "remote repository is empty")
}

// moveRemote: the project moves its hosting. A new, empty bare repository takes the place of the remote called
// name; every user re-points that remote with stock git (git remote set-url). Their remote-tracking references
// still describe the old place.
func (w *World) moveRemote(name string) error {
	w.Moves++
	p := filepath.Join(w.Dir, fmt.Sprintf("remote-%s-moved%d", name, w.Moves))
	if _, err := repository.InitBareGoGitRepo(p, "git-bug"); err != nil {
		return err
	}
	for _, r := range w.Replicas {
		if res := RunGit(r.Path, "remote", "set-url", name, p); res.Code != 0 {
			return fmt.Errorf("git remote set-url: %s", res.Out)
		}
	}
	w.RemotePaths[name] = p
	if name == "origin" {
		w.RemotePath = p
	}
	return nil
}

// fileContent is the content of pool file i.
func (w *World) fileContent(i int) []byte {
	return []byte(fmt.Sprintf("attachment %d of world %d\n\x00\x01binary", i, w.Seed))
}

// localBugIds lists the bugs a replica holds, sorted.
func localBugIds(repo repository.ClockedRepo) []string {
	ids, err := bug.ListLocalIds(repo)
	if err != nil {
		return nil
	}
	var out []string
	for _, id := range ids {
		out = append(out, string(id))
	}
	sort.Strings(out)
	return out
}

// ExecError marks a failure of the code under test while executing an action
// (as opposed to a legal refusal).
type ExecError struct {
	Sig    string
	Detail string
}

func (e *ExecError) Error() string { return e.Sig + ": " + e.Detail }

// Exec runs one action. Legal refusals (operation rejected by validation,
// push rejected as non-fast-forward) are not errors.
func (w *World) Exec(a Action) error {
	r := w.Replicas[a.R%len(w.Replicas)]
	var err error
	switch a.Kind {
	case "new":
		err = w.execEdit(r, nil, a.Ops)
	case "edit":
		ids := localBugIds(r.Repo)
		if len(ids) == 0 {
			break
		}
		id := ids[a.Bug%len(ids)]
		if a.Global {
			id = w.BugIds[a.Bug%len(w.BugIds)]
			held := false
			for _, x := range ids {
				held = held || x == id
			}
			if !held {
				break
			}
		}
		err = w.execEdit(r, &id, a.Ops)
	case "push":
		err = w.PushTo(r, w.remoteName(a.Rem))
	case "pull":
		_, err = w.PullFrom(r, w.remoteName(a.Rem))
	case "idedit":
		err = w.editIdentity(r, r.Idx, a.N)
	case "idforeign":
		// somebody edits an identity that another replica also edits (one person on two machines): the two
		// histories of that identity may diverge, and the merge of the later arrival is refused
		err = w.editIdentity(r, (r.Idx+1)%len(w.AuthorIds), a.N)
		w.ForeignIdEdits++
	case "gc":
		err = w.gc(r)
	case "fetch":
		// fetch without merging: the remote-tracking refs run ahead of what is merged locally
		if _, err = identity.Fetch(r.Repo, w.remoteName(a.Rem)); err == nil {
			_, err = bug.Fetch(r.Repo, w.remoteName(a.Rem))
		}
		if err != nil && w.emptyRemote(err) {
			err = nil
		}
		if err != nil {
			err = &ExecError{"fetch/" + Normalize(err.Error()), err.Error()}
		}
	case "pullapi":
		err = w.pullAPI(r, w.remoteName(a.Rem))
	case "staleclock":
		err = w.staleClocks(r, a.N)
	case "moveremote":
		// everybody is in step with the old place first (a project announces its move): afterwards every head that
		// is published descends from what the remote-tracking references still say, so that git-bug's
		// fast-forward-only fetch keeps working; what is under test is that everything reaches the new place
		if _, err = w.SyncToQuiescence(); err == nil {
			err = w.moveRemote(w.remoteName(a.Rem))
		}
	default:
		panic("unknown action " + a.Kind)
	}
	if err != nil {
		return err
	}
	if w.AfterStep != nil {
		return w.AfterStep(w, a)
	}
	return nil
}

func (w *World) execEdit(r *Replica, bugId *string, specs []OpSpec) error {
	var b *bug.Bug
	var prev []Built
	if bugId == nil {
		b = bug.NewBug()
	} else {
		b = r.Handles[*bugId]
		if b == nil {
			var err error
			b, err = bug.Read(r.Repo, entity.Id(*bugId))
			if err != nil {
				return &ExecError{"read-before-edit/" + Normalize(err.Error()), fmt.Sprintf("replica %d cannot read bug %s it holds: %v", r.Idx, *bugId, err)}
			}
		}
		for _, op := range b.Operations() {
			prev = append(prev, Built{Id: string(op.Id()), Kind: refmodel.TypeToKind[int(op.Type())]})
		}
	}
	// attachments are stored first, like the editing front-ends do
	nFiles := 0
	for _, s := range specs {
		for _, f := range s.Files {
			if f+1 > nFiles {
				nFiles = f + 1
			}
		}
	}
	files := make([]repository.Hash, nFiles)
	for i := range files {
		content := w.fileContent(i)
		h, err := r.Repo.StoreData(content)
		if err != nil {
			return &ExecError{"store-file", err.Error()}
		}
		files[i] = h
		w.Files[string(h)] = content
	}
	var added []refmodel.ROp
	for i, s := range specs {
		if bugId == nil && i == 0 && s.Kind != refmodel.KCreate {
			panic("first op of a new bug must be create")
		}
		w.opSeq++
		op, rop := BuildOp(s, r.Authors, prev, files, NonceFor(w.Seed, 2_000_000+w.opSeq))
		if err := op.Validate(); err != nil {
			w.Rejected++
			if bugId == nil && i == 0 {
				return nil // no bug at all
			}
			continue
		}
		b.Append(op)
		rop.Id = string(op.Id())
		added = append(added, rop)
		prev = append(prev, Built{Id: rop.Id, Kind: s.Kind})
	}
	if len(added) == 0 {
		return nil
	}
	idBefore := string(b.Id())
	var diskBefore []string
	if bugId != nil {
		if d, err := ondisk.ReadDAG(r.Repo, "refs/bugs/"+*bugId); err == nil {
			diskBefore = d.OpIds()
		}
	}
	if err := b.Commit(r.Repo); err != nil {
		return &ExecError{"commit/" + Normalize(err.Error()), fmt.Sprintf("replica %d commit of %d accepted operations failed: %v", r.Idx, len(added), err)}
	}
	id := string(b.Id())
	if id != idBefore {
		return &ExecError{"id-changed-by-commit", fmt.Sprintf("%s -> %s", idBefore, id)}
	}
	if bugId == nil {
		w.BugIds = append(w.BugIds, id)
	} else if d, err := ondisk.ReadDAG(r.Repo, "refs/bugs/"+id); err == nil {
		// later edits build on what git holds: nothing that was stored may disappear
		after := map[string]bool{}
		for _, x := range d.OpIds() {
			after[x] = true
		}
		var lost []string
		for _, x := range diskBefore {
			if !after[x] {
				lost = append(lost, x)
			}
		}
		if len(lost) > 0 {
			return &ExecError{"edit-drops-stored-operations", fmt.Sprintf("replica %d bug %s: committing %d new operation(s) through the live handle removed %d stored operation(s) %v from the history", r.Idx, id, len(added), len(lost), lost)}
		}
	}
	r.Handles[id] = b
	for _, rop := range added {
		w.Committed[id] = append(w.Committed[id], rop.Id)
		w.ROps[rop.Id] = rop
	}
	return nil
}

// editIdentity appends n versions to the replica's own identity (identity number r.Idx: nobody else
// edits it, so identities never diverge and every identity merge is a fast-forward or nothing).
func (w *World) editIdentity(r *Replica, which, n int) error {
	id := entity.Id(w.AuthorIds[which])
	i, err := identity.ReadLocal(r.Repo, id)
	if err != nil {
		return &ExecError{"read-own-identity/" + Normalize(err.Error()), err.Error()}
	}
	for k := 0; k < n; k++ {
		w.IdEdits++
		name := fmt.Sprintf("user%d-v%d-by-r%d", which, w.IdEdits, r.Idx)
		if err := i.Mutate(r.Repo, func(m *identity.Mutator) { m.Name = name }); err != nil {
			return &ExecError{"identity-mutate/" + Normalize(err.Error()), err.Error()}
		}
		if err := i.Commit(r.Repo); err != nil {
			if (r.Stale || which != r.Idx || w.ForeignIdEdits > 0) && strings.Contains(err.Error(), "lamport clock") {
				// after a restart with stale clock files, or when the previous version was written by a replica whose
				// clocks are ahead of this one's, the new version would record times below those of the previous
				// version: git-bug refuses to commit it (nothing is stored), which is the documented rule for identities
				w.Rejected++
				return nil
			}
			return &ExecError{"identity-commit/" + Normalize(err.Error()), err.Error()}
		}
	}
	return nil
}

// gc closes the replica's repository handle, lets stock git collect garbage (objects go into a pack, refs
// into .git/packed-refs, unreachable objects are pruned) and opens the repository again - what happens
// between two commands of a user whose git runs gc.
func (w *World) gc(r *Replica) error {
	_ = r.Repo.Close()
	if res := RunGit(r.Path, "gc", "-q", "--prune=now"); res.Code != 0 {
		return fmt.Errorf("harness: git gc: %s", res.Out)
	}
	repo, err := repository.OpenGoGitRepo(r.Path, "git-bug", nil)
	if err != nil {
		return &ExecError{"reopen-after-gc/" + Normalize(err.Error()), err.Error()}
	}
	r.Repo = repo
	w.GCs++
	return nil
}

// pullAPI pulls through the packaged functions identity.Pull and bug.Pull ("Fetch + MergeAll"). After they
// return without error, everything the remote-tracking refs hold is merged into the local bugs.
func (w *World) pullAPI(r *Replica, remoteName string) error {
	if err := identity.Pull(r.Repo, remoteName); err != nil {
		if w.emptyRemote(err) {
			return nil
		}
		if w.ForeignIdEdits > 0 && strings.Contains(err.Error(), "merge failure") {
			return nil // a diverged identity is refused and the packaged pull stops there: legal
		}
		return &ExecError{"identity.Pull/" + Normalize(err.Error()), err.Error()}
	}
	if err := bug.Pull(r.Repo, Resolvers(r.Repo), remoteName, r.Authors[r.Idx]); err != nil {
		return &ExecError{"bug.Pull/" + Normalize(err.Error()), err.Error()}
	}
	r.Handles = map[string]*bug.Bug{} // the merged entities are not handed back: read again before editing
	prefix := "refs/remotes/" + remoteName + "/bugs/"
	for ref := range refsUnder(r.Repo, prefix) {
		id := strings.TrimPrefix(ref, prefix)
		rd, err := ondisk.ReadDAG(r.Repo, ref)
		if err != nil {
			continue
		}
		ld, err := ondisk.ReadDAG(r.Repo, "refs/bugs/"+id)
		if err != nil {
			return &ExecError{"pull-api-did-not-merge-fetched-bugs/absent", fmt.Sprintf("replica %d: bug.Pull(%s) returned nil, bug %s of the remote does not exist locally", r.Idx, remoteName, id)}
		}
		local := setOf(ld.OpIds())
		for _, x := range rd.OpIds() {
			if !local[x] {
				return &ExecError{"pull-api-did-not-merge-fetched-bugs/behind", fmt.Sprintf("replica %d: bug.Pull(%s) returned nil, bug %s lacks operation %s that the fetched remote history holds", r.Idx, remoteName, id, x)}
			}
		}
	}
	w.PullAPIs++
	return nil
}

// staleClocks models a restart with clock files that are older than the stored data (a restored backup, a
// copied .git directory): the handle is closed, every clock file is rewritten with a lower value, the
// repository is opened again and every in-memory bug is dropped (a new process reads before it edits).
func (w *World) staleClocks(r *Replica, n int) error {
	clocks, err := r.Repo.AllClocks()
	if err != nil {
		return err
	}
	_ = r.Repo.Close()
	dir := filepath.Join(r.Path, ".git", "git-bug", "clocks")
	for name, c := range clocks {
		v := uint64(c.Time())
		nv := v / uint64(n+2)
		if nv < 1 {
			nv = 1
		}
		if err := os.WriteFile(filepath.Join(dir, name), []byte(fmt.Sprintf("%d", nv)), 0o644); err != nil {
			return err
		}
	}
	repo, err := repository.OpenGoGitRepo(r.Path, "git-bug", nil)
	if err != nil {
		return &ExecError{"reopen-with-stale-clocks/" + Normalize(err.Error()), err.Error()}
	}
	r.Repo = repo
	r.Handles = map[string]*bug.Bug{}
	r.Stale = true
	w.StaleClocks++
	return nil
}

// Push pushes identities then bugs to "origin". A rejected (non-fast-forward) push is legal.
func (w *World) Push(r *Replica) error { return w.PushTo(r, "origin") }

func (w *World) PushTo(r *Replica, remoteName string) error {
	if _, err := identity.Push(r.Repo, remoteName); err != nil && !isPushRejection(err) {
		return &ExecError{"push-identities/" + Normalize(err.Error()), err.Error()}
	}
	if _, err := bug.Push(r.Repo, remoteName); err != nil && !isPushRejection(err) {
		return &ExecError{"push-bugs/" + Normalize(err.Error()), err.Error()}
	}
	return nil
}

func isPushRejection(err error) bool {
	s := err.Error()
	return strings.Contains(s, "non-fast-forward") || strings.Contains(s, "fast-forward") || strings.Contains(s, "rejected")
}

// PullReport is what a pull did, for the C02 oracle.
type PullReport struct {
	Replica int
	Remote  string
	// identities: version id chains (independent reader) and the name carried by the last version
	IdPre, IdRemote, IdPost map[string][]string
	IdEntityName            map[string]string   // name of the entity handed back with new/updated
	IdStoredName            map[string]string   // name of the identity as stored after the merge
	Pre                     map[string][]string // bug id -> op ids readable before (real reader)
	PreRefs                 map[string]string
	RemoteOps               map[string][]string // bug id -> op ids on the bare remote right after the fetch
	RemoteErr               map[string]string
	Results                 []entity.MergeResult
	Post                    map[string][]string
	PostErr                 map[string]string
	PostRefs                map[string]string
	Entities                map[string][]string // bug id -> op ids of MergeResult.Entity for new/updated
	IdResults               []entity.MergeResult
}

func refsUnder(repo repository.RepoData, prefix string) map[string]string {
	out := map[string]string{}
	refs, err := repo.ListRefs(prefix)
	if err != nil {
		return out
	}
	for _, ref := range refs {
		if h, err := repo.ResolveRef(ref); err == nil {
			out[ref] = string(h)
		}
	}
	return out
}

// opIdsOf lists operation ids through the real reader.
func opIdsOf(b *bug.Bug) []string {
	var out []string
	for _, op := range b.Operations() {
		out = append(out, string(op.Id()))
	}
	return out
}

// readAllBugs reads every local bug synchronously (bug.Read, never the goroutine based ReadAll).
func readAllBugs(repo repository.ClockedRepo) (ok map[string][]string, bad map[string]string) {
	ok, bad = map[string][]string{}, map[string]string{}
	for _, id := range localBugIds(repo) {
		b, err := bug.Read(repo, entity.Id(id))
		if err != nil {
			bad[id] = err.Error()
			continue
		}
		ok[id] = opIdsOf(b)
	}
	return
}

// identityChains reads the version chain of every identity under prefix (refs/identities/ or refs/remotes/<r>/identities/).
func identityChains(repo repository.RepoData, prefix string) map[string][]string {
	out := map[string][]string{}
	refs, err := repo.ListRefs(prefix)
	if err != nil {
		return out
	}
	for _, ref := range refs {
		if chain, err := ondisk.ReadIdentityChain(repo, ref); err == nil {
			out[strings.TrimPrefix(ref, prefix)] = chain
		}
	}
	return out
}

// Pull = fetch + merge for identities then bugs from "origin", like RepoCache.Pull.
func (w *World) Pull(r *Replica) (*PullReport, error) { return w.PullFrom(r, "origin") }

func (w *World) PullFrom(r *Replica, remoteName string) (*PullReport, error) {
	rep := &PullReport{Replica: r.Idx, Remote: remoteName, Entities: map[string][]string{}, IdEntityName: map[string]string{}, IdStoredName: map[string]string{}}
	rep.IdPre = identityChains(r.Repo, "refs/identities/")
	var preBad map[string]string
	rep.Pre, preBad = readAllBugs(r.Repo)
	for id, e := range preBad {
		return nil, &ExecError{"unreadable-before-pull/" + Normalize(e), fmt.Sprintf("replica %d bug %s: %s", r.Idx, id, e)}
	}
	rep.PreRefs = refsUnder(r.Repo, "refs/bugs/")

	if _, err := identity.Fetch(r.Repo, remoteName); err != nil {
		if w.emptyRemote(err) {
			return rep, nil // nothing there yet: git-bug reports go-git's "remote repository is empty", nothing is merged
		}
		return nil, &ExecError{"fetch-identities/" + Normalize(err.Error()), err.Error() + w.fetchDiagnosis(r, remoteName)}
	}
	rep.IdRemote = identityChains(r.Repo, "refs/remotes/"+remoteName+"/identities/")
	for res := range identity.MergeAll(r.Repo, remoteName) {
		rep.IdResults = append(rep.IdResults, res)
		if res.Err == nil && (res.Status == entity.MergeStatusNew || res.Status == entity.MergeStatusUpdated) {
			if i, ok := res.Entity.(*identity.Identity); ok && i != nil {
				rep.IdEntityName[string(res.Id)] = i.Name()
			}
		}
	}
	rep.IdPost = identityChains(r.Repo, "refs/identities/")
	for id := range rep.IdPost {
		if i, err := identity.ReadLocal(r.Repo, entity.Id(id)); err == nil {
			rep.IdStoredName[id] = i.Name()
		} else {
			rep.IdStoredName[id] = "unreadable: " + err.Error()
		}
	}
	if _, err := bug.Fetch(r.Repo, remoteName); err != nil {
		return nil, &ExecError{"fetch-bugs/" + Normalize(err.Error()), err.Error()}
	}
	// what the remote holds: read the bare remote itself (single threaded, so it equals the fetched state)
	remote, err := w.OpenRemoteNamed(remoteName)
	if err != nil {
		return nil, err
	}
	rep.RemoteOps, rep.RemoteErr = readAllBugs(remote)
	_ = remote.Close()

	for res := range bug.MergeAll(r.Repo, Resolvers(r.Repo), remoteName, r.Authors[r.Idx]) {
		rep.Results = append(rep.Results, res)
		if res.Err == nil && (res.Status == entity.MergeStatusNew || res.Status == entity.MergeStatusUpdated) {
			if b, ok := res.Entity.(*bug.Bug); ok && b != nil {
				rep.Entities[string(res.Id)] = opIdsOf(b)
				r.Handles[string(res.Id)] = b // adopt the merged entity, like the cache
			}
		}
	}
	rep.Post, rep.PostErr = readAllBugs(r.Repo)
	rep.PostRefs = refsUnder(r.Repo, "refs/bugs/")
	if w.Monitor != nil {
		w.Monitor(w, rep)
	}
	return rep, nil
}

// SyncToQuiescence: rounds of pull+push over all replicas until no ref changes.
func (w *World) SyncToQuiescence() (rounds int, err error) {
	max := 2*len(w.Replicas)*len(w.Remotes) + 2
	for rounds = 1; rounds <= max; rounds++ {
		before := w.allRefs()
		for _, r := range w.Replicas {
			// pull from every remote first, then push to every remote: with "pull a, push a, pull b, push b"
			// two replicas and two remotes never settle (each turn leaves the two remotes on different
			// merge commits, which the other replica has to merge again) - a liveness matter of the
			// schedule, outside C01, noted in DESIGN.md
			for _, name := range w.Remotes {
				if _, err := w.PullFrom(r, name); err != nil {
					return rounds, err
				}
			}
			for _, name := range w.Remotes {
				if err := w.PushTo(r, name); err != nil {
					return rounds, err
				}
			}
		}
		after := w.allRefs()
		if os.Getenv("VERIF_DEBUG_SYNC") != "" {
			fmt.Fprintf(os.Stderr, "---- round %d\n%s", rounds, after)
		}
		if before == after {
			return rounds, nil
		}
	}
	return rounds, &ExecError{"no-quiescence", fmt.Sprintf("refs still changing after %d rounds", max)}
}

func (w *World) allRefs() string {
	var sb strings.Builder
	dump := func(name string, repo repository.RepoData) {
		m := refsUnder(repo, "refs/bugs/")
		for k, v := range refsUnder(repo, "refs/identities/") { // identities travel with the same pushes and pulls
			m[k] = v
		}
		keys := make([]string, 0, len(m))
		for k := range m {
			keys = append(keys, k)
		}
		sort.Strings(keys)
		for _, k := range keys {
			fmt.Fprintf(&sb, "%s %s %s\n", name, k, m[k])
		}
	}
	for _, r := range w.Replicas {
		dump(fmt.Sprintf("r%d", r.Idx), r.Repo)
	}
	for _, name := range w.Remotes {
		if remote, err := w.OpenRemoteNamed(name); err == nil {
			dump("remote:"+name, remote)
			_ = remote.Close()
		}
	}
	return sb.String()
}
