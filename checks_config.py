# Per-property run configuration of the driver (./check).
#
# tests: one entry per test function of the harness binary that serves the property
#   quick / thorough  number of rapid cases per process (None = the test is not rapid-driven
#                     and sizes itself from VERIF_TIER)
#   shards            processes in the thorough tier (seeds seed*1000+shard+1)
#   race              also run under the race detector in the thorough tier
# rule: how cases are generated and what makes one non-trivial / distinct (copied into evidence)

PROPS = {
    "C15": {
        "level": "exploration",
        "rule": "rapid generates sessions of 5..25 real CLI commands (bug new / comment / title / status / label / rm / select / "
                "deselect / show / list with quotes, dashes, unicode and multi-line arguments, push, pull) and library actions "
                "(attachments through RepoCache.NewWithFiles; a peer clone that edits and pushes so that the host has to merge), with "
                "a planned diverged-merge + attachment segment in 2/3 of the cases, on a host repository prepared with branches, "
                "lightweight and annotated tags, notes and remote-tracking refs, a branch / detached / unborn HEAD, optionally staged, "
                "unstaged and untracked changes, and optionally rich unrelated configuration (aliases, a remote with pushurl and a "
                "multi-valued fetch, url.insteadOf, include.path, a section named 'bugs', a second [core] section and comments). "
                "Oracle (frame condition, before vs after the session and again after gc): for-each-ref outside the four git-bug "
                "namespaces, HEAD, hash of .git/index, status --porcelain=v2, hashes and modes of work-tree files, the multiset of "
                "local configuration entries outside git-bug.*, the top-level entries of .git, the stash; validity: git fsck --strict "
                "reports no error, git clone --mirror, git gc --prune=now and a stock git push of the git-bug refs to a fresh bare "
                "repository succeed, the bugs read back there and every attached blob travelled. "
                "Non-trivial: the session has a push or pull and an attachment or a merge. Distinct: step-kind sequence."
                "Steps also include stock git gc between commands, a bridge configuration written through git-bug's configuration API, bridge rm, two attachment operations committed together, a long session (a repository handle kept open while stock git writes configuration, then git-bug writes), and an optional final wipe; foreign configuration includes sections whose names start with git-bug.",
        "assumptions": ["configuration is compared as a multiset of entries (go-git rewrites the file: merged sections, dropped comments)",
                        "FETCH_HEAD / ORIG_HEAD and *.lock files in .git are git's own bookkeeping"],
        "needs_cli": True,
        "tests": [{"name": "TestC15HostRepo", "quick": 8, "shards_quick": 4, "thorough": 50, "shards": 12, "timeout_quick": 900}],
    },
    "C16": {
        "level": "fault_enumeration",
        "rule": "rapid generates tracker histories for a simulated GitLab REST API (internal/gitlabsim: issues, notes and their edits, "
                "title / description system notes, label and state resource events, four users, paginated by 2; hostile text: CRLF, "
                "control and NUL characters, RTL override, emoji, 1.5 kB texts, empty) in 2..3 rounds of growth, imported through "
                "bridge.LoadBridge(...).ImportAll with configuration and token stored as the CLI does. Oracles: every imported bug "
                "reads back and validates; a round without injected fault relays no error; importing again while every issue is "
                "listed again adds no operation (idempotence); the compiled bugs after incremental rounds equal those of a fresh "
                "repository importing the final tracker from scratch (incrementality); then the last round is recorded and EVERY "
                "request of it is failed with 403 (404 for every third, one transient 500 for every eighth; the repository is restored "
                "from a snapshot each time): if the run relayed an error the stored lastImportTime must be unchanged, and after one more "
                "clean run the operations per issue (type, author, time, payload, gitlab id) must equal those of the same rounds "
                "without any failure. The previous cursor is aged by an hour and the growth by 30 minutes so that the 5 s safety "
                "margin of the cursor cannot hide a lost update. Non-trivial: a history with growth between rounds, and every fault "
                "run. Distinct: history shape; endpoint x status of the injected failure."
                "Every fresh import is compared with the tracker's own state (title, state, label set, description and notes): a reference that does not come from git-bug. Planned shapes: one issue's description edited in every round; a label that comes and goes. TestC16SlowImport: a comment arrives on an already-read issue while an error-free import is delayed by 6.5 s; the next incremental import must bring it.",
        "exhaustive": False,
        "exhaustive_note": "request indices of the last round are enumerated exhaustively (403) per generated history; histories are sampled",
        "assumptions": ["connection-level failures (no HTTP response) are not injected in-process: the importer dereferences a nil response in a goroutine",
                        "which 'changed the description' note an edit of the description is attributed to is a heuristic of the importer and is not compared",
                        "titles are never blank after clean-up (GitLab forbids blank titles); only system notes the importer knows are generated"],
        "tests": [{"name": "TestC16Import", "quick": 6, "shards_quick": 4, "thorough": 40, "shards": 16, "timeout_quick": 900},
                  {"name": "TestC16SlowImport", "quick": None, "thorough": None},
                  {"name": "TestC16ImportWhilePulling", "quick": 12, "thorough": 150, "shards": 2},
                  {"name": "TestC16OlderImportData", "quick": 12, "thorough": 150, "shards": 2}],
    },
    "C18": {
        "level": "exploration",
        "rule": "TestC18Concurrent: 2..8 (thorough 16) goroutines each run a rapid-generated list of 3..14 cache calls (new bug, comment / "
                "title / open / close / label on shared and own bugs, CommitAsNeeded, resolve, query, ValidLabels, snapshot) with "
                "generated Gosched yields, GOMAXPROCS in {1,2,4,16}, handles either re-resolved for every call or kept across calls. "
                "Oracle once all workers returned and everything is committed: every operation whose call returned success is stored "
                "exactly once in its bug (read from git through a fresh repository handle), nothing else is stored, every bug reads "
                "back and validates, no worker panicked, the live cache equals a rebuild (C11 comparator); a 60 s watchdog on a "
                "workload that takes well under 3 s reports workers parked on mutexes as a deadlock. A fatal runtime error (concurrent "
                "map access) kills the process and is reported by the driver as a crash inside git-bug. TestC18Eviction: a handle "
                "resolved before its entity is evicted (cache size 1 and 2) must not block forever. The thorough tier repeats the run "
                "under the race detector (reports are information only). Non-trivial: >=2 workers touched the same shared bug. "
                "Distinct: workers x GOMAXPROCS x handle mode x shared bugs x call-count multiset (schedule classes, not interleavings)."
                "Two thirds of the cases inject sleeps/yields before every cache-lock acquisition (hook cache.VerifLockHook, build tag verif); query calls alternate between a filter and a full-text search for a word of the titles being created; once the workers are done every excerpt must describe its bug's current snapshot. TestC18Recency: a bug resolved a moment ago is not the eviction victim. TestC18SnapshotStable: a snapshot taken before an edit reads the same after later edits.",
        "assumptions": ["the harness does not own the Go scheduler: outcomes are checked for the interleavings the runtime happens to produce",
                        "race-detector reports alone are not violations (the property states outcomes)",
                        "cache sizes that force eviction are exercised by TestC18Eviction, TestC18Recency and TestC18Preemption only (single-threaded or harness-owned schedules), because of the known finding the eviction has"],
        "tests": [{"name": "TestC18Concurrent", "quick": 100, "shards_quick": 4, "thorough": 500, "shards": 12, "race": True},
                  {"name": "TestC18Hammer", "quick": 6, "shards_quick": 3, "thorough": 40, "shards": 8, "race": True},
                  {"name": "TestC18Eviction", "quick": None, "thorough": None},
                  {"name": "TestC18Recency", "quick": 150, "thorough": 1500, "shards": 2},
                  {"name": "TestC18SnapshotStable", "quick": 200, "thorough": 3000, "shards": 2},
                  {"name": "TestC18Preemption", "quick": 60, "shards_quick": 4, "thorough": 600, "shards": 12}],
    },
    "C17": {
        "level": "exploration",
        "rule": "The mutation list and every input type are DISCOVERED by introspection of the served schema on each run; rapid "
                "generates for each mutation an input object from its introspected fields (bug prefix: full / shortest unique / "
                "ambiguous / unknown; combined comment id prefix: full / one character / unknown; repoRef: default / unknown; "
                "titles and messages with padding, CRLF, control characters, blank; [Hash!]: stored blob / empty / malformed; "
                "label lists) and sends it through the real GraphQL handler once without a user (read-only web UI) or with "
                "auth.Middleware(user); the upload endpoint gets valid PNG/GIF, text and empty bodies in both modes. The git config "
                "has NO user identity, so only the request context can authenticate. Oracle: without a user every mutation answers "
                "errors + data null, upload answers 403, and refs, the object database file list and everything the cache serves are "
                "unchanged, while a read query still works; with a user a failed request changes nothing, a valid request must not "
                "fail, and on success exactly one bug gained exactly the operations the mutation denotes (kinds, payload after the "
                "documented clean-up, files, status) authored by that user, and the returned bug reflects them. "
                "Non-trivial: a mutation with a valid target on an existing bug (or an upload). Distinct: mutation x auth mode x argument classes."
                "Anonymous requests also run a battery of read queries over every argument-free field of Repository and the nested lists (userIdentity included).",
        "assumptions": ["mutations added later are covered by the unauthenticated oracle automatically; their authenticated semantics only generically (author, one bug changed)",
                        "whether a label change is effective depends on the state and is not required to succeed"],
        "tests": [{"name": "TestC17API", "quick": 500, "shards_quick": 2, "thorough": 2500, "shards": 12}],
    },
    "C19": {
        "level": "fault_enumeration",
        "rule": "rapid generates schedules (4..17 steps) of real git-bug processes on one repository: a long-lived holder (webui "
                "--no-open, started waiting for its announcement or deliberately not), short commands that succeed, short commands "
                "that fail after the repository was loaded (unknown id, bad arguments, no user identity), SIGTERM / SIGINT / SIGKILL "
                "of the holder after a generated delay (including during start-up), and lock files left by a dead process (dead pid, "
                "reaped child pid, empty file = death between creating and writing the lock) or naming a live foreign process, "
                "plus garbage content; a planned segment (holder, refused commands, kill, recovery) is inserted in 2/3 of the "
                "cases. Oracle = lock automaton: while an announced holder (or a live foreign pid) owns the lock every other command "
                "and a second holder exit non-zero naming that pid and leave lock content and refs untouched; after a clean stop no "
                "lock remains; after a kill or a stale lock the next command runs; every command that terminates on its own, success "
                "or failure, leaves no lock of its own; a lock naming a live process is never removed. "
                "Non-trivial: the schedule contains a refusal and a recovery after a kill / stale lock. Distinct: step-kind sequence."
                "Commands include the shell-completion helpers that open the repository (judged by the lock, not the exit code). A step is only judged if the holder process is still alive (the web UI announces itself before binding its port).",
        "exhaustive": False,
        "exhaustive_note": "kill moments are sampled wall-clock delays; the simultaneous-start window is not asserted (see DESIGN §5)",
        "assumptions": ["while a holder is still starting (not announced) either order of events is legal and nothing is asserted about a concurrent command",
                        "garbage lock content that no git-bug process can have written only has to be survived without a panic"],
        "needs_cli": True,
        "tests": [{"name": "TestC19Lock", "quick": 10, "shards_quick": 6, "thorough": 40, "shards": 12, "timeout_quick": 600}],
    },
    "C14": {
        "level": "exploration",
        "rule": "TestC14Remove: rapid generates a go-git repository with 0..3 configured bare remotes, any subset of which received "
                "the victim by push (remote-tracking refs), remotes that know other entities only, 0..6 other bugs of which 0..2 share "
                "a ground 2-character id prefix with the victim, 0..3 commits on the victim, unrelated branches/tags/remote branches; "
                "the victim is a bug or an unreferenced identity, removed through the entity API, the cache API (shortest unique "
                "prefix) or the CLI (git-bug bug rm). Oracle: ref snapshot diff = exactly the local ref and the remote-tracking ref of "
                "every configured remote that had one; every other ref and every other bug's operation list unchanged; afterwards not "
                "resolvable by id / any prefix / query / planted search token, still so after MergeAll without a fetch, after a cache "
                "rebuild, and after repeating the removal; the other bugs stay listed and searchable. TestC14Wipe: the real CLI on "
                "host repositories with/without identity, 0..4 bugs, bridge configuration, a remote, a remote-only bug, foreign "
                "configuration: exit 0, no ref under the four git-bug namespaces, no git-bug.* key, nothing under .git/git-bug, "
                "foreign refs and configuration intact; in a third of the cases the refs are packed first (git pack-refs --all, "
                "what git gc does). TestC14RemoveAll: RepoCache.RemoveAll (first step of wipe) over 1..24 identities and 0..24 bugs, "
                "refs loose or packed, with or without remote-tracking refs: judged by stock git for-each-ref, no local ref is left. "
                "Non-trivial: >=1 remote holds the entity and >=1 other entity exists (remove); "
                "identity or bridge configured (wipe). Distinct: entity x mode x remotes/holders x others x shared prefixes x edits."
                "One remote is named with a slash (team/backup); the victim may be known through remote-tracking refs only (entity API); a third of the cases pack the refs first; CLI removals may run while another bug is selected. TestC14RemoveAll: RepoCache.RemoveAll over 1..24 identities and 0..24 bugs with loose or packed refs, judged by stock git.",
        "assumptions": ["identities referenced by bugs are never removed (documented caller responsibility)",
                        "a repeated removal may return an error as long as nothing changes"],
        "needs_cli": True,
        "tests": [{"name": "TestC14Remove", "quick": 60, "shards_quick": 2, "thorough": 300, "shards": 12},
                  {"name": "TestC14Wipe", "quick": 16, "shards_quick": 3, "thorough": 80, "shards": 8},
                  {"name": "TestC14RemoveAll", "quick": 60, "shards_quick": 2, "thorough": 400, "shards": 8}],
    },
    "C13": {
        "level": "exploration",
        "rule": "TestC13Interleave: rapid pairs of ids (unrelated, or sharing a prefix of any length), and for each EVERY prefix "
                "length 0..64 of the combined id: CombineIds follows the documented PSPS... pattern (encoded independently), "
                "SeparateIds of a prefix gives a prefix of each part with np+ns=n, both monotone, 50/14 at full length and the "
                "documented 5/7/10/16 breakdowns. TestC13Resolve: populations of 2..8 (thorough 12) bugs with 0..5 comments whose "
                "create and comment operation ids are ground (nonce search) to share 0..3 / 0..2 character prefixes; for every bug "
                "id and every combined comment id EVERY prefix length 0..64 plus a near-miss per length: reference match set by "
                "plain string prefix; one match => that entity (ResolvePrefix, ResolveExcerptPrefix, identities), several => "
                "ErrMultipleMatch whose Matching equals the set, none => ErrNotFound; ResolveComment returns exactly the pair when "
                "one comment matches and an error otherwise. Non-trivial: a population with ambiguous prefixes. Distinct: "
                "shared-prefix length (pairs) / multiset of (id prefix, comment count).",
        "exhaustive": False,
        "exhaustive_note": "prefix lengths 0..64 are enumerated exhaustively for every generated id, combined id and population; populations are sampled",
        "assumptions": ["for zero or several matching comments only 'an error, never a pair' is asserted (the statement does not name the error type)"],
        "tests": [{"name": "TestC13Interleave", "quick": 3000, "thorough": 50000, "shards": 2},
                  {"name": "TestC13Resolve", "quick": 120, "shards_quick": 2, "thorough": 600, "shards": 12}],
    },
    "C12": {
        "level": "exploration",
        "rule": "TestC12ParseRobust: strings over an alphabet of both quotes, colon, ASCII and unicode spaces, letters, emoji and the "
                "documented keywords - Parse returns a value or an error, never panics, deterministically. TestC12RoundTrip: structured "
                "queries (status / author / actor / participant / label / title / metadata k:v / no:label / search terms / at most one "
                "sort in all 9 documented spellings) rendered through the grammar of doc/queries.md with the quoting a user needs "
                "(values with spaces, colons or one kind of quote; tokens of different kinds interleaved, various separators) must "
                "parse to exactly the structure; 10 malformed variants must be errors. TestC12Evaluate: populations of 2..14 bugs by "
                "1..4 identities with shared name fragments and mixed case, labels, statuses, create metadata, comments and editors, "
                "12..20 queries each with 1..3 qualifier kinds; oracle = reference evaluator over snapshots read from git without the "
                "cache (any-of / all-of rules of the statement, case-insensitive name/login substring, id prefix), duplicate-free, "
                "monotone in the primary sort key, result(search+filters) = result(search) INTERSECT reference(filters), planted tokens "
                "found. Non-trivial: >=2 kinds, a quoted value or explicit sort (parse); a population with a query whose result is "
                "neither empty nor everything (evaluation). Distinct: abstracted token shape / population size and partial-result count."
                "Half of the bugs with metadata get it attached after creation (SetMetadata on the create operation); person values include id prefixes of the generated identities typed in lower and in upper case.",
        "assumptions": ["ties in the sort key may come in any order", "values containing both kinds of quote and empty values are not expressible and not generated",
                        "qualifier names are matched case-sensitively (the statement promises case-insensitive matching of names, logins and ids only)"],
        "tests": [{"name": "TestC12ParseRobust", "quick": 20000, "thorough": 200000, "shards": 4},
                  {"name": "TestC12RoundTrip", "quick": 5000, "thorough": 50000, "shards": 4},
                  {"name": "TestC12Evaluate", "quick": 50, "shards_quick": 3, "thorough": 300, "shards": 12},
                  {"name": "TestC12SearchAfterBuild", "quick": 6, "shards_quick": 3, "thorough": 60, "shards": 6},
                  {"name": "TestC12IndexFailure", "quick": 200, "thorough": 3000, "shards": 4},
                  {"name": "TestC12GhostAfterRebuild", "quick": 60, "thorough": 600, "shards": 4},
                  {"name": "FuzzQueryParse", "fuzztime": 60}],
    },
    "C11": {
        "level": "exploration",
        "rule": "TestC11CacheVsRebuild: two users on two go-git repositories sharing a bare remote, used only through "
                "cache.RepoCache with handles re-resolved for every action: new bug, 1..3 edits of any kind then Commit, push, "
                "pull, remove, SetCacheSize(1..3)+Resolve (eviction), close/reopen, new and renamed identities; free rapid lists "
                "(6..36 actions) with planned segments inserted (diverged bug merged then edited, identity renamed elsewhere and "
                "pulled, pull under a small cache, reopen after a pull). Oracle after EVERY action: copy the repository, delete "
                "cache files, indexes and lock, build a fresh RepoCache there and compare with the live one: id sets, every bug and "
                "identity excerpt field, resolved snapshots and identities, ValidLabels, a battery of 28 queries (as sets; order "
                "for sort:id), full-text hits of every token planted in titles and comments, create-metadata and identity-metadata "
                "lookups; plus: a commit through the cache never removes stored operations. TestC11ConcurrentBuild rebuilds a "
                "populated cache hundreds of times (concurrent subcache builds). Non-trivial: the sequence has a pull updating an "
                "existing entity, an eviction or a reopen. Distinct: action/edit-kind sequence.",
        "assumptions": ["compared at points where nothing is staged but uncommitted", "bleve is compared with bleve (same analyser)",
                        "handles are never kept across an eviction (see C18 known finding)"],
        "tests": [{"name": "TestC11CacheVsRebuild", "quick": 24, "shards_quick": 4, "thorough": 150, "shards": 16},
                  {"name": "TestC11ConcurrentBuild", "quick": None, "shards_quick": 4, "thorough": None, "shards": 8},
                  {"name": "TestC11LargePull", "quick": 6, "shards_quick": 3, "thorough": 50, "shards": 6}],
    },
    "C08": {
        "level": "exploration",
        "rule": "rapid generates identity version histories of 1..5 versions over a pool of deterministic OpenPGP keys (add / remove / "
                "rotate, bugs-edit clock advanced by generated amounts between versions, optionally created before any bug clock "
                "exists) through the real identity API, crossed with a bug commit at a generated logical edit time in six variants: "
                "signed by a key in force, by a removed key, by a not-yet-valid key, by a stranger's key, unsigned, signed then "
                "altered (tree replaced while keeping the signature, written with go-git plumbing). Oracle: reference keysInForce(T) "
                "= keys of the last version whose bugs-edit time <= T (a version without that clock inherits the previous time); "
                "accept iff no key in force or a valid signature by one of them over the exact content; bug.Read (author resolved "
                "from git, i.e. public keys only) and MergeAll must both agree, with an error and never a panic on rejection. "
                "Non-trivial: a key is in force and the variant is not 'right key'. Distinct: key-count pattern x key-in-force x variant x clock-at-first."
                "The tested commit is the root, a child with one comment or a child with an empty pack; an altered commit keeps its signature and changes the tree, the parent or the date; mutators rotate keys in place in half of the same-size changes, and a key change that adds no version is a failure.",
        "assumptions": ["go-git stores/returns the signed bytes faithfully (the mock backend only signs the tree hash and is not used)"],
        "tests": [{"name": "TestC08Signatures", "quick": 500, "shards_quick": 2, "thorough": 3000, "shards": 16},
                  {"name": "TestC08RotationDuringCommit", "quick": 100, "thorough": 1500, "shards": 4},
                  {"name": "TestC08UnreadableKey", "quick": 100, "thorough": 1500, "shards": 2}],
    },
    "C09": {
        "level": "exploration",
        "rule": "TestC09Identities: two go-git replicas and a bare remote share 1..3 identities created by the real API; rapid "
                "generates a planned part that reaches a chosen triple (common prefix p in 1..4, local suffix a in 0..3, remote "
                "suffix b in 0..3) followed by free mutate(name/login/email/avatar with valid, blank and unsafe values)/push/pull "
                "actions; pulls go through identity.MergeAll or the RepoCache. Model = chains of version ids (sha256 of the stored "
                "blobs, independent reader). Oracle per pull and identity: remote extends local => updated and local == remote; "
                "local equal/ahead => nothing, unchanged; diverged => invalid, unchanged; every remote identity gets a report; the id "
                "never changes; chains are prefix-monotone; invalid values are refused at commit and leave the history untouched, "
                "accepted ones round-trip; the cache view equals git after the merge. TestC09CraftedChains: chains with decreasing / "
                "dropped clocks, no name and login, unsafe characters served by a remote are refused in every local situation. "
                "Non-trivial: a pull with remote-extends, diverged, or equal/ahead with prefix >= 2. Distinct: relation + prefix "
                "multiset (+ operator x position x situation for crafted chains)."
                "Clock actions (bug activity) move a repository's clocks; an edit whose new version would record clocks behind the previous version must be refused (planned in a quarter of the cases).",
        "assumptions": ["avatar URL validity is not asserted (the statement does not list it)"],
        "tests": [{"name": "TestC09Identities", "quick": 120, "shards_quick": 3, "thorough": 600, "shards": 16},
                  {"name": "TestC09CraftedChains", "quick": 600, "thorough": 3000, "shards": 2},
                  {"name": "TestC09ForeignFormatting", "quick": 300, "thorough": 5000, "shards": 2}],
    },
    "C07": {
        "level": "exploration",
        "rule": "A catalogue of structural mutation operators (100 for bug histories: tree entries, pack JSON, single elements "
                "and fields with type confusion, commits, refs; 48 for identity histories) is applied to valid histories written "
                "by the real API, at a chosen commit/version and element; the result is served as raw git objects under "
                "refs/remotes/origin/{bugs,identities} and crossed with the local situation {absent, equal, ahead, behind, "
                "diverged}. TestC07Catalogue enumerates operator x situation x position class systematically; the rapid tests "
                "vary base histories, positions and the merge layer (dag / RepoCache). Oracle: stage 1 - the same data under a "
                "local ref makes bug.Read / identity.ReadLocal return an error (never panic); stage 2 - MergeAll never crashes, "
                "MUST-REJECT operators are reported invalid, refs (local, remote-tracking, identities), local operation lists, "
                "cache view and clocks are unchanged by refused data; accepted (MAY) data yields a readable valid entity. "
                "Thorough adds native coverage-guided fuzzing of the ops blob and the identity version blob. "
                "Non-trivial: mutated entity differs from the original and the local situation is not 'absent'. "
                "Distinct: operator x position class x situation x layer."
                "Further operators: first unassigned and boundary operation types, nonce lengths at the limits, a second root that looks like a genuine first commit, times far ahead followed by a commit going back (a refused history must leave the local clocks where they were). TestC07SignedHistories: commits of an author with a key in force served unsigned, signed by a stranger or altered under a kept signature (root, child with operations, child with an empty pack), reported invalid with refs untouched.",
        "exhaustive": False,
        "exhaustive_note": "TestC07Catalogue enumerates catalogue x situations x position classes completely on one base history; the rapid and fuzz parts sample",
        "assumptions": ["MUST-REJECT only for deviations from the documented format, a validation rule or a ref/id mismatch; benign "
                        "deviations the reader tolerates (unknown fields or tree entries, duplicated clock entries) only need 'no crash, no damage'",
                        "panics are probed through the synchronous read path first because MergeAll/ReadAll run in goroutines whose panics cannot be recovered"],
        "tests": [{"name": "TestC07Catalogue", "quick": None, "thorough": None},
                  {"name": "TestC07HostileBugs", "quick": 1500, "thorough": 6000, "shards": 8},
                  {"name": "TestC07HostileIdentities", "quick": 800, "thorough": 4000, "shards": 4},
                  {"name": "TestC07SignedHistories", "quick": 400, "thorough": 4000, "shards": 4},
                  {"name": "FuzzOpsBlob", "fuzztime": 150},
                  {"name": "FuzzIdentityVersion", "fuzztime": 100}],
    },
    "C06": {
        "level": "fault_enumeration",
        "rule": "TestC06CrashPoints: rapid generates write scenarios (new bug single/multi-author, append 1..5 operations + commit, "
                "new identity, two identity mutations, dag-level pull hitting merge scenarios 1/4/5 with generated branch lengths, "
                "cache pull, cache new+comment+title) on a prepared two-replica world; a counting run records the N storage "
                "mutations (blob/tree/commit writes, ref updates and copies, clock increments and witnesses, fetches) and the legal "
                "resting states; then EVERY abort point k in 0..N-1 is enumerated: restore the directory snapshot, rerun, make "
                "mutation k and all later calls fail, re-open with clock loaders, read every bug and identity, require each entity "
                "to be in a state it had before or after a step, clocks usable and above every stored time, and repeating the "
                "interrupted step to reach the post state with each operation once. TestC06TornClock: every crash point (file-system "
                "call or byte) inside an update of a persisted clock file, through a fault-injecting billy filesystem, for generated "
                "values across digit-length boundaries. Non-trivial: abort strictly inside the write (k>0 / budget>0). "
                "Distinct: scenario + N + k (+ branch lengths); digit pattern + crash point."
                "Scenario identity-several-versions: one Commit stores several pending versions (new identity mutated twice; existing identity mutated three times). TestC06TornClock also enumerates the crash points of the very first write of a clock file.",
        "exhaustive": False,
        "exhaustive_note": "abort points are enumerated exhaustively per generated scenario; scenarios and clock values are sampled",
        "assumptions": ["crash granularity = between storage API calls of repository.ClockedRepo, and between/inside file-system calls for clock files",
                        "atomicity inside go-git's own object and ref writers is git's and is not enumerated",
                        "objects left unreferenced by an interrupted write are not a violation",
                        "cache files (excerpts, index) may be stale after a crash; only git data and clocks are judged"],
        "tests": [{"name": "TestC06CrashPoints", "quick": 24, "shards_quick": 3, "thorough": 150, "shards": 16},
                  {"name": "TestC06TornClock", "quick": 150, "thorough": 2000, "shards": 2},
                  {"name": "TestC06ApiMutations", "quick": 8, "shards_quick": 3, "thorough": 60, "shards": 8}],
    },
    "C05": {
        "level": "exploration",
        "rule": "rapid generates stateful sequences (3..35 actions) on one repository (go-git with persisted clocks, or the "
                "in-memory backend): Increment, Witness (small / older / huge values), new bug, edit+commit, read all, a peer whose "
                "clock jumps far ahead edits and pushes, pull (fetch+merge), close and re-open with the bug clock loader, delete "
                "one or all clock files then re-open. Model: lower bound per clock = max of everything incremented, witnessed, "
                "read or merged (reset to the maximum stored in local commits when its file is deleted). Oracle after every action: "
                "no clock below its bound; every new commit carries an edit time above the clock's previous value and above every "
                "edit time stored in a local commit (independent reader); the repository reads back what it wrote. "
                "TestC05CLI drives the real binary with clock files deleted between commands. Non-trivial: a re-open or clock "
                "deletion after a peer merge raised the clock (go-git) / a sequence of >5 actions (memory). Distinct: action-kind sequence."
                "The subject may publish (push) and the peer may merge and publish (peersync), so that the subject fast-forwards to a merge commit made elsewhere before it writes.",
        "assumptions": ["remote-tracking refs fetched but not merged are not part of what a clock must dominate",
                        "values passed to a bare Witness are legitimately forgotten when the clock file is deleted"],
        "needs_cli": True,
        "tests": [{"name": "TestC05Clocks", "quick": 400, "shards_quick": 2, "thorough": 1500, "shards": 16},
                  {"name": "TestC05CLI", "quick": 6, "shards_quick": 3, "thorough": 40, "shards": 8}],
    },
    "C04": {
        "level": "exploration",
        "rule": "rapid generates 1..5 commit chunks of 1..5 operations over all 8 kinds (valid unicode / whitespace-edged / long / "
                "empty texts, 0..12 metadata keys, 0..3 attached blobs, 3 authors interleaved inside one staging area). Oracle: the "
                "expected operation list (from the specification, ids predicted before the commit) equals, field by field, the "
                "stored JSON parsed independently (ids = sha256 of each stored element, bug id = id of the first), bug.Read, "
                "bug.ReadAll, a second replica after push/pull, its cache, and a round trip on the in-memory backend; Validate "
                "passes on the reader's side; lamport times agree; every attached blob is readable with the same content on the "
                "second replica; the bug id never changes. Non-trivial: >=2 commits, >=2 authors in a staging area, an attachment "
                "or non-ASCII / edge-whitespace text. Distinct: op-kind sequence with chunking + author pattern.",
        "assumptions": ["valid UTF-8 only; operations refused by Validate are not part of the expected history"],
        "tests": [{"name": "TestC04RoundTrip", "quick": 150, "shards_quick": 2, "thorough": 500, "shards": 16},
                  {"name": "TestC04ForeignForm", "quick": 400, "thorough": 3000, "shards": 2},
                  {"name": "TestC04CommitRetry", "quick": 300, "shards_quick": 2, "thorough": 3000, "shards": 8}],
    },
    "C01": {
        "level": "exploration",
        "rule": "rapid generates action lists (8..40 actions, thorough ..110) over 2-3 go-git replicas sharing one bare remote (two "
                "thirds of the cases) or two (origin, alt): new bug, edit with 1..4 operations of any kind by any author (several "
                "authors in one staging area give several commits), push/pull to/from either remote, edits of a replica's own identity, "
                "and with two remotes a 'cross' episode (two replicas edit the same bug, publish on different remotes, fetch each "
                "other's branch: both merge the same pair of heads in opposite parent order); then pull-all/push-all rounds until no "
                "ref changes. Oracle: (a) after every pull, any two replicas that hold the same SET of operations of a bug under "
                "different head commits show the same order and compiled snapshot; (b) at quiescence every bug readable on every "
                "replica, identical operation-id order and compiled snapshot everywhere, id set = everything committed (model), refs "
                "equal on all replicas and remotes. Non-trivial: some final history holds a merge commit. Distinct: replica count + multiset of merge "
                "shapes (commits exclusive to each parent) + operation-kind multiset."
                "Also generated: fetch without merge, the packaged identity.Pull + bug.Pull (post-condition: everything fetched is merged), stock git gc between actions, restarts with lowered clock files, edits of another replica's identity (identities may diverge), and a planned stale-merge episode.",
        "assumptions": ["identities are exchanged before the bugs that reference them (as RepoCache.Pull/Push do)",
                        "a rejected non-fast-forward push is a legal outcome"],
        "tests": [{"name": "TestC01Convergence", "quick": 40, "shards_quick": 4, "thorough": 300, "shards": 16},
                  {"name": "TestC01CacheConvergence", "quick": 30, "shards_quick": 3, "thorough": 300, "shards": 8}],
    },
    "C02": {
        "level": "exploration",
        "needs_cli": True,
        "rule": "same generated histories as C01; the monitored step is every pull (fetch + identity merge + bug merge). Oracle per "
                "pull: what was readable stays readable, pre is a subsequence of post, post = pre U remote (remote read on the bare "
                "repository itself), remote-only bugs are created, report new/nothing/updated agrees with ref movement and op sets, "
                "invalid never occurs, the entity handed back lists exactly the stored merged operations, and a later edit through "
                "that handle never removes stored operations; the same clauses for identities over version chains read "
                "independently (remote ahead by 1..6 versions: nothing lost, post = longer chain, new/updated/nothing truthful, the "
                "identity handed back is the stored one). TestC02CachePull: histories through the cache API of two replicas (with "
                "re-opened and rebuilt caches, small cache sizes): after every RepoCache.Pull the bug handed out by Resolve starts "
                "with exactly the operations of the local ref, keeps what it had, and its excerpt counts the same comments. "
                "Non-trivial: a pull that fast-forwarded (s4) or merged diverged "
                "branches (s5) an existing bug. Distinct: multiset of merge scenarios with branch lengths."
                "Identities may diverge when a replica edits another replica's identity: the diverged one must be refused, untouched, and the merge must go on with the others.",
        "assumptions": ["single-threaded harness: the bare remote equals the just-fetched state"],
        "tests": [{"name": "TestC02Pull", "quick": 60, "shards_quick": 4, "thorough": 400, "shards": 16},
                  {"name": "TestC02CachePull", "quick": 40, "shards_quick": 3, "thorough": 300, "shards": 8},
                  {"name": "TestC02CLIPull", "quick": 8, "shards_quick": 3, "thorough": 60, "shards": 8},
                  {"name": "TestC02InterruptedPull", "quick": 40, "shards_quick": 2, "thorough": 400, "shards": 8}],
    },
    "C03": {
        "level": "exploration",
        "rule": "Domain A (TestC03Histories): every replica state reached by the C01 generator, checked after every action: real "
                "order = packs sorted by (edit time, sha256 of the ops blob) read by an independent parser of the git layout, no "
                "operation before one of an ancestor commit, written clocks strictly increase along edges, re-read and re-open "
                "agree. Domain B (TestC03Crafted): DAGs of 1..10+ packs written directly in the documented layout with consistent "
                "clocks (equal edit times on concurrent packs included) or one injected defect (15 kinds); a reference validator "
                "computed from the stored DAG decides accept/refuse; accepted DAGs must read in reference order on go-git and on "
                "the in-memory backend. Non-trivial: a fork/merge, an equal-edit-time pair or an injected defect. Distinct: DAG "
                "shape + defect + verdict (B), merge shapes (A)."
                "After every refused read of a crafted history the reader's clocks are where they were.",
        "assumptions": ["shapes the statement is silent about (create clock on a non-root, a large hop onto a merge commit, zero "
                        "edit time on a root) are expected to be accepted or are not asserted"],
        "tests": [{"name": "TestC03Crafted", "quick": 1500, "thorough": 6000, "shards": 8},
                  {"name": "TestC03Histories", "quick": 30, "shards_quick": 4, "thorough": 200, "shards": 8}],
    },
    "C10": {
        "level": "exploration",
        "rule": "rapid generates operation lists (create + 0..39 operations, thorough 0..399) over all 8 kinds with "
                "targets resolved against earlier operations (comment / any operation / unknown id), 1-3 authors, "
                "colliding label and metadata-key pools; oracle = independent reference interpreter + recompile + "
                "metamorphic removal of ineffective edits (+ BugCache incremental vs from-scratch in TestC10Cache). "
                "Non-trivial: >=3 operation kinds and (an edit, a label removal or a metadata-key collision). "
                "Distinct: fingerprint = sequence of operation kinds with target classes.",
        "assumptions": ["only valid UTF-8 text is generated", "order of actors/participants and membership of "
                        "metadata/no-op authors in actors are not asserted (statement is silent)"],
        "tests": [
            {"name": "TestC10Snapshot", "quick": 4000, "thorough": 12000, "shards": 16},
            {"name": "TestC10Cache", "quick": 200, "shards_quick": 2, "thorough": 1000, "shards": 8},
        ],
    },
    "C20": {
        "level": "exploration",
        "rule": "Layer 1: exhaustive enumeration of the 7 generated Relay connection functions over list lengths 0..8 x "
                "first,last in {nil,-1,0..10} x after,before in {nil, every valid cursor, 8 kinds of invalid cursor}, and rapid "
                "requests up to length 200; oracle = reference Relay pager (window by after/before, then first, then last), "
                "independent cursor encoding, truthful hasNext/hasPrevious for pure forward/backward requests, totalCount. "
                "Layer 2 (TestC20GraphQL): page walks over the served GraphQL API of a generated repository. "
                "Non-trivial: a cursor strictly inside the list or a page that is neither empty nor the whole list. "
                "Distinct: fingerprint = (function, length, size classes, cursor positions).",
        "exhaustive": False,
        "exhaustive_note": "TestC20Exhaustive enumerates its finite space completely (see notes.requests_enumerated); the other tests of this property sample",
        "assumptions": ["crossing windows (before <= after) and undecodable / out-of-range cursors are only required to give a "
                        "contiguous in-order duplicate-free slice with correct cursors and count, or an error"],
        "tests": [
            {"name": "TestC20Exhaustive", "quick": None, "thorough": None},
            {"name": "TestC20Random", "quick": 20000, "thorough": 100000, "shards": 8},
            {"name": "TestC20GraphQL", "quick": 60, "shards_quick": 2, "thorough": 400, "shards": 8},
        ],
    },
}

# Text for MANIFEST.json, per claimed property.
MANIFEST_TEXT = {
    "C15": {
        "technique": "property-based testing (rapid) of CLI/library sessions on a prepared host repository; frame-condition oracle computed with stock git, validity oracle = git fsck --strict / clone / gc / push",
        "level_text": "Generated sessions of real commands are run on a host repository with foreign refs, a dirty tree and foreign "
                      "configuration; everything outside git-bug's namespaces is fingerprinted before and after with stock git, and "
                      "stock git must accept, transport and garbage-collect everything git-bug wrote.",
        "design_ref": "DESIGN.md §4 C15",
        "level_note": "Trusted: stock git 2.39 as the judge of object validity and of the host repository's state.",
    },
    "C16": {
        "technique": "property-based testing (rapid) of tracker histories against a simulated GitLab server with exhaustive HTTP-fault enumeration per request of a round; differential oracles (never-failed run, import from scratch)",
        "level_text": "Generated tracker histories are imported in rounds; idempotence and incrementality are checked differentially, and every "
                      "request of the last round is failed in turn, followed by a clean run, and compared with the same rounds without failure.",
        "design_ref": "DESIGN.md §4 C16",
        "level_note": "Trusted: the simulated server as a stand-in for GitLab's API (five endpoints, pagination headers, no rate-limit header); go-gitlab's retry policy (429/5xx retried, 403/404 not).",
    },
    "C18": {
        "technique": "property-based concurrency testing (rapid-generated multi-goroutine workloads, varied GOMAXPROCS and yields) with an acknowledged-operations oracle, deadlock watchdog and rebuild differential",
        "level_text": "Generated concurrent workloads against one live cache; the oracle compares acknowledged operations with what git holds "
                      "and the cache with a rebuild. Exploration of schedules the Go runtime produces; weak by nature (see DESIGN §5).",
        "design_ref": "DESIGN.md §4 C18, §5",
        "level_note": "Trusted: nothing about absent interleavings; a pass means no lost/duplicated acknowledged operation in the schedules met.",
    },
    "C17": {
        "technique": "property-based testing (rapid) of the served GraphQL API: schema introspection drives the request generator; frame-condition and recorded-change oracles read git independently",
        "level_text": "Requests are generated from the introspected schema and sent with and without an authenticated user; the repository "
                      "is fingerprinted before and after (refs, object files, cache view) and new operations are parsed from git by the independent reader.",
        "design_ref": "DESIGN.md §4 C17",
        "level_note": "Trusted: net/http/httptest transport in place of a socket; the reference clean-up functions as a reading of util/text's documented behaviour.",
    },
    "C19": {
        "technique": "stateful property-based testing (rapid) of schedules of real processes with injected kills and stale lock files, judged by a reference lock automaton",
        "level_text": "Generated schedules of real git-bug processes (holder, succeeding and failing commands, signals at generated moments, "
                      "stale/torn lock files) are judged by a lock automaton. Faults (kills, lock files) are enumerated by kind and sampled in time.",
        "design_ref": "DESIGN.md §4 C19",
        "level_note": "Trusted: the holder's 'Press Ctrl+c' line as the announcement that it owns the lock; pid 1 as a live foreign process.",
    },
    "C14": {
        "technique": "property-based testing (rapid) over repository configurations with a frame-condition oracle on the ref snapshot; real CLI for rm and wipe",
        "level_text": "Generated configurations (remotes, holders, other entities with engineered shared prefixes, removal path) are checked "
                      "against an exact frame condition on refs, entities, cache and index, including repeatability and non-resurrection.",
        "design_ref": "DESIGN.md §4 C14",
        "level_note": "Trusted: stock git for-each-ref / config for the wipe post-conditions.",
    },
    "C13": {
        "technique": "property-based testing (rapid) with nonce-ground id populations; exhaustive enumeration of prefix lengths vs a plain string-prefix reference",
        "level_text": "Every prefix length of every id of generated populations with engineered shared prefixes is resolved and compared with "
                      "the reference match set; the interleaving law is checked against an independent encoding of the documented pattern.",
        "design_ref": "DESIGN.md §4 C13",
        "level_note": "Trusted: the documented pattern string as the specification of the interleaving.",
    },
    "C12": {
        "technique": "property-based testing (rapid): grammar-based query generation with parse round trip; reference evaluator over generated bug populations; native fuzzing of the parser in the thorough tier",
        "level_text": "Round-trip and differential oracles over generated query strings and populations. Exploration.",
        "design_ref": "DESIGN.md §4 C12",
        "level_note": "Trusted: the reference evaluator as a reading of the statement and doc/queries.md; bleve for full-text hits (only intersection and planted tokens are asserted).",
    },
    "C11": {
        "technique": "stateful property-based testing (rapid) with a rebuild differential after every action; stress of the concurrent cache build",
        "level_text": "Differential oracle: after each generated cache-level action everything the live cache serves is compared with a "
                      "cache rebuilt from a copy of the git data. Exploration with shrinking of the action list.",
        "design_ref": "DESIGN.md §4 C11",
        "level_note": "Trusted: the rebuild path itself (it is the reference); directory copy as 'the git data'.",
    },
    "C08": {
        "technique": "property-based testing (rapid): generated key histories x commit variants vs a reference key-validity function",
        "level_text": "Generated identity/key histories and signed, unsigned, foreign-signed and altered commits are judged by the real reader "
                      "and by a reference function written from the statement; both the local read and the merge path are compared.",
        "design_ref": "DESIGN.md §4 C08",
        "level_note": "Trusted: ProtonMail/go-crypto for signing in the harness; go-git plumbing for the altered-commit variant.",
    },
    "C09": {
        "technique": "stateful property-based testing (rapid) of mutate/push/pull identity histories vs a model of version-id chains; crafted hostile chains vs the stated rejection rules",
        "level_text": "Model-based: the expected merge verdict is computed from the prefix relation of independently read version chains for "
                      "every generated (prefix, local suffix, remote suffix) situation, through the entity API and the cache.",
        "design_ref": "DESIGN.md §4 C09",
        "level_note": "Trusted: internal/ondisk chain reader; version ids embed the wall clock, so ids differ between runs but relations do not.",
    },
    "C07": {
        "technique": "structured mutation testing of on-disk histories (operator catalogue x positions x local situations, rapid-varied) with no-crash / reported-invalid / frame-condition oracles; native coverage-guided fuzzing of the JSON blobs in the thorough tier",
        "level_text": "Hostile inputs are generated structurally (every operator of a catalogue at every position class in every local "
                      "situation, plus rapid-varied bases) and byte-level (go fuzz); the oracle demands rejection without crash and an "
                      "unchanged local state. Exploration: the catalogue is finite and enumerated, the byte-level space is sampled.",
        "design_ref": "DESIGN.md §4 C07",
        "level_note": "Trusted: the MUST/MAY classification of operators; raw objects under remote-tracking refs stand for what a fetch delivers.",
    },
    "C06": {
        "technique": "fault injection with exhaustive enumeration of abort points per rapid-generated write scenario; fault-injecting filesystem for torn clock files",
        "level_text": "For every generated write scenario each prefix of its sequence of storage mutations is executed and followed by a "
                      "re-open and a full read (old-or-new per entity, clocks, repeatability); clock-file updates are cut at every "
                      "file-system call and byte. Exhaustive over crash points per scenario, sampled over scenarios.",
        "design_ref": "DESIGN.md §4 C06",
        "level_note": "Trusted: the crash model (see assumptions); directory snapshot/restore as 'the disk at the time of death'.",
    },
    "C05": {
        "technique": "stateful property-based testing (rapid): clock/commit/merge/re-open/delete sequences vs a max-of-everything-seen model, on persisted and in-memory clocks",
        "level_text": "Model-based stateful testing: a reference lower bound per clock is maintained across generated action sequences "
                      "including restarts and clock-file loss; every commit's stored edit time is read back independently.",
        "design_ref": "DESIGN.md §4 C05",
        "level_note": "Trusted: the model of what a clock must dominate (see assumptions); file deletion stands for 'clocks missing'.",
    },
    "C04": {
        "technique": "property-based testing (rapid): round trip of generated operation sequences through git, a second replica, the cache and both backends, with an independent sha256/JSON reader for the id laws",
        "level_text": "Round-trip oracle over generated operation sequences and chunkings; ids and payloads are re-derived from the raw "
                      "stored bytes by an independent reader. Exploration with shrinking.",
        "design_ref": "DESIGN.md §4 C04",
        "level_note": "Trusted: internal/ondisk as independent reader; go-git transport; valid UTF-8 only.",
    },
    "C01": {
        "technique": "stateful property-based testing (rapid): generated multi-replica histories + sync to quiescence, convergence invariant vs a history model",
        "level_text": "Generated-input search over edit/push/pull histories of 2-3 real go-git repositories and a bare remote; the oracle "
                      "is an invariant over the history (identical order and state everywhere, nothing lost or invented). Exploration: "
                      "hundreds of histories per run, most with unequal-length diverged merges; failures shrink to a short action list.",
        "design_ref": "DESIGN.md §4 C01",
        "level_note": "Trusted: go-git transport between local repositories; the history model (ids of committed operations).",
    },
    "C02": {
        "technique": "stateful property-based testing (rapid): every pull of generated histories checked against pre/remote/post operation sets read independently",
        "level_text": "Each pull of generated multi-replica histories is checked against set/subsequence relations between the local state "
                      "before, the remote state and the local state after, and against the reported merge status and returned entity.",
        "design_ref": "DESIGN.md §4 C02",
        "level_note": "Trusted: reading the bare remote right after the fetch as 'what the remote holds'.",
    },
    "C03": {
        "technique": "property-based testing (rapid): differential against an independent on-disk reader/reference order; crafted DAGs with injected clock/root/merge defects vs a reference validator",
        "level_text": "Generated histories and hand-crafted commit DAGs in the documented layout are read by the real code and by an "
                      "independent parser; order, causality, determinism across re-read/re-open/backends and refusal of bad histories "
                      "are compared. Exploration with shrinking.",
        "design_ref": "DESIGN.md §4 C03",
        "level_note": "Trusted: the independent reader (internal/ondisk) and the reference validator as readings of the statement and doc/model.md.",
    },
    "C10": {
        "technique": "property-based testing (rapid): generated operation sequences vs an independent reference interpreter; metamorphic and recompile relations",
        "level_text": "Generated-input search: thousands of generated operation sequences per run are compiled by the real code and "
                      "compared field by field with an independent reference interpreter of the documented semantics. Exploration, "
                      "not proof: it shows agreement on every generated sequence and shrinks any disagreement to a minimal list.",
        "design_ref": "DESIGN.md §4 C10",
        "level_note": "Trusted: the reference interpreter (internal/refmodel) as a faithful reading of the statement; the exported "
                      "operation constructors; valid UTF-8 text only.",
    },
    "C20": {
        "technique": "exhaustive enumeration of a bounded request space + rapid-generated requests and page walks vs a reference Relay pager",
        "level_text": "Every combination of list length 0..8, page sizes and cursor kinds is enumerated for each generated connection "
                      "function and compared with a reference pager; longer lists and the served GraphQL API are explored with generated "
                      "requests and page walks. Exhaustive inside the stated bound, exploration beyond it.",
        "design_ref": "DESIGN.md §4 C20",
        "level_note": "Trusted: the reference pager as a reading of the Relay connection semantics the statement names; synthetic "
                      "lists stand for real ones in layer 1 (the functions are generic over the element type).",
    },
}

# Properties not (yet) claimed, with the reason. Entries whose id is in PROPS are ignored.
_PENDING = "check not built yet in this session (planned, see DESIGN.md §4); not claimed until its harness exists and is silent on the unchanged tree"
NOT_APPLICABLE = {}

# Rule texts for the tests added after seeded round 6 (appended to the property's rule, which the evidence copies).
_ROUND6_RULES = {
    "C02": "TestC02CLIPull: the pull command itself on a host, a peer and a bare remote driven by the real binary; generated steps (peer "
           "creates/comments/pushes, host comments/creates/pushes, stock git fetch of git-bug's refspecs, pull), optionally a first pull "
           "before the host has an identity; planned ending: the remote gains commits, optionally a local edit, optionally a stock-git "
           "fetch, then pull. Oracle (stock git merge-base --is-ancestor): after a pull every remote-tracking reference is contained in "
           "the local reference of the same entity, an entity only the remote had exists locally, the old local head is an ancestor of "
           "the new one. Non-trivial: a pull that started with references fetched earlier and not merged.",
    "C03": "For every crafted DAG that is refused, the same DAG is also the LOCAL side of a merge on a fresh in-memory backend: a valid "
           "sibling of the root is the remote branch; the merge must not report new/updated, the local reference stays, and no clock "
           "ends above max(before, what the valid remote branch stores).",
    "C04": "A cache already open on the second replica (built from git or loaded from its files, bug resolved or not) pulls a later "
           "comment made on the first replica: the bug it hands out lists expected + that comment.",
    "C05": "TestC05CLI may plant, before the final clock loss, a reference under refs/bugs/ that is not a bug (named to sort first or "
           "last); commands may then refuse to run, the stored-times oracle is unchanged.",
    "C06": "TestC06ApiMutations: one GraphQL mutation (addCommentAndClose/Reopen, addComment, setTitle, changeLabels, closeBug, openBug, "
           "newBug) sent to a handler over a cache over the fault-injecting repository; every abort point k enumerated; states compared "
           "by shape (operation kinds, status, title, comment texts, labels) because API timestamps are the wall clock: after the crash "
           "every bug has its shape from before the action or from after the complete action. Non-trivial: abort at a mutation other "
           "than a clock witness.",
    "C08": "Each case ends with a pull through the cache of a second replica that met the author at its first version (cache built then; "
           "author resolved, or cache re-opened, or neither): the later versions and the commit arrive in one pull and the merge status "
           "must agree with keysInForce(T) over the whole version history.",
    "C18": "TestC18Preemption (needs the lock hook): call A (mutate/comment + Commit or CommitAsNeeded on an identity or a bug) is parked "
           "before its K-th cache-mutex acquisition, K in 0..14; call B (resolve the other entities under cache size 1..3, create one, "
           "list, read A's entity, GetUserIdentity) runs meanwhile; A is released after 150 ms or when B is done. Both return within "
           "10 s; no panic; an acknowledged commit is in git exactly once. Non-trivial: A reached its K-th acquisition. The schedules "
           "where A is parked before taking its entity's lock and B evicts that entity block for ever: known finding F16.",
}
for _k, _v in _ROUND6_RULES.items():
    PROPS[_k]["rule"] += " " + _v

_ROUND7_RULES = {
    "C01": "In a third of the histories without diverging identities one remote moves: everybody synchronises, a new empty bare "
           "repository takes the remote's place and every replica re-points it with git remote set-url; a pull from the still empty "
           "place (go-git: remote repository is empty) counts as a pull of nothing.",
    "C02": "TestC02InterruptedPull: N (1..6) bugs on the remote; the pulling process fetches, merges and is killed after the K-th "
           "merge result (nothing closed, lock left); the next run opens a cache: every bug with a local reference is listed and "
           "resolves by id and prefix; a complete pull then brings all N. Non-trivial: K < N.",
    "C04": "TestC04CommitRetry: after the creation is stored, the K-th (0..40) storage mutation of the session fails once and the "
           "session goes on (one more comment, another Commit); after a successful Commit the operations the bug lists equal the "
           "operations a fresh reader finds in git, under the id handed out at creation. Non-trivial: a failure was injected.",
    "C05": "TestC05CLI may pack every reference with stock git (pack-refs --all --prune) before the final clock loss.",
    "C06": "Crash states keep the dead process's lock file byte for byte with a pid that is not running; a cache is opened on every "
           "crash state of TestC06ApiMutations (crash points inside the opening of the cache, before the mutation, are not enumerated).",
    "C07": "Operators added: C1 control characters (U+0085, U+009B, U+009D) in message, title, label, identity name and login; a null "
           "(and two nulls) in an identity version's key list.",
    "C08": "In a quarter of the cases one update of the identities' search index is refused during that pull.",
    "C09": "Stock git pack-refs between actions (free and planned: r0 packs, the other identities are edited there, then the planned pull).",
    "C10": "TestC10Cache ends with three runs: a normal close, a run that edits (title, status, label) and is killed before Close "
           "(lock left), a run that loads the cache files: the excerpt's title, status, labels and comment count equal the "
           "compilation of the stored operations.",
    "C11": "TestC11LargePull: N in 1..170 (and 74..77, 149..152) bugs with a word of their own are pulled by an open cache, then each "
           "gets a comment with a second word and is pulled again; after each pull the search for every word returns exactly its bug "
           "(what a cache rebuilt from git returns; checked against a real rebuild for N <= 20). Non-trivial: N > 75.",
    "C12": "TestC12IndexFailure: 2..8 bugs created through a cache whose FailAt-th bugs-index update is refused once; every bug in git "
           "is returned by the queries that do not use the index (none, status:, title:, sort:) in that session; without a failure "
           "also after a reopen, search included. Non-trivial: a failure was injected.",
    "C13": "In a third of the populations stock git packs the references before bug #PackAt is written; later bugs and one more "
           "identity are loose; the cache is built afterwards.",
    "C14": "LateRemote (entity API and cache): the removing handle has listed its remotes, stock git adds a remote, the victim is pushed there.",
    "C17": "One request in eight is preceded by git pack-refs --all --prune on the served repository.",
    "C18": "A third of TestC18Concurrent's cases close and reopen the cache before the workers start (entities are read when first "
           "resolved). TestC18Preemption: B may resolve the identities (evicting the author of A's bug).",
    "C19": "Step idcfg rewrites git-bug.identity: listed twice, upper case, unknown id, or restored; commands are expected to succeed "
           "only while it is usable, the lock rules hold throughout.",
    "C20": "TestC20GraphQL: FailK >= 0 sends an addComment whose FailK-th storage operation fails before the walks; bug.comments and "
           "bug.operations are compared with git when no request failed, or when the failed operation was not the reference update and "
           "the cache reports nothing pending.",
}
for _k, _v in _ROUND7_RULES.items():
    PROPS[_k]["rule"] += " " + _v

_ROUND8_RULES = {
    "C04": "In a third of TestC04RoundTrip's cases a second handle on the same repository (another process) reads an older bug after every commit.",
    "C05": "TestC05CLI may move the local references with stock git (git fetch origin 'refs/bugs/*:refs/bugs/*' ...), then pull and write.",
    "C06": "Scenario edit-many: one commit of 250..369 operations.",
    "C07": "A third of the cache-level merges run in a repository without a selected user identity: the merge may be refused as a whole, refs stay, no crash.",
    "C08": "TestC08RotationDuringCommit: key sets before/after (0..2 keys each) rotated on the shared identity object by a hook that runs just before the first storage operation of the author's commit; if Commit returns nil the bug reads back.",
    "C09": "TestC09ForeignFormatting: 1..4 versions, each compact / with a trailing newline / indented / surrounded by white space; id = hash of the first JSON document; read, merged as new or fast-forwarded with the same id, repeat = nothing.",
    "C10": "Half of TestC10Cache's cases continue with a second user who commits four comments and two titles in one commit while the first commits three comments and a label add/remove; after the merge snapshot = reference interpretation of the stored DAG = a second read.",
    "C11": "Action dropindex: the index directory is removed while the cache files stay; reopen.",
    "C12": "Half of TestC12Evaluate's cases run eight rounds of two simultaneous requests on one bug (close/re-open || comment) under lock-boundary delays before the queries, and ask status:open, status:closed, participant: and actor: explicitly.",
    "C13": "Half of the populations hold one bug written with indented JSON in another key order (ids = hashes of the stored bytes).",
    "C14": "Cache mode may load the cache from files, resolve the victim first, and after the removal shrink both caches to 1 and resolve every entity (no panic).",
    "C15": "From: commands typed at the top, in a linked working tree (git worktree add) or in a sub-directory.",
    "C16": "TestC16ImportWhilePulling: a colleague imported the same project and pushed; our import's request #0 triggers a pull of that; afterwards one bug per issue in the tracker's state.",
    "C19": "Worktree: one-shot commands typed in a linked working tree or a sub-directory while the holder runs in the main one.",
    "C20": "CreateK >= 0: the first page (size 1..3) of allBugs sort:creation-asc is served from a hook inside another user's creation of a bug, the following pages after it; every bug that existed at the start is visited once, in order.",
}
for _k, _v in _ROUND8_RULES.items():
    PROPS[_k]["rule"] += " " + _v

_ROUND9_RULES = {
    "C04": "A quarter of TestC04RoundTrip's cases also open the repository from a linked working tree (git worktree add) and a sub-directory of it: the bug reads back with the expected operations, and a bug committed there reads back in the main tree.",
    "C06": "Scenario pull-dag-stale-clocks: the dag-level pull with every clock file set back to 1 beforehand; an uninterrupted run that fails is reported too.",
    "C07": "A third of the cases with a local entity pack every reference (git pack-refs --all --prune) before the merge.",
    "C08": "TestC08UnreadableKey: an identity declaring a key of algorithm 25/26/27/28/99/110 in a v4/v5/v6 packet (alone or after an ordinary key); an unsigned or stranger-signed commit in its name is never read or merged as valid.",
    "C09": "Half of the cache-level pulls load the cache from its files, resolve every identity and set the identity cache size to exactly that number before merging.",
    "C11": "Action race (planned segment, and the last action of half of the histories): two requests on one bug (comment+commit, label+commit), the first parked before its K-th cache-mutex acquisition (K in 0..24) while the second runs; then the usual live-vs-rebuilt comparison.",
    "C12": "TestC12GhostAfterRebuild: 2..7 bugs created through a cache, cache closed, one bug's reference deleted with stock git and (two cases in three) the index directory removed; after the reopen no query returns the deleted bug and each returns the others.",
    "C16": "TestC16OlderImportData: after a first import one label operation per bug is stored a second time with the same gitlab-id (what the older bridge version did); every issue is listed again three times; the operation count does not grow.",
    "C17": "One bug has a 72-comment thread; targetPrefix may be a combined-id prefix shared by two or more of its comments (class ambiguous): the mutation must be refused.",
    "C18": "Half of the label calls of TestC18Concurrent ask for the same label (all but the first have nothing to do and are answered with an error).",
    "C20": "The walked bugs are created three per second (equal unix creation times).",
}
for _k, _v in _ROUND9_RULES.items():
    PROPS[_k]["rule"] += " " + _v
