# Per-property run configuration of the driver (./check).
#
# tests: one entry per test function of the harness binary that serves the property
#   quick / thorough  number of rapid cases per process (None = the test is not rapid-driven
#                     and sizes itself from VERIF_TIER)
#   shards            processes in the thorough tier (seeds seed*1000+shard+1)
#   race              also run under the race detector in the thorough tier
# rule: how cases are generated and what makes one non-trivial / distinct (copied into evidence)

PROPS = {
    "C10": {
        "level": "exploration",
        "rule": "rapid generates operation lists (create + 0..39 operations, thorough 0..399) over all 8 kinds with "
                "targets resolved against earlier operations (comment / any operation / unknown id), 1-3 authors, "
                "colliding label and metadata-key pools; oracle = independent reference interpreter + recompile + "
                "metamorphic removal of ineffective edits (+ BugCache incremental vs from-scratch in TestC10Cache). "
                "Non-trivial: >=3 operation kinds and (an edit, a label removal or a metadata-key collision). "
                "Distinct: fingerprint = sequence of operation kinds with target classes.",
        "assumptions": ["only valid UTF-8 text is generated", "order of actors/participants and membership of "
                        "metadata/no-op authors in actors are not asserted (statement is silent)"],
        "tests": [
            {"name": "TestC10Snapshot", "quick": 4000, "thorough": 12000, "shards": 16},
        ],
    },
    "C20": {
        "level": "exploration",
        "rule": "Layer 1: exhaustive enumeration of the 7 generated Relay connection functions over list lengths 0..8 x "
                "first,last in {nil,-1,0..10} x after,before in {nil, every valid cursor, 8 kinds of invalid cursor}, and rapid "
                "requests up to length 200; oracle = reference Relay pager (window by after/before, then first, then last), "
                "independent cursor encoding, truthful hasNext/hasPrevious for pure forward/backward requests, totalCount. "
                "Layer 2 (TestC20GraphQL): page walks over the served GraphQL API of a generated repository. "
                "Non-trivial: a cursor strictly inside the list or a page that is neither empty nor the whole list. "
                "Distinct: fingerprint = (function, length, size classes, cursor positions).",
        "exhaustive": False,
        "exhaustive_note": "TestC20Exhaustive enumerates its finite space completely (see notes.requests_enumerated); the other tests of this property sample",
        "assumptions": ["crossing windows (before <= after) and undecodable / out-of-range cursors are only required to give a "
                        "contiguous in-order duplicate-free slice with correct cursors and count, or an error"],
        "tests": [
            {"name": "TestC20Exhaustive", "quick": None, "thorough": None},
            {"name": "TestC20Random", "quick": 20000, "thorough": 100000, "shards": 8},
        ],
    },
}

# Text for MANIFEST.json, per claimed property.
MANIFEST_TEXT = {
    "C10": {
        "technique": "property-based testing (rapid): generated operation sequences vs an independent reference interpreter; metamorphic and recompile relations",
        "level_text": "Generated-input search: thousands of generated operation sequences per run are compiled by the real code and "
                      "compared field by field with an independent reference interpreter of the documented semantics. Exploration, "
                      "not proof: it shows agreement on every generated sequence and shrinks any disagreement to a minimal list.",
        "design_ref": "DESIGN.md §4 C10",
        "level_note": "Trusted: the reference interpreter (internal/refmodel) as a faithful reading of the statement; the exported "
                      "operation constructors; valid UTF-8 text only.",
    },
    "C20": {
        "technique": "exhaustive enumeration of a bounded request space + rapid-generated requests and page walks vs a reference Relay pager",
        "level_text": "Every combination of list length 0..8, page sizes and cursor kinds is enumerated for each generated connection "
                      "function and compared with a reference pager; longer lists and the served GraphQL API are explored with generated "
                      "requests and page walks. Exhaustive inside the stated bound, exploration beyond it.",
        "design_ref": "DESIGN.md §4 C20",
        "level_note": "Trusted: the reference pager as a reading of the Relay connection semantics the statement names; synthetic "
                      "lists stand for real ones in layer 1 (the functions are generic over the element type).",
    },
}

# Properties not (yet) claimed, with the reason. Entries whose id is in PROPS are ignored.
_PENDING = "check not built yet in this session (planned, see DESIGN.md §4); not claimed until its harness exists and is silent on the unchanged tree"
NOT_APPLICABLE = {("C%02d" % i): _PENDING for i in range(1, 21)}
